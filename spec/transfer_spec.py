"""Defining formulas of the supported transfer characteristics on [0,1] (ITU-T H.273
Table 3, ITU-R BT.1886, BT.2100-2 scene-referred PQ and HLG, IEC 61966-2-1), written as
plain double-precision point functions independently of /repo.  Every one of these curves
is monotone non-decreasing on [0,1], so its range over an interval is spanned by the
endpoint values (widened by a relative 1e-13 for the host libm).  `to_gamma`: linear light
-> code value, `to_linear`: its inverse.  xvYCC (IEC 61966-2-4) is taken on [0,1] as the
BT.1886 pair, which is how the property quantifies it."""
import math
from engine.ival import I

def mono(fp):
    def g(x):
        lo, hi = fp(max(x.lo, 0.0)), fp(max(x.hi, 0.0))
        return I(lo - abs(lo) * 1e-13 - 1e-300, hi + abs(hi) * 1e-13 + 1e-300)
    return g

def power(gm):
    return mono(lambda v: v ** gm), mono(lambda v: v ** (1.0 / gm))

# BT.709 OETF pair used by the PQ OOTF.  BT.2100 prints the 3-digit constants (1.099, 0.099,
# 59.5208, 267.84); ITU-R BT.2390-2 section 5.3.1 gives the exact ones they are rounded
# from (alpha, beta from the continuity conditions; scale 59.49080238715383): used here.
ALPHA = 1.09929682680944; BETA = 0.018053968510807; SCALE = 59.49080238715383
def g709(e):
    l = SCALE * e
    return 4.5 * l if l < BETA else ALPHA * l ** 0.45 - (ALPHA - 1)
def g709_inv(v):
    l = v / 4.5 if v < 4.5 * BETA else ((v + (ALPHA - 1)) / ALPHA) ** (1 / 0.45)
    return l / SCALE

M1 = 2610.0 / 16384.0; M2 = 2523.0 / 4096.0 * 128.0
C1 = 3424.0 / 4096.0; C2 = 2413.0 / 4096.0 * 32.0; C3 = 2392.0 / 4096.0 * 32.0
def pq_inv_eotf(fd):
    p = fd ** M1
    return ((C1 + C2 * p) / (1.0 + C3 * p)) ** M2
def pq_eotf(e):
    p = e ** (1.0 / M2)
    return (max(p - C1, 0.0) / (C2 - C3 * p)) ** (1.0 / M1)
def pq_oetf(x):            # BT.2100 Table 4: OETF = EOTF^-1[OOTF[E]], OOTF = 100 * G1886[G709[E]] cd/m2
    return pq_inv_eotf(g709(x) ** 2.4 * 100.0 / 10000.0)
def pq_inv_oetf(y):
    return g709_inv((pq_eotf(y) * 10000.0 / 100.0) ** (1 / 2.4))

HA = 0.17883277; HB = 1 - 4 * HA; HC = 0.5 - HA * math.log(4 * HA)
def hlg_oetf(x): return math.sqrt(3.0 * x) if x <= 1.0 / 12.0 else HA * math.log(12.0 * x - HB) + HC
def hlg_inv_oetf(y): return y * y / 3.0 if y <= 0.5 else (math.exp((y - HC) / HA) + HB) / 12.0

def srgb_to_linear(x): return x / 12.92 if x <= 0.04045 else ((x + 0.055) / 1.055) ** 2.4
def srgb_to_gamma(x): return x * 12.92 if x <= 0.0031308 else 1.055 * x ** (1 / 2.4) - 0.055

def log_pair(div, floor_):
    to_gamma = lambda x: 0.0 if x < floor_ else 1.0 + math.log10(x) / div
    # H.273 defines the curve for L >= floor only; its inverse on V in (0,1]; V = 0 is the
    # image of the whole interval [0, floor] and is mapped to the floor itself
    to_linear = lambda y: 10.0 ** (div * (y - 1.0))
    return mono(to_linear), mono(to_gamma)

P24 = power(2.4); P22 = power(2.2); P28 = power(2.8)
L100 = log_pair(2.0, 0.01); L316 = log_pair(2.5, math.sqrt(10.0) / 1000.0)
ident = lambda x: x
SPEC = {   # name: (to_linear, to_gamma)
    'BT1886': P24, 'ST170M': P24, 'ST240M': P24, 'BT2020Ten': P24, 'BT2020Twelve': P24, 'XVYCC': P24,
    'BT470M': P22, 'BT470BG': P28,
    'SRGB': (mono(srgb_to_linear), mono(srgb_to_gamma)),
    'Logarithmic100': L100, 'Logarithmic316': L316,
    'PerceptualQuantizer': (mono(pq_inv_oetf), mono(pq_oetf)),
    'HybridLogGamma': (mono(hlg_inv_oetf), mono(hlg_oetf)),
    'Linear': (ident, ident),
}
