#!/bin/sh
# development helper: regenerate facts for a build config into /tmp/facts/<cfg>
CFG=${1:-K1}; shift
EXTRA_RF=""; EXTRA_CARGO=""
case $CFG in K2) EXTRA_RF="-C target-feature=+fma";; K3) EXTRA_CARGO="--no-default-features";; K4) EXTRA_RF="-C overflow-checks=off -C debug-assertions=off";; esac
mkdir -p /tmp/facts/$CFG
T=$(mktemp -d)
cd ${VERIF_REPO:-/repo} && env LD_LIBRARY_PATH=$(rustc +nightly --print sysroot)/lib RUSTFLAGS="-Zmir-opt-level=0 -Zalways-encode-mir -Awarnings $EXTRA_RF" RUSTC_WRAPPER=/verif/driver/target/release/mirfacts VERIF_FACTS_DIR=/tmp/facts/$CFG VERIF_DESCEND=/verif/driver/descend.txt CARGO_TARGET_DIR=$T cargo +nightly check --offline --lib $EXTRA_CARGO 2>&1 | tail -1
rm -rf $T
