#!/bin/sh
# usage: try_seed.sh <patch.diff> <property> [tier]  - run a check against /repo with a seeded change applied, then undo it.
# Evidence and reports of such a run go to a scratch directory (VERIF_OUT_DIR), never to /verif/evidence.
P=$1; [ -f "$(dirname $1)/patch_current.diff" ] && P=$(dirname $1)/patch_current.diff; ID=$2; TIER=${3:-quick}
git -C /repo apply "$P" || exit 3
OUT=$(mktemp -d /tmp/tryseed.XXXXXX)
cd /verif && VERIF_OUT_DIR=$OUT python3-vt verif.py check $ID --tier $TIER; RC=$?
git -C /repo checkout -- . ; git -C /repo clean -fdq -e target
rm -rf "$OUT"
echo "exit=$RC"
