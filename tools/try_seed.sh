#!/bin/sh
# usage: try_seed.sh <patch.diff> <property> [tier]  - run a check against a scratch worktree of /repo with a seeded
# change applied; the worktree (and its build output) is removed afterwards.  /repo itself is never touched, so several
# of these may run side by side and next to a check of the clean tree.
# Evidence and reports of such a run go to a scratch directory (VERIF_OUT_DIR), never to /verif/evidence.
P=$1; [ -f "$(dirname $1)/patch_current.diff" ] && P=$(dirname $1)/patch_current.diff; ID=$2; TIER=${3:-quick}
WT=$(mktemp -d /tmp/tryseed.wt.XXXXXX); rmdir "$WT"
git -C /repo worktree add -q --detach "$WT" HEAD || exit 3
git -C "$WT" apply "$P" || { git -C /repo worktree remove --force "$WT"; exit 3; }
OUT=$(mktemp -d /tmp/tryseed.XXXXXX)
cd /verif && VERIF_REPO=$WT VERIF_OUT_DIR=$OUT python3-vt verif.py check $ID --tier $TIER; RC=$?
git -C /repo worktree remove --force "$WT"; git -C /repo worktree prune
rm -rf "$OUT" "$WT"
echo "exit=$RC"
