#!/bin/sh
cd driver && CARGO_NET_OFFLINE=true cargo +nightly build --release --offline >/dev/null 2>&1; cd ..
for c in C01 C02 C04 C05 C06 C08 C09 C11 C12 C14 C15 C16 C17 C18 C19 C07 C13 C03 C10 C20; do
  s=$(date +%s); python3-vt verif.py check $c --tier thorough 2>&1 | tail -2; e=$(date +%s); echo "TIME $c $((e-s))s"
done
