#!/bin/sh
# which seeded patches still apply to /repo's current HEAD?
for d in /verif/seeded/*/; do n=$(basename $d); p=$d/patch.diff; [ -f $d/patch_current.diff ] && p=$d/patch_current.diff
  if git -C /repo apply --check $p 2>/dev/null; then :; else echo "NOAPPLY $n"; fi; done
