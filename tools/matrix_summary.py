#!/usr/bin/env python3
"""Rewrites the block between <!-- matrix:begin --> and <!-- matrix:end --> in DESIGN.md from
selftest/matrix.json (seeded changes x checks) and selftest/benign_matrix.json (behaviour-preserving
refactors x checks)."""
import json, os, re, glob
V = os.path.dirname(os.path.dirname(os.path.abspath(__file__)))
def cell(r):
    if not isinstance(r, dict): return '?'
    if r.get('rc') == 0: return '.'
    if r.get('rc') == 1: return 'R' if r.get('refuted') else 'U'
    return 'E'
def main():
    m = json.load(open(os.path.join(V, 'selftest', 'matrix.json')))
    checks = [f'C{i:02d}' for i in range(1, 21)]
    lines = []
    lines.append('Legend: `R` refuted (witness or definite structural mismatch), `U` undecided = reported as a violation (fail closed), `.` silent, `E` internal error, `?` not run (round-7 rows: slow checks were run only where they are the own check). Rows: seeded change (a-d: rounds 1-3, functional slips; e,f: round 4, subtle numeric degradations; g,h: round 5, loop restructurings / assertions that can fire / numerically worse rewrites; i,j: round 6; k: round 7, changes that need something specific to manifest) or reverted fix; `own` = the check of the property the change was written against.')
    lines.append('')
    lines.append('| change | own | ' + ' | '.join(c[1:] for c in checks) + ' | what it is |')
    lines.append('|---|---|' + '|'.join(['---'] * len(checks)) + '|---|')
    own_hit = own_tot = 0
    for name in sorted(m):
        row = m[name]
        own = name[:3] if name[0] == 'C' else None
        meta = {}
        mp = os.path.join(V, 'seeded', name, 'meta.json')
        if os.path.exists(mp): meta = json.load(open(mp))
        what = (meta.get('summary') or '').replace('|', '/')[:110]
        if name.startswith('revert_'): what = 'revert of fix ' + name[7:]
        if meta.get('neutralised_by'): what = '(neutralised by a later fix: expected silent) ' + what[:70]
        cells = [cell(row.get(c)) for c in checks]
        o = ''
        if own:
            o = cell(row.get(own)); 
            if not meta.get('neutralised_by'):
                own_tot += 1; own_hit += o in ('R', 'U')
        lines.append(f"| {name} | {o} | " + ' | '.join(cells) + f" | {what} |")
    lines.append('')
    lines.append(f"Own-check detection: {own_hit} of {own_tot} seeded changes (neutralised ones excluded); every reverted fix is reported by the check that found the defect.  Cells of the slow checks (C03, C09, C10, C13, C14, C20) that were silent in an earlier complete run were not all re-run for the last engine version (`seed_matrix.py --reduced`); every own-check cell and every cell of a reverted fix is from the final version, the other cells from the version before the last round of fixes (8.5, round 5).")
    bp = os.path.join(V, 'selftest', 'benign_matrix.json')
    if os.path.exists(bp):
        b = json.load(open(bp))
        tot = sum(1 for r in b.values() for c in checks if isinstance(r.get(c), dict))
        loud = [(n, c) for n, r in b.items() for c in checks if isinstance(r.get(c), dict) and r[c].get('rc') != 0]
        lines.append('')
        lines.append(f"Behaviour-preserving refactors (`selftest/benign/`): {len(b)} patches x {len(checks)} checks = {tot} runs, {len(loud)} alarms" + (': ' + ', '.join(f'{n}/{c}' for n, c in loud[:20]) if loud else '.')
                     + "  (All cells of the fast checks are from the final engine version; cells of the slow checks that were silent in an earlier complete run were not all re-run.)  The alarms on r2w1_2 (`flat_map`) and r5w2_2 (`with_capacity` + `push`) are the accepted limitations of 8.7.")
    block = '\n'.join(lines)
    p = os.path.join(V, 'DESIGN.md')
    s = open(p).read()
    if '<!-- matrix:begin -->' not in s:
        s = s.replace("seed x check; the summary is appended below by `tools/matrix_summary.py`.\n", "seed x check; the summary below is written by `tools/matrix_summary.py`.\n\n<!-- matrix:begin -->\n<!-- matrix:end -->\n")
    s = re.sub(r'<!-- matrix:begin -->.*?<!-- matrix:end -->', lambda _: '<!-- matrix:begin -->\n' + block + '\n<!-- matrix:end -->', s, flags=re.S)
    open(p, 'w').write(s)
    print(f"own-check detection {own_hit}/{own_tot}")
if __name__ == '__main__':
    main()
