#!/usr/bin/env python3
"""Independent confirmation of the seeded changes produced by sub-agents: for each
/tmp/seedout/<ID>/<v>/ apply patch in the scratch worktree /tmp/seed/<ID>, run the pinned
suite (39 pass, 1 known failure), run the demo (must fail), revert, run demo (must pass)."""
import json, os, subprocess, sys, re, shutil
OUT=os.environ.get('SEED_OUT','/tmp/seedout'); WT=os.environ.get('SEED_WT','/tmp/seed')
def sh(cmd, cwd, timeout=3000):
    p=subprocess.run(cmd, shell=True, cwd=cwd, capture_output=True, text=True, timeout=timeout)
    return p.returncode, p.stdout+p.stderr
def suite(wt):
    rc,out=sh('cargo test --offline --workspace --no-fail-fast 2>&1', wt)
    m=re.findall(r'test result: (\w+)\. (\d+) passed; (\d+) failed', out)
    failed=re.findall(r'^test (\S+) \.\.\. FAILED', out, re.M)
    lib=m[0] if m else None
    return lib, failed, out
def main(ids):
    res={}
    for ID in ids:
        wt=f'{WT}/{ID}'
        for v in ('a','b'):
            d=f'{OUT}/{ID}/{v}'
            if not os.path.exists(d+'/patch.diff'): continue
            meta=json.load(open(d+'/meta.json'))
            sh('git checkout -- . && git clean -fdq -e target', wt)
            r={'id':ID,'v':v,'summary':meta.get('summary')}
            rc,out=sh(f'git apply {d}/patch.diff', wt)
            r['apply']=rc
            if rc!=0:
                r['err']=out[-500:]; res[ID+v]=r; print(json.dumps(r)); continue
            rc,out=sh('cargo build --offline 2>&1', wt); r['build']=rc
            lib,failed,out=suite(wt)
            r['suite']=lib; r['suite_failed']=failed
            dp=os.path.join(wt, meta['demo_path']); os.makedirs(os.path.dirname(dp),exist_ok=True)
            shutil.copy(d+'/demo.rs', dp)
            cmd=meta['demo_cmd']
            rc,out=sh(cmd+' 2>&1', wt); r['demo_with_patch_rc']=rc; r['demo_with_tail']=out[-300:]
            sh(f'git apply -R {d}/patch.diff', wt)
            rc,out=sh(cmd+' 2>&1', wt); r['demo_without_patch_rc']=rc
            if rc!=0: r['demo_without_tail']=out[-600:]
            os.remove(dp)
            sh('git checkout -- . && git clean -fdq -e target', wt)
            r['ok']= (r['build']==0 and lib is not None and lib[1]=='39' and lib[2]=='1' and failed==['rgb_xyb::tests::xyb_to_rgb_correct'] and r['demo_with_patch_rc']!=0 and r['demo_without_patch_rc']==0)
            res[ID+v]=r
            print(json.dumps(r), flush=True)
    json.dump(res, open(f'{OUT}/validation_{ids[0]}_{ids[-1]}.json','w'), indent=1)
if __name__=='__main__':
    main(sys.argv[1:])
