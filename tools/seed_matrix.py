#!/usr/bin/env python3
"""Self-test matrix: every confirmed seeded change (and every reverted fix) x every check,
each in its own scratch worktree of /repo (VERIF_REPO), results in selftest/matrix.json.
usage: seed_matrix.py [--only-own] [--jobs N] [--checks C01,C02] [--seeds C01a,...]"""
import argparse, concurrent.futures as cf, glob, json, os, shutil, subprocess, sys, tempfile, time
V = os.path.dirname(os.path.dirname(os.path.abspath(__file__)))

def benign():
    return [(os.path.basename(p)[:-5], p, None) for p in sorted(glob.glob(os.path.join(V, 'selftest', 'benign', '*.diff')))]

def seeds():
    out = []
    for d in sorted(glob.glob(os.path.join(V, 'seeded', '*'))):
        n = os.path.basename(d)
        p = os.path.join(d, 'patch_current.diff')
        if not os.path.exists(p): p = os.path.join(d, 'patch.diff')
        out.append((n, p, n[:3]))
    for p in sorted(glob.glob(os.path.join(V, 'selftest', 'regress', 'revert_*.diff'))):
        out.append((os.path.basename(p)[:-5], p, None))
    return out

def run_seed(args):
    name, patch, own, checks, only_own = args
    if not checks:
        return name, {}
    wt = tempfile.mkdtemp(prefix=f'mx-{name}-')
    os.rmdir(wt)
    res = {}
    try:
        subprocess.run(['git', '-C', '/repo', 'worktree', 'add', '-q', '--detach', wt, 'HEAD'], check=True, capture_output=True)
        r = subprocess.run(['git', '-C', wt, 'apply', patch], capture_output=True, text=True)
        if r.returncode != 0:
            return name, {'_apply': r.stderr[-200:]}
        out = tempfile.mkdtemp(prefix=f'mxout-{name}-')
        env = dict(os.environ, VERIF_REPO=wt, VERIF_OUT_DIR=out)
        todo = [own] if (only_own and own) else checks
        for c in todo:
            t0 = time.time()
            try:
                p = subprocess.run(['python3-vt', os.path.join(V, 'verif.py'), 'check', c, '--tier', 'quick'], cwd=V, env=env, capture_output=True, text=True, timeout=2400)
            except subprocess.TimeoutExpired:
                res[c] = dict(rc=124, refuted=0, undecided=0, first='', wall=2400, error='timeout')
                continue
            lines = [l for l in p.stdout.splitlines() if l.strip().startswith(('refuted', 'undecided'))]
            res[c] = dict(rc=p.returncode, refuted=sum(1 for l in lines if l.strip().startswith('refuted')), undecided=sum(1 for l in lines if l.strip().startswith('undecided')),
                          first=(lines[0].strip()[:260] if lines else ''), wall=round(time.time() - t0, 1))
            if p.returncode not in (0, 1):
                res[c]['error'] = (p.stderr.strip().splitlines() or [''])[-1][:300]
        shutil.rmtree(out, ignore_errors=True)
    finally:
        subprocess.run(['git', '-C', '/repo', 'worktree', 'remove', '--force', wt], capture_output=True)
        shutil.rmtree(wt, ignore_errors=True)
    return name, res

def main():
    ap = argparse.ArgumentParser()
    ap.add_argument('--only-own', action='store_true'); ap.add_argument('--jobs', type=int, default=6)
    ap.add_argument('--checks', default=','.join(f'C{i:02d}' for i in range(1, 21))); ap.add_argument('--seeds', default='')
    ap.add_argument('--benign', action='store_true', help='run the behaviour-preserving refactors (selftest/benign): every check must stay silent')
    ap.add_argument('--retry-errors', action='store_true', help='only re-run cells whose recorded exit code is neither 0 nor 1')
    ap.add_argument('--reduced', action='store_true', help='the slow checks (C03, C09, C10, C13, C14, C20) are re-run only where they are the own check of the change or reported it in the recorded matrix, or where no cell is recorded yet; every other check is re-run for every change')
    a = ap.parse_args()
    checks = a.checks.split(',')
    ss = [s for s in (benign() if a.benign else seeds()) if not a.seeds or s[0] in a.seeds.split(',')]
    path = os.path.join(V, 'selftest', 'benign_matrix.json' if a.benign else 'matrix.json')
    results = json.load(open(path)) if os.path.exists(path) else {}
    SLOW = ('C03', 'C09', 'C10', 'C13', 'C14', 'C20')
    def todo(n):
        if a.reduced:
            row = results.get(n, {})
            return [c for c in checks if c not in SLOW or (not a.benign and c == n[:3]) or not isinstance(row.get(c), dict) or row[c].get('rc') != 0]
        if not a.retry_errors: return checks
        return [c for c in checks if results.get(n, {}).get(c, {}).get('rc') not in (0, 1)]
    with cf.ThreadPoolExecutor(a.jobs) as ex:
        for name, res in ex.map(run_seed, [(n, p, own, todo(n), a.only_own) for n, p, own in ss]):
            results.setdefault(name, {}).update(res)
            json.dump(results, open(path, 'w'), indent=1, sort_keys=True)
            own = name[:3] if name[0] == 'C' else None
            print(name, {c: ('R' if r.get('refuted') else 'U' if r.get('undecided') else ('ok' if r.get('rc') == 0 else 'rc%s' % r.get('rc'))) for c, r in res.items() if isinstance(r, dict)}, flush=True)
    subprocess.run(['git', '-C', '/repo', 'worktree', 'prune'])
if __name__ == '__main__':
    main()
