#!/usr/bin/env python3
"""Generates /verif/MANIFEST.json from the per-property table below (single source)."""
import json, os
V = os.path.dirname(os.path.dirname(os.path.abspath(__file__)))
props = [json.loads(l) for l in open(os.path.join(V, 'properties.jsonl'))]

TB = "rustc nightly MIR + const-eval; the analyser's MIR/IEEE semantics (engine/expr.py, engine/interp.py); the model table (engine/models.py); reference tables under spec/"

CLAIMED = {
 'C01': dict(cat='proof', tech='abstract interpretation of MIR: constant propagation over the finite configuration space + affine forms with a-priori rounding bounds',
   text='For every configuration (7 matrices x 2 ranges x depth x storage, FMA on/off in the thorough tier) the decode entry point is interpreted on MIR with the samples abstract; the resolved per-pixel kernel is compared with the exact H.273 affine form in rational arithmetic and every rounding is bounded, so one PROVED obligation covers all 2^(3n) code triples of that configuration.',
   ref='3/C01', note='Assumes visible u16 samples <= 2^n-1 (constructor check, decided by C12) and A-geom (dimensions < 2^28). ' + TB),
 'C02': dict(cat='proof', tech='abstract interpretation of MIR: per-plane store summaries, exact integer-wrapper table, affine forms with a-priori rounding bounds',
   text='The encode entry point is interpreted per configuration with the RGB pixel abstract; the integer wrapper around the rounding step is shown to be exactly r -> clamp(r,0,2^n-1) on every reachable r, and sup|v-v*| of the pre-rounding affine form over [-0.5,1.5]^3 is bounded below 1e-6*2^n, which implies the stated |code-clamp(ideal)| <= 0.5+1e-6*2^n for every pixel.',
   ref='3/C02', note='Finite pixel components in [-0.5,1.5] (the property\'s quantifier); A-geom. ' + TB),
 'C07': dict(cat='proof', tech='unsafe-operation inventory from MIR; Positivstellensatz certificates (LP, exactly re-verified) for index obligations; interval/NaN-flag analysis; API-surface rule',
   text='Every unsafe operation reachable from a public conversion (found by interpreting the entry points on MIR, cross-checked against the HIR unsafe blocks) gets a proof obligation: idx < len for each unchecked slice access under only the facts the public constructors establish, with symbolic geometry, stride, padding and every subsampling in 0..=2; validity of each from_raw_parts_mut; finiteness/range of the argument of to_int_unchecked for arbitrary float bits. A discharged obligation is a proof for all geometries (below 2^28) at once; refutations carry a concrete witness.',
   ref='3/C07', note='A-geom (dimensions, strides, lengths < 2^28; usize wrap-around beyond that is outside the stated quantifier). ' + TB),
 'C12': dict(cat='proof', tech='abstract interpretation of MIR with symbolic geometry (exact constructor decision trees) + exhaustive vectorised comparison of the extracted predicate with the documented table',
   text='The constructors are interpreted with all geometry symbolic; the resulting (path condition -> Ok|Err(v)) list is the exact decision function. It is compared with the documented accept/reject table on the whole finite domain of the property (luma 1..12, chroma sizes 0..13, decimations 0..3, subsampling 0..2, sample flags; (len,w,h) in 0..=40), exhaustively; acceptance conjuncts are shown plane-wise independent so the plane-wise sweeps cover the product domain. Verbatim storage and accessors are checked by value identity.',
   ref='3/C12', note='Sweep-domain plane buffers are laid out as v_frame 0.3.9 Plane::new lays them out; the exists-predicate of the Plane::iter/any model ranges over the visible samples. ' + TB),
 'C14': dict(cat='proof', tech='abstract interpretation of MIR over the finite metadata space (pixel data and geometry abstract), exhaustive enumeration of 3276 triples x conversions',
   text='Every conversion entry point is interpreted for every fully specified (matrix, primaries, transfer) triple with pixels and geometry abstract, so the outcome Ok/Err(variant)/panic is exact for that triple; the contract (errors name an offending field, symmetric support, same error for single-stage pairs, standard sets succeed, YUV<->RGB kernels independent of unused metadata by expression identity) is checked on the complete table.',
   ref='3/C14', note='Single-stage same-error clause read at stage level (DESIGN.md C14 note). Panics conditional on pixel data/geometry are decided by C13/C07. ' + TB),
 'C15': dict(cat='proof', tech='abstract interpretation of MIR: symbolic width/height decision trees vs the documented heuristic on the threshold grid; kernel identity between Unspecified and explicitly labelled requests',
   text='Constructors are interpreted with width/height symbolic: the forks give the exact decision tree, compared with the documented mpv heuristic on every cell of the grid of all thresholds (exhaustive since both are piecewise constant). For every conversion into Yuv/Rgb and every subset of Unspecified fields the resolved per-pixel kernel must be the same expression as the kernel obtained by requesting the output label explicitly.',
   ref='3/C15', note=TB),
 'C04': dict(cat='proof', tech='abstract interpretation of MIR with cbrtf as a function summary; exact rational comparison of the extracted opsin rows with libjxl; relative-error and Lipschitz bounds',
   text='The forward XYB kernel extracted from MIR is shown to have the shape X=(L-M)/2, Y=(L+M)/2, B=S with L,M,S = cbrtf(max(0, A_i.rgb + b)) - cbrtf(b); the rows A_i and the bias the code computes (bit-exact constants) are compared with libjxl in rational arithmetic, roundings bounded a priori, and the cube root treated through its 1-ulp contract; the resulting bound covers all of [0,4]^3 and the stated negative-component stratum.',
   ref='3/C04', note='Uses A-cbrt (cbrtf within 1 ulp on normal arguments) - now decided by C18\'s accuracy clause. ' + TB),
 'C05': dict(cat='proof', tech='abstract interpretation of MIR of forward followed by inverse; polynomial identity c^3 = mix; exact rational product INV*A; a-priori rounding bounds',
   text='Forward and inverse are interpreted back to back; the output is a cubic polynomial in the three cube-root atoms whose leading coefficients are the inverse matrix entries; replacing c_i^3 by the exact mix polynomial gives INV*A - I and the bias defect in exact rationals, and all roundings are bounded, giving |back - p| <= bound for every p in [0,1]^3.',
   ref='3/C05', note='Uses A-cbrt (decided by C18). ' + TB),
 'C08': dict(cat='proof', tech='abstract interpretation of MIR of decode followed by encode; exact rational product of the extracted f32 matrices; exact integer-wrapper table; a-priori rounding bounds',
   text='Decode and encode are interpreted back to back per configuration; the pre-rounding value of each output plane is an affine form in the clamped normalised samples with coefficients M_fwd*M_inv*scale computed exactly; |v_p - clampS_p| < 1/2 is shown for every legal triple at once, the wrapper is shown to be exactly clamp(round), and the full-range chroma special case is shown to fire for code 0 only.',
   ref='3/C08', note='4:4:4 as stated. ' + TB),
 'C11': dict(cat='proof', tech='loop store summaries from abstract interpretation of MIR; structural rules on index polynomials, kernel dependence and coverage; write-on-change lemma; effect analysis of the resolved call graph',
   text='For all 14 conversions, both sample types and the subsamplings 0..2 the output kernel is resolved down to loads of the input; the rule proves the index of every load (same pixel / chroma sample of its block through stride and origin only), independence of the kernel from position, dimensions and strides, coverage of every output element, copied dimensions, untouched borrowed sources, subsampling-independent kernels, and purity of the call graph. These shapes imply the statement for every image size and padding.',
   ref='3/C11', note='Loops over iterators the summariser does not recognise make the obligation UNDECIDED (fail closed); see DESIGN.md. ' + TB),
 'C13': dict(cat='proof', tech='taint + interval discharge of every recorded panic condition; integer bounds of stored codes; interval/NaN-flag analysis (binade-wise on helper bodies) for finiteness',
   text='Every possible panic exit met while interpreting the conversions on abstract pixel data is recorded with its condition: pixel-dependent ones are shown impossible, geometry-only ones are discharged from constructor facts or shown unreachable for supported dimensions (else refuted with a witness geometry); stored codes are shown to lie in [0,2^n-1]; finiteness on [0,1]^3 is proved by interval analysis for all pipelines except those through the PQ EOTF (listed as not decided).',
   ref='3/C13', note='Finiteness through the PQ to-linear curve is not decided (interval precision). Geometry preconditions (dimensions multiples of the subsampling, height >= 1) are outside the quantifier. ' + TB),
 'C16': dict(cat='proof', tech='constant propagation of the anchor values through kernels extracted from MIR; affine/error analysis along the grey axis; Lipschitz bound of the cube root',
   text='Anchors are points or the one-parameter grey axis: the extracted kernels are folded at the anchor constants (exact machine arithmetic of the analyser, through the real powf/cbrtf bodies) for all matrices (standard and primaries-derived), ranges, depths, curves and primaries, and bounded along the whole grey axis for YUV, primaries, XYB and HSL.',
   ref='3/C16', note='XYB grey clause uses A-cbrt (decided by C18); log/HLG curve anchors on A-libm. ' + TB),
 'C03': dict(cat='proof', tech='closed-form extraction of each curve from MIR (helpers as function summaries) + interval branch and bound against the standard formula (formula level) + paired interval error propagation (ideal value, computed-minus-ideal) with a certified local error model of the polynomial powf/expf (implementation level); match-table rules for Linear and the aliases',
   text='Each of the 14x2 scalar curves is extracted from MIR as a piecewise closed form with powf/expf as applications. (1) Read with ideal functions it is compared with the standard\'s defining formula over all of [0,1] by interval branch and bound. (2) sup |computed - ideal| over [0,1] is bounded by propagating, through the same expression, the binary32 rounding of every operation, one ulp for each libm call, and the local error of powf/expf derived from their MIR bodies (IEEE field decomposition, exact polynomial coefficients, mean-value interval bounds of G(m)-log2 m and Q(f)/2^f-1 on the sub-box the arguments occupy, a-priori Horner round-off). (1)+(2) < budget is proved for all 26 non-trivial curve directions (PQ to_gamma: 5.66e-4 < 5.7e-4), i.e. for every real - hence every f32 - x in [0,1]. Linear is the identity expression; the BT.1886 aliases have the identical kernel.',
   ref='8.8', note='A-libm: f32 ln/log10 of the target libm within 1 ulp, sqrt correctly rounded. Default build (fastmath, no FMA); FMA and libm builds: C20. xvYCC on [0,1] read as the BT.1886 pair. ' + TB),

 'C06': dict(cat='proof', tech='constant propagation of the primaries transform through MIR (bit-exact f32 matrix) + exact rational comparison with the CIE/Bradford derivation; a-priori rounding bound',
   text='For the 11 supported primaries and both directions the 3x3 transform the code builds is obtained by constant propagation (exact binary32 semantics), read off the linear per-pixel kernel and compared in rational arithmetic with M_out^-1*Bradford*M_in from the H.273 chromaticities; white->white, there-and-back and the bit-exact pass-through for identical primaries are decided on the same data.',
   ref='3/C06', note=TB),
 'C10': dict(cat='proof', tech='closed-form extraction of both curve directions from MIR, symbolic composition, interval branch and bound of |G(F(x))-x| (formula level) + paired interval error propagation with the certified local powf/expf error model through the composition (implementation level)',
   text='to_gamma(to_linear(x)) is composed symbolically from the two extracted kernels. (1) With ideal powf/expf it is the identity on all of [0,1] (interval branch and bound): the two dispatch tables select mutually inverse formulas with matching constants. (2) The implementation error of the composition (rounding, libm, certified powf/expf error, with the correlation of the two directions kept by propagating signed error intervals on small boxes) is bounded; (1)+(2) < 2.5e-4 is proved for the 12 non-PQ curves.',
   ref='8.8', note='NOT decided: the PQ round trip at implementation level (bound 7.4e-4 quick / 5.8e-4 thorough vs 5.7e-4: the a-priori round-off of the log2 polynomial is multiplied by |y| = 78.84 twice); PQ is decided at formula level only. A-libm. ' + TB),

 'C18': dict(cat='proof', tech='interval + NaN-flag analysis of the helper bodies with unconstrained arguments (totality); sign-parity dataflow (oddness); piecewise interval analysis (expf saturation); certified approximation error: IEEE-field decomposition of the MIR bodies, exact polynomial coefficients, mean-value interval branch and bound against log2/exp2, period-3 analysis of the cbrt bit trick, rational error map of the iteration (sympy), a-priori round-off',
   text='Totality of powf/expf/cbrtf/multiply_add for every f32 bit pattern in all build configurations; oddness of cbrtf; expf saturation. Accuracy: powf body = exp2(log2-by-fields(x)*y): sup|P(m)(m-1)-log2 m| on [1,2) and sup|Q(f)/2^f-1| on [-0.5,1.5] (the range trunc(X-0.5) really leaves) are bounded by interval branch and bound in mean-value form, Horner round-off by interval running-error analysis; the resulting relative error bound is convex in |y| and below 2.5e-4+8e-6|y| at |y|=0 and 80. expf: same Q on [0,1] plus the error of the log2(e) constant, bound 7.2e-6 < 1e-5 on [-85,85]. cbrtf: the bits/3+B1 guess is within 3.21% of cbrt (exact piecewise-linear analysis over one period of 3 binades), the two Halley steps map relative error e to H(e)=O(e^9) (rational identity), f64 round-off is cancellation-free: the f64 iterate is within 2^-26 relative, so its rounding to f32 is within 1 ulp for every normal argument.',
   ref='8.8', note='Host float64 interval arithmetic with outward rounding; host libm log/exp within 1 ulp as reference. In the libm build (K3) the helpers ARE the libm calls (A-libm). ' + TB),

 'C19': dict(cat='proof', tech='abstract interpretation of MIR with symbolic entries; exact polynomial identity with the textbook definition + a-priori rounding bound; rational-function identity and divisor analysis for invert (sympy)',
   text='Every public method of Matrix/RowVector/ColVector (f32, f64; FMA and non-FMA builds) is interpreted with symbolic entries in [-2,2]; each result polynomial must be identical to the textbook one and the rounding bound below 1e-5; invert is shown to be the rational inverse on both sides with every executed division\'s divisor vanishing only where det does.',
   ref='3/C19', note='NOT decided: A*invert(A) within 1e-4 under rounding for |det| >= 0.5 (first-order bound does not close). ' + TB),
 'C20': dict(cat='proof', tech='cargo feature resolution (manifest analysis) + cfg reachability and sibling-expression identity on the MIR of the build configurations + the C03 curve-budget analysis (formula level + certified implementation error) repeated with the FMA and the libm build\'s kernels and helper bodies',
   text='Feature wiring (fastmath on by default, off with --no-default-features) from cargo\'s own resolution; in the fastmath-off build powf/expf/cbrtf are exactly the libm calls on their arguments; fused and unfused arms of every FMA switch denote a*b+c; the conversion kernels outside the helpers are identical expressions in both builds; C01/C02/C08 budgets re-established in the FMA build; every transfer curve within its C03 budget in the FMA build and within 5e-5 in the libm build (25 of 26 directions); the fastmath and libm builds agree within the fastmath budget on [0,1] for 25 of 26 curve directions (|fast-ideal|+|libm-ideal| with identical ideal kernels).',
   ref='8.8', note='NOT decided: PQ to_linear in the libm build (5e-5) and its agreement clause - under A-libm (one full ulp) the cancellation C2-C3*x^(1/m2) near x=1 gives 4.6e-5 before the inverse OOTF; agreement of the builds for the XYB/HSL conversions beyond C18\'s cbrtf clause. ' + TB),

 'C17': dict(cat='proof', tech='per-cell branch resolution of the kernels extracted from MIR (exact rational evaluation at a generic point) + rational-function identities (sympy) + linear inequalities at simplex vertices; exact folding',
   text='Partial claim (formula level): on each of the 6 strict orderings of (r,g,b) x {L<1/2, L>1/2} the branch structure of both kernels is constant; the rational functions the code computes there are shown identical to the hexcone definition (H, S, L), the composition hsl_to_lrgb(lrgb_to_hsl(p)) identical to p, and H in [0,360) by linear inequalities at the simplex vertices; L=0 -> black and L=1 -> white for every finite hue/saturation by exact folding.',
   ref='3/C17', note='NOT decided: the rounding tolerances (1e-6, 1e-4, 0.01 deg, 1e-5), S <= 1 under rounding, the epsilon-slivers around ties/black/white. ' + TB),
 'C09': dict(cat='proof', tech='kernel-expression identity between the long conversions and compositions of the short public conversions (MIR abstract interpretation, helpers as function summaries); imported stage identities; data-flow identity of dimensions and config',
   text='Partial claim (structure): Yuv->Xyb and Xyb->Yuv are shown to be exactly the mirrored compositions of the short public conversions with the configuration\'s own matrix, transfer and primaries (identity of the extracted per-pixel kernel expressions), width/height/config are data-flow copies, and in-gamut colours of every physical primaries set are shown never to hit the clamp in front of the cube root; with the separately decided stage identities C08, C10, C06, C05 and the block structure of C11 this is the round trip at formula level.',
   ref='3/C09', note='NOT decided: the numeric budget max(1, 0.015*(2^n-1)) codes (approximation accuracy of powf/cbrtf amplified through the curves). ' + TB),
}
NA_REASON = {}

def main():
    checks = []
    for p in props:
        pid = p['id']
        if pid in CLAIMED:
            c = CLAIMED[pid]
            checks.append(dict(property_id=pid,
                quick_cmd=f"python3-vt verif.py check {pid} --tier quick",
                thorough_cmd=f"python3-vt verif.py check {pid} --tier thorough",
                evidence_file=f"evidence/{pid}.json",
                replay_cmd_template="python3-vt verif.py replay {path}",
                engine='mirfacts+engine',
                level_claimed=dict(category=c['cat'], text=c['text'], design_ref=c['ref']),
                level_note=c['note'], technique=c['tech']))
    na = [dict(property_id=p['id'], reason=NA_REASON.get(p['id'], 'check under construction (DESIGN.md section 7 build order); no verdict claimed yet'))
          for p in props if p['id'] not in CLAIMED]
    m = dict(version=1,
        setup_cmd="cd /verif/driver && CARGO_NET_OFFLINE=true cargo +nightly build --release --offline",
        hooks=dict(guard="yuvxyb_verif_unused", enable="none needed: the analysis reads rustc MIR of the unmodified sources through a RUSTC_WRAPPER driver",
                   baseline_off_cmd="cd /repo && cargo test --workspace --no-fail-fast --offline", source_commits=[], add_only=True),
        engines=[dict(name='mirfacts', path='driver/', serves_properties=sorted(CLAIMED), kind_free_text='rustc_private driver dumping monomorphic MIR of /repo\'s working tree as JSON facts'),
                 dict(name='engine', path='engine/', serves_properties=sorted(CLAIMED), kind_free_text='Python abstract interpreter over the MIR facts (loop summaries, affine/interval domains), rule modules under checks/')],
        checks=checks,
        notes="Static analysis only (DESIGN.md). Every check regenerates the MIR facts from /repo's current working tree (content-hashed cache under .cache/).",
        not_applicable=na)
    json.dump(m, open(os.path.join(V, 'MANIFEST.json'), 'w'), indent=1)
    print('claimed', sorted(CLAIMED), 'not applicable', len(na))
if __name__ == '__main__':
    main()
