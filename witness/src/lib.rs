//! E3 - compile-fail witnesses for the type-level half of C07 / C12 (DESIGN.md 2.4):
//! an image can only be obtained through its validating constructor or a conversion, and
//! its geometry cannot be changed afterwards.  Every witness has a compiling twin that
//! differs only in the offending line, so that a witness which fails for the wrong
//! reason (a wrong path, a renamed type) is noticed.  Run with
//! `cargo +nightly test --doc --offline` (error codes are only checked on nightly).

/// W1: `Yuv`'s fields are private - no struct literal from outside the crate.
/// ```compile_fail,E0451
/// use yuvxyb::*;
/// let frame: Frame<u8> = Frame { planes: [Plane::new(2, 2, 0, 0, 0, 0), Plane::new(2, 2, 0, 0, 0, 0), Plane::new(2, 2, 0, 0, 0, 0)] };
/// let config = YuvConfig { bit_depth: 8, subsampling_x: 0, subsampling_y: 0, full_range: false,
///     matrix_coefficients: MatrixCoefficients::BT709, transfer_characteristics: TransferCharacteristic::BT1886, color_primaries: ColorPrimaries::BT709 };
/// let _yuv = Yuv { data: frame, config };
/// ```
/// twin:
/// ```
/// use yuvxyb::*;
/// let frame: Frame<u8> = Frame { planes: [Plane::new(2, 2, 0, 0, 0, 0), Plane::new(2, 2, 0, 0, 0, 0), Plane::new(2, 2, 0, 0, 0, 0)] };
/// let config = YuvConfig { bit_depth: 8, subsampling_x: 0, subsampling_y: 0, full_range: false,
///     matrix_coefficients: MatrixCoefficients::BT709, transfer_characteristics: TransferCharacteristic::BT1886, color_primaries: ColorPrimaries::BT709 };
/// let _yuv = Yuv::new(frame, config).unwrap();
/// ```
pub struct W1;

/// W2: a `Yuv` hands out its planes only by shared reference.
/// ```compile_fail,E0599
/// use yuvxyb::*;
/// fn f(mut yuv: Yuv<u8>) { let _ = yuv.data_mut(); }
/// ```
/// twin:
/// ```
/// use yuvxyb::*;
/// fn f(yuv: Yuv<u8>) { let _ = yuv.data(); }
/// ```
pub struct W2;

/// W3: no struct literals for the float images either.
/// ```compile_fail,E0451
/// use yuvxyb::*;
/// let _ = LinearRgb { data: vec![[0.0f32; 3]; 4], width: 100, height: 100 };
/// ```
/// ```compile_fail,E0451
/// use yuvxyb::*;
/// let _ = Xyb { data: vec![[0.0f32; 3]; 4], width: 100, height: 100 };
/// ```
/// ```compile_fail,E0451
/// use yuvxyb::*;
/// let _ = Hsl { data: vec![[0.0f32; 3]; 4], width: 100, height: 100 };
/// ```
/// ```compile_fail,E0451
/// use yuvxyb::*;
/// let _ = Rgb { data: vec![[0.0f32; 3]; 4], width: 100, height: 100, transfer: TransferCharacteristic::SRGB, primaries: ColorPrimaries::BT709 };
/// ```
/// twin:
/// ```
/// use yuvxyb::*;
/// let _ = LinearRgb::new(vec![[0.0f32; 3]; 4], 2, 2).unwrap();
/// let _ = Xyb::new(vec![[0.0f32; 3]; 4], 2, 2).unwrap();
/// let _ = Hsl::new(vec![[0.0f32; 3]; 4], 2, 2).unwrap();
/// let _ = Rgb::new(vec![[0.0f32; 3]; 4], 2, 2, TransferCharacteristic::SRGB, ColorPrimaries::BT709).unwrap();
/// ```
pub struct W3;

/// W4: `data_mut` hands out a slice - the length invariant `len == width*height` cannot be broken.
/// ```compile_fail,E0599
/// use yuvxyb::*;
/// let mut img = LinearRgb::new(vec![[0.0f32; 3]; 4], 2, 2).unwrap();
/// img.data_mut().push([0.0; 3]);
/// ```
/// twin:
/// ```
/// use yuvxyb::*;
/// let mut img = LinearRgb::new(vec![[0.0f32; 3]; 4], 2, 2).unwrap();
/// img.data_mut()[0] = [1.0; 3];
/// ```
pub struct W4;
