"""Outward-rounded float interval arithmetic and evaluation of expression DAGs in it.
Used by the formula-level checks (C03, C10, C17): helper applications (powf/expf/cbrtf) are
evaluated as the *ideal* functions (assumptions A-elem / A-cbrt); every operation widens
its result by a few ulps so that the enclosure also covers the host libm's error
(assumed < 1 ulp) and the rounding of the analysed binary32 operation is NOT modelled -
this is the formula level, the real-valued meaning of the expression."""
from __future__ import annotations
import math
from . import expr as X
from .values import Unsupported

INF = math.inf
def dn(x):
    return x if x != x or abs(x) == INF else math.nextafter(math.nextafter(x, -INF), -INF)
def up(x):
    return x if x != x or abs(x) == INF else math.nextafter(math.nextafter(x, INF), INF)

def _exact_sum(x, y):
    """(s, exact?) - Knuth's TwoSum error term decides whether the binary64 sum is exact"""
    s = x + y
    if s != s or abs(s) == INF:
        return s, False
    bb = s - x
    err = (x - (s - bb)) + (y - bb)
    return s, err == 0.0

def _sum_dn(x, y):
    s, ex = _exact_sum(x, y)
    return s if ex else dn(s)

def _sum_up(x, y):
    s, ex = _exact_sum(x, y)
    return s if ex else up(s)

class I:
    __slots__ = ('lo', 'hi')
    def __init__(self, lo, hi=None):
        self.lo = lo; self.hi = lo if hi is None else hi
    def __repr__(self): return f"[{self.lo!r}, {self.hi!r}]"
    @property
    def width(self): return self.hi - self.lo
    @property
    def mag(self): return max(abs(self.lo), abs(self.hi))
    def __add__(a, b): return I(_sum_dn(a.lo, b.lo), _sum_up(a.hi, b.hi))
    def __sub__(a, b): return I(_sum_dn(a.lo, -b.hi), _sum_up(a.hi, -b.lo))
    def __neg__(a): return I(-a.hi, -a.lo)
    def __mul__(a, b):
        lo = INF; hi = -INF
        for x in (a.lo, a.hi):
            for y in (b.lo, b.hi):
                p = x * y
                if p != p: p = 0.0
                if x == 0.0 or y == 0.0:
                    l = h = 0.0                 # a zero factor: the product is exactly zero (no outward step)
                else:
                    l, h = dn(p), up(p)
                if l < lo: lo = l
                if h > hi: hi = h
        return I(lo, hi)
    def __truediv__(a, b):
        if b.lo <= 0 <= b.hi:
            raise ZeroDivisionError('interval division by zero')
        if b.lo == b.hi and math.frexp(b.lo)[0] == 0.5 and abs(a.lo) < 1e300 and abs(a.hi) < 1e300 and (a.lo == 0 or abs(a.lo) > 1e-290) and (a.hi == 0 or abs(a.hi) > 1e-290):
            return I(a.lo / b.lo, a.hi / b.lo)          # division by a power of two is exact
        ps = [a.lo / b.lo, a.lo / b.hi, a.hi / b.lo, a.hi / b.hi]
        lo, hi = dn(min(ps)), up(max(ps))
        if a.lo == 0.0 and min(ps) == 0.0: lo = 0.0       # 0 / x is exactly zero
        if a.hi == 0.0 and max(ps) == 0.0: hi = 0.0
        return I(lo, hi)
    def hull(a, b): return I(min(a.lo, b.lo), max(a.hi, b.hi))
    def abs(a):
        if a.lo >= 0: return a
        if a.hi <= 0: return -a
        return I(0.0, max(-a.lo, a.hi))

def mono(f, a, wide=8):
    lo, hi = f(a.lo), f(a.hi)
    # f(0) = 0 exactly for the functions used here that vanish at 0 (pow with positive exponent, sqrt, cbrt): no outward step
    if not (lo == 0.0 and a.lo == 0.0):
        for _ in range(wide): lo = math.nextafter(lo, -INF)
    if not (hi == 0.0 and a.hi == 0.0):
        for _ in range(wide): hi = math.nextafter(hi, INF)
    return I(lo, hi)

def i_pow(a, y):
    """a^y for a >= 0 and constant y"""
    if a.lo < 0:
        a = I(max(a.lo, 0.0), max(a.hi, 0.0))
    f = (lambda v: 0.0 if v == 0 and y > 0 else (INF if v == 0 else v ** y))
    r = mono(f, a) if y >= 0 else mono(f, I(a.hi, a.lo)).hull(mono(f, I(a.hi, a.lo)))
    if y < 0:
        lo, hi = f(a.hi), f(a.lo)
        r = I(dn(lo), up(hi))
    return I(max(r.lo, 0.0), r.hi)
def i_exp(a): return mono(lambda v: math.exp(v) if v < 700 else INF, a)
def i_ln(a):
    if a.hi <= 0: raise ValueError('ln of non-positive interval')
    return mono(lambda v: math.log(v) if v > 0 else -INF, I(max(a.lo, 0.0), a.hi))
def i_log10(a):
    if a.hi <= 0: raise ValueError('log10 of non-positive interval')
    return mono(lambda v: math.log10(v) if v > 0 else -INF, I(max(a.lo, 0.0), a.hi))
def i_sqrt(a): return mono(lambda v: math.sqrt(max(v, 0.0)), I(max(a.lo, 0.0), max(a.hi, 0.0)))
def i_cbrt(a): return mono(lambda v: math.copysign(abs(v) ** (1.0 / 3.0), v), a)

def decide(op, a, b):
    """three-valued comparison of intervals"""
    if op == 'lt': return True if a.hi < b.lo else (False if a.lo >= b.hi else None)
    if op == 'le': return True if a.hi <= b.lo else (False if a.lo > b.hi else None)
    if op == 'gt': return True if a.lo > b.hi else (False if a.hi <= b.lo else None)
    if op == 'ge': return True if a.lo >= b.hi else (False if a.hi < b.lo else None)
    return None

def refine_env(c, env):
    """(env for the then-branch, env for the else-branch) when c compares an atom of env with a constant;
    None when not applicable, a branch env is None when infeasible.  Closed boxes: the boundary point is in both."""
    if c.op not in ('lt', 'le', 'gt', 'ge'):
        return None
    a, b = c.args
    op = c.op
    if a.is_const and not b.is_const:
        a, b = b, a
        op = {'lt': 'gt', 'le': 'ge', 'gt': 'lt', 'ge': 'le'}[op]
    if not b.is_const or a.id not in env or not isinstance(env[a.id], I):
        return None
    k = float(b.val)
    B = env[a.id]
    below = I(B.lo, min(B.hi, k)) if B.lo <= k else None
    above = I(max(B.lo, k), B.hi) if B.hi >= k else None
    mk = lambda P: None if P is None else {**env, a.id: P}
    return (mk(below), mk(above)) if op in ('lt', 'le') else (mk(above), mk(below))

def evaluate(e, env):
    """interval value of expression e; env: atom id -> I.  Conditions that are not decided
    on the box evaluate both branches and return their hull."""
    cache = {}
    def cond(c):
        if c.is_const: return bool(c.val)
        if c.op == 'bnot':
            r = cond(c.args[0]); return None if r is None else (not r)
        if c.op == 'band':
            a, b = cond(c.args[0]), cond(c.args[1])
            if a is False or b is False: return False
            return True if (a and b) else None
        if c.op == 'bor':
            a, b = cond(c.args[0]), cond(c.args[1])
            if a is True or b is True: return True
            return False if (a is False and b is False) else None
        if c.op in ('lt', 'le', 'gt', 'ge'):
            return decide(c.op, rec(c.args[0]), rec(c.args[1]))
        return None
    def rec(n):
        r = cache.get(n.id)
        if r is not None: return r
        op = n.op
        if n.id in env: r = env[n.id]
        elif op == 'const':
            v = float(n.val); r = I(v, v)
        elif op == 'fadd': r = rec(n.args[0]) + rec(n.args[1])
        elif op == 'fsub': r = rec(n.args[0]) - rec(n.args[1])
        elif op == 'fmul': r = rec(n.args[0]) * rec(n.args[1])
        elif op == 'fdiv': r = rec(n.args[0]) / rec(n.args[1])
        elif op == 'fneg': r = -rec(n.args[0])
        elif op == 'fma': r = rec(n.args[0]) * rec(n.args[1]) + rec(n.args[2])
        elif op == 'frem':
            a, b = rec(n.args[0]), rec(n.args[1])
            if b.lo == b.hi and b.lo > 0 and a.lo >= 0:
                k0, k1 = math.floor(a.lo / b.lo), math.floor(a.hi / b.lo)
                if k0 == k1: r = a - I(k0 * b.lo, k0 * b.lo)
                else: r = I(0.0, b.lo)
            else:
                raise Unsupported('interval remainder')
        elif op == 'select':
            c = cond(n.args[0])
            if c is True: r = rec(n.args[1])
            elif c is False: r = rec(n.args[2])
            else:
                ref = refine_env(n.args[0], env)
                if ref is not None:
                    parts = [evaluate(br, ev) for ev, br in ((ref[0], n.args[1]), (ref[1], n.args[2])) if ev is not None]
                    r = parts[0]
                    for q in parts[1:]: r = r.hull(q)
                else:
                    r = rec(n.args[1]).hull(rec(n.args[2]))
        elif op == 'call:abs': r = rec(n.args[0]).abs()
        elif op == 'call:max':
            a, b = rec(n.args[0]), rec(n.args[1]); r = I(max(a.lo, b.lo), max(a.hi, b.hi))
        elif op == 'call:min':
            a, b = rec(n.args[0]), rec(n.args[1]); r = I(min(a.lo, b.lo), min(a.hi, b.hi))
        elif op == 'call:clamp':
            a, lo_, hi_ = rec(n.args[0]), rec(n.args[1]), rec(n.args[2])
            r = I(min(max(a.lo, lo_.lo), hi_.lo), min(max(a.hi, lo_.hi), hi_.hi))
        elif op == 'call:sqrt': r = i_sqrt(rec(n.args[0]))
        elif op == 'call:copysign':
            a, b = rec(n.args[0]), rec(n.args[1])
            m = a.abs()
            r = m if b.lo >= 0 else (-m if b.hi <= 0 else m.hull(-m))
        elif op == 'call:libm_ln': r = i_ln(rec(n.args[0]))
        elif op == 'call:libm_log10': r = i_log10(rec(n.args[0]))
        elif op == 'call:libm_exp': r = i_exp(rec(n.args[0]))
        elif op == 'call:libm_cbrt': r = i_cbrt(rec(n.args[0]))
        elif op == 'call:libm_powf' or (op == 'app' and n.args[0].split('::')[-1] == 'powf'):
            args = n.args[1:] if op == 'app' else n.args
            y = rec(args[1])
            b = rec(args[0])
            if y.lo == y.hi:
                r = i_pow(b, y.lo)
            elif b.lo == b.hi and b.lo > 0:
                r = i_exp(y * I(dn(math.log(b.lo)), up(math.log(b.lo))))      # constant base
            else:
                raise Unsupported('pow with interval base and exponent')
        elif op == 'app':
            name = n.args[0].split('::')[-1]
            a = rec(n.args[1])
            if name == 'expf': r = i_exp(a)
            elif name == 'cbrtf': r = i_cbrt(a)
            else: raise Unsupported(f"ideal function for {name}")
        elif op == 'cast' and X.is_float(n.ty):
            r = rec(n.args[0])
        else:
            raise Unsupported(f"interval evaluation of {op}")
        cache[n.id] = r
        return r
    return rec(e)

def sup_abs_diff(f, g, lo, hi, target, max_boxes=400000, min_width=1e-13):
    """Branch and bound on [lo,hi]: upper and lower bound of sup |f(x) - g(x)|, f,g interval
    functions of an interval.  Stops when the upper bound <= target, when a definite lower
    bound exceeds `target` by a factor, or when the box budget is exhausted."""
    import heapq
    def bound(a, b):
        X_ = I(a, b)
        try:
            d = (f(X_) - g(X_)).abs()
            return d.hi
        except (ZeroDivisionError, ValueError, OverflowError):
            return INF
    def point(x):
        P = I(x, x)
        try:
            return (f(P) - g(P)).abs().lo
        except (ZeroDivisionError, ValueError, OverflowError):
            return 0.0
    heap = [(-bound(lo, hi), lo, hi)]
    lower = max(point(lo), point(hi), point((lo + hi) / 2))
    arg = None
    n = 0
    done_upper = 0.0
    while heap and n < max_boxes:
        nb, a, b = heapq.heappop(heap)
        ub = -nb
        if ub <= target:
            done_upper = max(done_upper, ub)
            # every remaining box has a smaller bound
            rest = max([-x[0] for x in heap], default=0.0)
            return max(done_upper, rest), lower, arg, n
        n += 1
        m = (a + b) / 2
        if b - a < min_width:
            done_upper = max(done_upper, ub)
            continue
        pm = point(m)
        if pm > lower: lower, arg = pm, m
        for (c, d) in ((a, m), (m, b)):
            heapq.heappush(heap, (-bound(c, d), c, d))
    upper = max([done_upper] + [-x[0] for x in heap])
    return upper, lower, arg, n

def evaluate_d(e, x, box):
    """(value interval, derivative interval d/dx) of the real-valued meaning of e over x in box (forward-mode
    interval differentiation; helper applications are the ideal functions).  Piecewise expressions give the hull
    of the derivatives of the pieces that can be active - together with continuity at the junctions (checked by
    the caller) this bounds the Lipschitz constant on the box."""
    cache = {}
    ZERO_ = I(0.0, 0.0); ONE_ = I(1.0, 1.0)
    def cond(c):
        if c.is_const: return bool(c.val)
        if c.op == 'bnot':
            r = cond(c.args[0]); return None if r is None else (not r)
        if c.op == 'band':
            a, b = cond(c.args[0]), cond(c.args[1])
            if a is False or b is False: return False
            return True if (a and b) else None
        if c.op == 'bor':
            a, b = cond(c.args[0]), cond(c.args[1])
            if a is True or b is True: return True
            return False if (a is False and b is False) else None
        if c.op in ('lt', 'le', 'gt', 'ge'):
            return decide(c.op, rec(c.args[0])[0], rec(c.args[1])[0])
        return None
    def rec(n):
        r = cache.get(n.id)
        if r is not None: return r
        op = n.op
        if n is x: r = (box, ONE_)
        elif op == 'const':
            v = float(n.val); r = (I(v, v), ZERO_)
        elif op in ('fadd', 'fsub'):
            (a, da), (b, db) = rec(n.args[0]), rec(n.args[1])
            r = (a + b, da + db) if op == 'fadd' else (a - b, da - db)
        elif op == 'fmul':
            (a, da), (b, db) = rec(n.args[0]), rec(n.args[1])
            r = (a * b, a * db + b * da)
        elif op == 'fma':
            (a, da), (b, db), (c, dc) = rec(n.args[0]), rec(n.args[1]), rec(n.args[2])
            r = (a * b + c, a * db + b * da + dc)
        elif op == 'fdiv':
            (a, da), (b, db) = rec(n.args[0]), rec(n.args[1])
            q = a / b
            r = (q, (da - q * db) / b)
        elif op == 'fneg':
            a, da = rec(n.args[0]); r = (-a, -da)
        elif op == 'cast' and X.is_float(n.ty):
            r = rec(n.args[0])
        elif op == 'select':
            c = cond(n.args[0])
            if c is True: r = rec(n.args[1])
            elif c is False: r = rec(n.args[2])
            else:
                ref = refine_env(n.args[0], {x.id: box})
                if ref is not None:
                    parts = [evaluate_d(br, x, ev[x.id]) for ev, br in ((ref[0], n.args[1]), (ref[1], n.args[2])) if ev is not None]
                    r = parts[0]
                    for q in parts[1:]: r = (r[0].hull(q[0]), r[1].hull(q[1]))
                else:
                    (a, da), (b, db) = rec(n.args[1]), rec(n.args[2])
                    r = (a.hull(b), da.hull(db))
        elif op in ('call:max', 'call:min'):
            (a, da), (b, db) = rec(n.args[0]), rec(n.args[1])
            f = max if op == 'call:max' else min
            r = (I(f(a.lo, b.lo), f(a.hi, b.hi)), da.hull(db))
        elif op == 'call:clamp':
            (a, da), (lo_, dlo), (hi_, dhi) = rec(n.args[0]), rec(n.args[1]), rec(n.args[2])
            r = (I(min(max(a.lo, lo_.lo), hi_.lo), min(max(a.hi, lo_.hi), hi_.hi)), da.hull(dlo).hull(dhi))
        elif op == 'call:sqrt':
            a, da = rec(n.args[0]); s = i_sqrt(a)
            if s.lo <= 0: r = (s, I(-INF, INF))
            else: r = (s, da / (s + s))
        elif op == 'call:libm_ln':
            a, da = rec(n.args[0]); r = (i_ln(a), da / a)
        elif op == 'call:libm_log10':
            a, da = rec(n.args[0]); r = (i_log10(a), da / (a * I(dn(math.log(10.0)), up(math.log(10.0)))))
        elif op == 'call:libm_exp' or (op == 'app' and n.args[0].split('::')[-1] == 'expf'):
            a, da = rec(n.args[1] if op == 'app' else n.args[0]); v = i_exp(a); r = (v, v * da)
        elif op == 'call:libm_powf' or (op == 'app' and n.args[0].split('::')[-1] == 'powf'):
            args = n.args[1:] if op == 'app' else n.args
            (b, db), (y, dy) = rec(args[0]), rec(args[1])
            if y.lo == y.hi:
                yy = y.lo
                v = i_pow(b, yy)
                if b.lo <= 0 and yy < 1:
                    r = (v, I(-INF, INF) if (db.lo != 0 or db.hi != 0) else ZERO_)
                else:
                    r = (v, I(yy, yy) * i_pow(b, yy - 1) * db)
            elif b.lo == b.hi and b.lo > 0:
                lnb = I(dn(math.log(b.lo)), up(math.log(b.lo)))
                v = i_exp(y * lnb); r = (v, v * lnb * dy)
            else:
                raise Unsupported('derivative of pow with interval base and exponent')
        elif op == 'call:abs':
            a, da = rec(n.args[0])
            r = (a.abs(), da if a.lo >= 0 else (-da if a.hi <= 0 else da.hull(-da)))
        elif op == 'call:copysign':
            (a, da), (b, db) = rec(n.args[0]), rec(n.args[1])
            m = a.abs(); dm = da if a.lo >= 0 else (-da if a.hi <= 0 else da.hull(-da))
            r = (m, dm) if b.lo >= 0 else ((-m, -dm) if b.hi <= 0 else (m.hull(-m), dm.hull(-dm)))
        else:
            raise Unsupported(f"interval derivative of {op}")
        cache[n.id] = r
        return r
    return rec(e)
