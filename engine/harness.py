"""Shared harness: load facts, build inputs, run public entry points, extract kernels."""
from __future__ import annotations
import json, os
from fractions import Fraction as Fr
from . import expr as X
from .expr import E
from .values import *
from . import facts
from .interp import Interp, State, Recorder
from .models import Models
from .build import *
from .resolve import Resolver, register_range

SPEC = os.path.join(os.path.dirname(os.path.dirname(os.path.abspath(__file__))), 'spec')

def spec(name):
    with open(os.path.join(SPEC, name + '.json')) as fh:
        return json.load(fh)

def frac(s):
    return Fr(s)

class Ctx:
    """One build configuration of one crate, with convenience constructors."""
    def __init__(self, cfg='K1', crate='yuvxyb'):
        self.cfg = cfg
        self.crate = facts.load(cfg, crate)
        c = self.crate
        if crate == 'yuvxyb':
            self.MC = find_type(c, 'av_data::pixel::MatrixCoefficients')
            self.TC = find_type(c, 'av_data::pixel::TransferCharacteristic')
            self.CP = find_type(c, 'av_data::pixel::ColorPrimaries')
            self.YC = find_type(c, 'yuv::YuvConfig')

    def interp(self):
        return Interp(self.crate, Models, Recorder())

    def yuv_config(self, m='BT709', t='BT1886', p='BT709', bd=8, full=False, ssx=0, ssy=0):
        c = self.crate
        return mk_struct(c, self.YC, bit_depth=X.const(X.U8, bd), subsampling_x=X.const(X.U8, ssx),
                         subsampling_y=X.const(X.U8, ssy), full_range=X.cbool(full),
                         matrix_coefficients=mk_enum(c, self.MC, m),
                         transfer_characteristics=mk_enum(c, self.TC, t), color_primaries=mk_enum(c, self.CP, p))

    def variants(self, tid):
        return enum_variants(self.crate, tid)

    def entry(self, *needles):
        """Unique function key containing all needles (entry points are found by type, not by file/line)."""
        ks = [k for k in self.crate.fns if all(n in k for n in needles)]
        exact = [k for k in ks if k in needles]
        if len(exact) == 1:
            return exact[0]
        if len(ks) != 1:
            raise KeyError(f"entry {needles}: {len(ks)} candidates {ks[:4]}")
        return ks[0]

    def sym_yuv(self, it, st, T, cfg, name='yuv'):
        tid = find_type(self.crate, f'yuv::Yuv<{T}>')
        y = symbolic(it, st, tid, name, overrides={f'{name}.config': cfg})
        return Ptr(st.alloc(y), ()), y

    def sym_pixels(self, it, st, name, w=None, h=None):
        """Caller-supplied Vec<[f32;3]> of length w*h."""
        tid = find_type(self.crate, 'std::vec::Vec<[f32; 3]>')
        w = w or X.sym(X.USIZE, name + '.width', 0, GEOM_MAX)
        h = h or X.sym(X.USIZE, name + '.height', 0, GEOM_MAX)
        n = X.binop('mul', w, h, wrap=False)
        elem = find_type(self.crate, '[f32; 3]')
        o = st.alloc(Buf(elem, n, None, name))
        return Opaque('vec', buf=o), w, h

def vec_buf(st, v):
    """Buf and object id of a Vec value."""
    if isinstance(v, Opaque) and v.kind == 'vec':
        return v.f['buf'], st.heap[v.f['buf']]
    raise Unsupported(f"not a Vec: {v!r}")

def element_kernel(it, st, obj, name='out'):
    """Resolved value of a generic element k in [0, len) of buffer `obj` in final state."""
    buf = st.heap[obj]
    k = X.fresh(X.USIZE, name, 0, None)
    register_range(k, X.const(X.USIZE, 0), buf.len)
    R = Resolver(it, st)
    v0 = it.mk_load(obj, len(buf.stores), k, 0, (), buf.elem_tid, buf)
    return k, R.resolve(v0), R

def is_ok(crate, v):
    return isinstance(v, EnumV) and crate.types[v.tid]['variants'][v.variant]['name'] == 'Ok'

def err_name(crate, v):
    """Name of the error variant carried by an Err(...) value."""
    e = v.fields[0]
    return crate.types[e.tid]['variants'][e.variant]['name']
