"""Certified approximation error of the polynomial helpers (a small verified-numerics
tool for exactly the two degree-5 polynomials and the Newton iteration of this crate).

The helper bodies (function summaries extracted from MIR) are decomposed at their IEEE-754
field extraction:  x = m * 2^e, m in [1,2)  (mantissa / unbiased exponent masks) and
X = I + f  (truncation) - these are the only bit-level steps.  What remains are two
polynomials evaluated in Horner form, whose exact rational coefficients are read off the
affine/polynomial domain.  Their distance to log2 / 2^f in *real* arithmetic is bounded by
interval branch and bound in mean-value form (f(X) in f(c) + f'(X)(X - c)), their
floating-point evaluation error a priori.  Everything is a sound upper bound; nothing is
sampled."""
from __future__ import annotations
from fractions import Fraction as Fr
import heapq, math
from . import expr as X
from .ival import I, i_ln, i_exp, dn, up
from .fbound import Analyzer, Poly
from .values import Unsupported

LN2 = I(dn(math.log(2.0)), up(math.log(2.0)))

def strip_int(e):
    while e.op in ('icast', 'wrap') or (e.op == 'cast' and X.is_int(e.ty) and X.is_int(e.args[0].ty)):
        e = e.args[0]
    return e

def find_fields(body, x):
    """IEEE-754 binary32 field extraction nodes of argument x:
       mant = from_bits((bits & 0x007FFFFF) | 0x3F800000)   (value m in [1,2), x = m*2^e for normal x>0)
       expo = (((bits & 0x7F800000) >> 23) - 127) as f32"""
    mant = expo = None
    for n in X.walk(body):
        if n.op == 'cast:bits' and X.is_float(n.ty):
            a = strip_int(n.args[0])
            if a.op == 'ior':
                c = [z for z in a.args if z.is_const]; o = [z for z in a.args if not z.is_const]
                if c and o and c[0].val == 0x3F800000:
                    b = strip_int(o[0])
                    if b.op in ('iand', 'irem'):
                        k = [z for z in b.args if z.is_const]
                        src = [z for z in b.args if not z.is_const]
                        if k and src and ((b.op == 'iand' and k[0].val == 0x007FFFFF) or (b.op == 'irem' and k[0].val == 0x00800000)):
                            s = strip_int(src[0])
                            if s.op == 'cast:bits' and s.args[0] is x:
                                mant = n
        if n.op == 'cast' and X.is_float(n.ty) and X.is_int(n.args[0].ty):
            a = n.args[0]
            if a.op == 'isub' and a.args[1].is_const and a.args[1].val == 127 and a.args[0].op == 'ishr' and a.args[0].args[1].is_const and a.args[0].args[1].val == 23:
                b = a.args[0].args[0]
                if b.op == 'iand':
                    k = [z for z in b.args if z.is_const]; src = [z for z in b.args if not z.is_const]
                    if k and src and k[0].val == 0x7F800000 and strip_int(src[0]).op == 'cast:bits' and strip_int(src[0]).args[0] is x:
                        expo = n
    return mant, expo

def find_exp2_cores(body):
    """[(Xc, trunc node T, pow2 node, fpart node, Q node, product node)] for every
    2^I * Q(X - I) block:  T = trunc(Xc - 0.5), pow2 = from_bits((T + 127) << 23)"""
    cores = []
    for n in X.walk(body):
        if n.op == 'fmul':
            for p2, q in ((n.args[0], n.args[1]), (n.args[1], n.args[0])):
                if p2.op == 'cast:bits' and X.is_float(p2.ty):
                    a = strip_int(p2.args[0])
                    if a.op == 'imul' and any(z.is_const and z.val == 1 << 23 for z in a.args):
                        s = [z for z in a.args if not z.is_const][0]
                        if s.op == 'iadd' and any(z.is_const and z.val == 127 for z in s.args):
                            T = [z for z in s.args if not z.is_const][0]
                            if T.op == 'ftoi_unchecked' and T.args[0].op == 'fsub' and T.args[0].args[1].is_const and T.args[0].args[1].val == 0.5:
                                Xc = T.args[0].args[0]
                                fpart = None
                                for z in X.walk(q):
                                    if z.op == 'fsub' and z.args[0] is Xc and z.args[1].op == 'cast' and z.args[1].args[0] is T:
                                        fpart = z
                                if fpart is not None:
                                    cores.append(dict(Xc=Xc, T=T, pow2=p2, fpart=fpart, Q=q, prod=n))
    return cores

def poly_in(node, atom_node, lo, hi):
    """exact polynomial (list of Fractions, low degree first) of `node` in the single atom, and the
    a-priori rounding bound of its floating-point evaluation on [lo, hi]"""
    a = Analyzer(atom_range=lambda n: (Fr(lo), Fr(hi)) if n is atom_node else None)
    r = a.ev(node)
    coefs = {}
    for mono, c in r.p.t.items():
        if any(z != atom_node.id for z in mono):
            raise Unsupported('polynomial in more than one atom')
        coefs[len(mono)] = c
    deg = max(coefs) if coefs else 0
    return [coefs.get(i, Fr(0)) for i in range(deg + 1)], r.err

def horner(coefs, Xi):
    acc = I(0.0, 0.0)
    for c in reversed(coefs):
        cf = float(c)
        acc = acc * Xi + I(dn(cf), up(cf))
    return acc

def deriv(coefs):
    return [c * i for i, c in enumerate(coefs)][1:] or [Fr(0)]

def sup_mv(f, df, lo, hi, rel=1e-3, abs_tol=0.0, max_boxes=200000):
    """rigorous upper bound (and a lower bound) of sup_[lo,hi] |f| using the mean value form"""
    def enc(a, b):
        c = (a + b) / 2
        fc = f(I(c, c))
        d = df(I(a, b))
        e = fc + d * (I(a, b) - I(c, c))
        plain = f(I(a, b))
        lo_, hi_ = max(e.lo, plain.lo), min(e.hi, plain.hi)
        return max(abs(lo_), abs(hi_)), max(0.0, min(abs(fc.lo), abs(fc.hi)) if fc.lo * fc.hi > 0 else 0.0)
    ub, lb = enc(lo, hi)
    heap = [(-ub, lo, hi)]
    lower = lb
    n = 0
    while heap and n < max_boxes:
        top = -heap[0][0]
        if top <= max(lower * (1 + rel), abs_tol):
            break
        _, a, b = heapq.heappop(heap)
        n += 1
        m = (a + b) / 2
        for (c, d) in ((a, m), (m, b)):
            u, l = enc(c, d)
            lower = max(lower, l)
            heapq.heappush(heap, (-u, c, d))
    return (-heap[0][0] if heap else lower), lower, n

def analyse_powf(crate, formals, body):
    """certified constants of the fast powf:  dict(delta_log2, round_log2_rel, eps_q, eps_q_wide, ...)"""
    x, y = formals
    mant, expo = find_fields(body, x)
    cores = find_exp2_cores(body)
    if mant is None or expo is None or len(cores) != 1:
        raise Unsupported('powf body is not exp2(log2-by-fields(x) * y) with one 2^I*Q(f) core')
    core = cores[0]
    # log2 part: Xc = clamp(L * y), L = G(m) + e with G = P(m)*(m-1)
    Xc = core['Xc']
    inner = Xc
    while inner.op in ('call:min', 'call:max'):
        inner = [z for z in inner.args if not z.is_const][0]
    if not (inner.op == 'fmul' and any(z is y for z in inner.args)):
        raise Unsupported('exp2 argument is not log2(x) * y')
    L = [z for z in inner.args if z is not y][0]
    if not (L.op == 'fadd' and any(z is expo for z in L.args)):
        raise Unsupported('log2 is not G(mantissa) + exponent')
    G = [z for z in L.args if z is not expo][0]
    msym = X.sym(X.F32, 'ieee.mantissa')
    G = X.substitute(G, {mant.id: msym})
    if any(n.op in ('cast:bits', 'ftoi_unchecked') or n is x for n in X.walk(G)):
        raise Unsupported('log2 polynomial depends on x other than through the mantissa field')
    gco, gerr = poly_in(G, msym, 1, 2)
    f = lambda Xi: horner(gco, Xi) - i_ln(Xi) / LN2
    dco = deriv(gco)
    df = lambda Xi: horner(dco, Xi) - I(1.0, 1.0) / (Xi * LN2)
    d_up, d_lo, n1 = sup_mv(f, df, 1.0, 2.0)
    # 2^f part: Q(f) on [-0.5, 0.5] (powf) and on [-0.5, 1] (expf's use)
    sub = _q_poly(core)
    qco, qerr = sub
    g = lambda Xi: horner(qco, Xi) / i_exp(Xi * LN2) - I(1.0, 1.0)
    dq = deriv(qco)
    dg = lambda Xi: (horner(dq, Xi) - LN2 * horner(qco, Xi)) / i_exp(Xi * LN2)
    e_up, e_lo, n2 = sup_mv(g, dg, -0.5, 0.5)
    e_up_w, e_lo_w, n3 = sup_mv(g, dg, -0.5, 1.0)
    return dict(delta_log2=d_up, delta_log2_lower=d_lo, log2_round_abs=float(gerr), eps_q=e_up, eps_q_lower=e_lo,
                eps_q_wide=e_up_w, q_round_abs=float(qerr), boxes=n1 + n2 + n3, log2_poly=[float(c) for c in gco], q_poly=[float(c) for c in qco])

def _q_poly(core):
    """Q as a polynomial in fpart (atom) with its rounding bound on [-0.5, 1]"""
    q = core['Q']
    fp = core['fpart']
    fsym = X.sym(X.F32, 'exp2.fpart')
    q2 = X.substitute(q, {fp.id: fsym})
    if any(n.op in ('cast:bits', 'ftoi_unchecked') for n in X.walk(q2)):
        raise Unsupported('Q depends on the argument other than through the fractional part')
    return poly_in(q2, fsym, Fr(-1, 2), 1)

U = 2.0 ** -24

def powf_rel_bound(c, y, ylog_max=116.0):
    """upper bound of |powf(x,y)/x^y - 1| for positive normal x, |y*log2 x| <= ylog_max
    (no clamping), given the certified constants c"""
    # log2(result) - y*log2(x) = y*(L_f - log2 x) + rounding of the product + (log2 Q(f) - f)
    dl = abs(y) * (c['delta_log2'] + c['log2_round_abs']) + U * ylog_max * 1.000001 + abs(y) * U * 0      # exponent addition e + G: |L| rounding
    # rounding of L = G + e (|L| <= ylog_max/|y| when y != 0): y * u * |L| <= u * ylog_max
    dl += U * ylog_max
    eq = c['eps_q'] + c['q_round_abs'] * 1.5 + 2 * U
    return math.expm1(math.log(2.0) * dl) * (1 + eq) + eq

def analyse_expf(crate, formals, body):
    x = formals[0]
    cores = find_exp2_cores(body)
    if len(cores) != 2:
        raise Unsupported(f"expf body has {len(cores)} exp2 cores (expected two)")
    qs = [_q_poly(c) for c in cores]
    if [float(v) for v in qs[0][0]] != [float(v) for v in qs[1][0]]:
        raise Unsupported('the two exp2 cores use different polynomials')
    qco, qerr = qs[0]
    g = lambda Xi: horner(qco, Xi) / i_exp(Xi * LN2) - I(1.0, 1.0)
    dq = deriv(qco)
    dg = lambda Xi: (horner(dq, Xi) - LN2 * horner(qco, Xi)) / i_exp(Xi * LN2)
    e01, _, n = sup_mv(g, dg, 0.0, 1.0)
    q0 = g(I(0.0, 0.0)); q1 = g(I(1.0, 1.0))
    # scale constant
    tn = None
    for n_ in X.walk(body):
        if n_.op == 'fmul' and any(a is x for a in n_.args) and any(a.is_const for a in n_.args):
            tn = n_
    if tn is None:
        raise Unsupported('no scaling of the argument')
    cst = [a for a in tn.args if a.is_const][0].val
    return dict(eps_q01=e01, eps_q_at0=max(abs(q0.lo), abs(q0.hi)), eps_q_at1=max(abs(q1.lo), abs(q1.hi)), q_round_abs=float(qerr),
                log2e=cst, log2e_dev=abs(cst - math.log2(math.e)))

def expf_rel_bound(c, xmax=85.0):
    # t = fl(c*x): |t - x*log2(e)| <= |x| (|c - log2 e| + u*c);  result = 2^ft * 2^fr with fr = t - ft exact
    dt = xmax * (c['log2e_dev'] + U * c['log2e'])
    e_int = max(c['eps_q_at0'], c['eps_q_at1']) + c['q_round_abs'] * 1.5 + U
    e_fr = c['eps_q01'] + c['q_round_abs'] * 1.5 + U
    return (1 + math.expm1(math.log(2.0) * dt)) * (1 + e_int) * (1 + e_fr) * (1 + U) - 1

def halley_map_bound(e0):
    """relative error after one step  t <- t (2x + t^3)/(x + 2 t^3)  when t = cbrt(x)(1+e), |e| <= e0:
       h(e) = (1+e)(2+(1+e)^3)/(1+2(1+e)^3) - 1   (a function of e only)"""
    def h(Ei):
        one = I(1.0, 1.0); s = one + Ei
        c3 = s * s * s
        return s * (I(2.0, 2.0) + c3) / (one + I(2.0, 2.0) * c3) - one
    # h(e) = O(e^3): bound by subdivision (plain interval evaluation, width-limited)
    worst = 0.0
    N = 4000
    for i in range(N):
        a = -e0 + 2 * e0 * i / N; b = -e0 + 2 * e0 * (i + 1) / N
        r = h(I(a, b))
        worst = max(worst, abs(r.lo), abs(r.hi))
    return worst

# ---------------------------------------------------------------------------------------------
# running (interval) round-off analysis of a straight-line float expression in one atom

def roundoff(node, atom, lo, hi, pieces=512, bits=32):
    """sup over [lo,hi] of |fl-evaluation - real evaluation| of `node` (ops fadd/fsub/fmul/fma/fneg,
    constants, one atom), by interval running error analysis on `pieces` sub-intervals; also the
    enclosure of the real value.  returns (err, vlo, vhi)"""
    prec = 24 if bits == 32 else 53
    eta = 2.0 ** -150 if bits == 32 else 2.0 ** -1075
    def rnd(M):
        # |RN(x) - x| <= ulp(x)/2 for every |x| <= M: the binade of M fixes the ulp (never more than 2^-prec * M)
        if M == 0.0: return 0.0
        if M != M or M == math.inf: return math.inf
        return max(2.0 ** (math.frexp(M)[1] - 1 - prec), eta)
    worst = 0.0; vlo = math.inf; vhi = -math.inf
    order = [n for n in X.walk(node)]
    for i in range(pieces):
        a = lo + (hi - lo) * i / pieces; b = lo + (hi - lo) * (i + 1) / pieces
        memo = {}
        def ev(n):
            r = memo.get(n.id)
            if r is not None: return r
            if n is atom: r = (I(a, b), 0.0)
            elif n.op == 'const': r = (I(float(n.val), float(n.val)), 0.0)
            elif n.op in ('fadd', 'fsub'):
                (va, ea), (vb, eb) = ev(n.args[0]), ev(n.args[1])
                v = va + vb if n.op == 'fadd' else va - vb
                e = ea + eb
                r = (v, up(e + rnd(up(v.mag + e))))
            elif n.op == 'fmul':
                (va, ea), (vb, eb) = ev(n.args[0]), ev(n.args[1])
                v = va * vb
                e = va.mag * eb + vb.mag * ea + ea * eb
                r = (v, up(e + rnd(up(v.mag + e))))
            elif n.op == 'fma':
                (va, ea), (vb, eb), (vc, ec) = ev(n.args[0]), ev(n.args[1]), ev(n.args[2])
                v = va * vb + vc
                e = va.mag * eb + vb.mag * ea + ea * eb + ec
                r = (v, up(e + rnd(up(v.mag + e))))
            elif n.op == 'fneg':
                va, ea = ev(n.args[0]); r = (-va, ea)
            elif n.op == 'cast' and X.is_float(n.ty) and X.is_float(n.args[0].ty) and n.args[0].ty[1] <= n.ty[1]:
                r = ev(n.args[0])
            else:
                raise Unsupported(f"round-off analysis of {n.op}")
            memo[n.id] = r
            return r
        v, e = ev(node)
        worst = max(worst, e); vlo = min(vlo, v.lo); vhi = max(vhi, v.hi)
    return worst, vlo, vhi

# ---------------------------------------------------------------------------------------------
# powf: complete relative error bound on the contract domain

LOG2_1E35 = 116.27

def powf_model(crate, formals, body):
    """decompose powf, certify its pieces; returns constants c with c['bound'](y)"""
    x, y = formals
    mant, expo = find_fields(body, x)
    cores = find_exp2_cores(body)
    if mant is None or expo is None or len(cores) != 1:
        raise Unsupported('powf body is not exp2(log2-by-fields(x) * y) with one 2^I*Q(f) core')
    core = cores[0]
    Xc = core['Xc']
    inner = Xc; clamps = []
    while inner.op in ('call:min', 'call:max', 'call:minnum', 'call:maxnum', 'call:fmin', 'call:fmax'):
        clamps.append((inner.op, [z for z in inner.args if z.is_const][0].val))
        inner = [z for z in inner.args if not z.is_const][0]
    if not (inner.op == 'fmul' and any(z is y for z in inner.args)):
        raise Unsupported(f"exp2 argument is not clamp(log2(x) * y): {inner.op}")
    lo_c = max([v for o, v in clamps if 'max' in o], default=-math.inf)
    hi_c = min([v for o, v in clamps if 'min' in o], default=math.inf)
    L = [z for z in inner.args if z is not y][0]
    if not (L.op == 'fadd' and any(z is expo for z in L.args)):
        raise Unsupported('log2 is not G(mantissa) + exponent')
    G = [z for z in L.args if z is not expo][0]
    msym = X.sym(X.F32, 'ieee.mantissa')
    G = X.substitute(G, {mant.id: msym})
    if any(n.op in ('cast:bits', 'ftoi_unchecked') or n is x for n in X.walk(G)):
        raise Unsupported('log2 polynomial depends on x other than through the mantissa field')
    gco, _ = poly_in(G, msym, 1, 2)
    gerr, _, _ = roundoff(G, msym, 1.0, 2.0)
    f = lambda Xi: horner(gco, Xi) - i_ln(Xi) / LN2
    dco = deriv(gco)
    df = lambda Xi: horner(dco, Xi) - I(1.0, 1.0) / (Xi * LN2)
    d_up, d_lo, n1 = sup_mv(f, df, 1.0, 2.0)
    # exp2 core: fpart in [-0.5, 1.5] for trunc(X - 0.5)   (see DESIGN 8.8)
    q = core['Q']; fp = core['fpart']
    fsym = X.sym(X.F32, 'exp2.fpart')
    q2 = X.substitute(q, {fp.id: fsym})
    if any(n.op in ('cast:bits', 'ftoi_unchecked') for n in X.walk(q2)):
        raise Unsupported('Q depends on the argument other than through the fractional part')
    qco, _ = poly_in(q2, fsym, Fr(-1, 2), Fr(3, 2))
    qerr, qlo, qhi = roundoff(q2, fsym, -0.5, 1.5)
    g = lambda Xi: horner(qco, Xi) / i_exp(Xi * LN2) - I(1.0, 1.0)
    dq = deriv(qco)
    dg = lambda Xi: (horner(dq, Xi) - LN2 * horner(qco, Xi)) / i_exp(Xi * LN2)
    e_up, e_lo, n2 = sup_mv(g, dg, -0.5, 1.5)
    if qlo <= 0:
        raise Unsupported('Q is not positive on the fractional range')
    c = dict(delta_log2=d_up, delta_log2_lower=d_lo, log2_round_abs=gerr, eps_q=e_up, eps_q_lower=e_lo,
             q_round_abs=qerr, q_min=qlo, boxes=n1 + n2, clamp=(lo_c, hi_c),
             log2_poly=[float(v) for v in gco], q_poly=[float(v) for v in qco])
    return c

def powf_bound(c, y, ylog=LOG2_1E35):
    """|powf(x,y)/x^y - 1| for positive normal x with |y log2 x| <= ylog (contract: result in [1e-35,1e35]).
       X = fl(fl(G_fl + e) * y);  |X - y log2 x| <= D;  result = 2^ipart * Q_fl(X - ipart) (1+d)"""
    dl = c['delta_log2'] + c['log2_round_abs']
    D = abs(y) * dl * (1 + U) ** 2 + 2 * U * ylog * (1 + U) + 1.5 * U     # (+ rounding of X - ipart, if any)
    lo_c, hi_c = c['clamp']
    if not (lo_c <= -(ylog + D) and ylog + D <= hi_c):
        return math.inf            # the clamp would be active inside the contract domain
    if ylog + D + 1 > 126:         # 2^ipart must be a normal number
        return math.inf
    eq = c['eps_q'] + c['q_round_abs'] / c['q_min']
    return up(2.0 ** D * (1 + eq) * (1 + U) - 1) * (1 + 1e-12)

# ---------------------------------------------------------------------------------------------
# cbrtf: bit-trick initial guess + rational iteration

def pseudo_exp2(z):
    """value of the positive normal float whose (exponent field + mantissa fraction) - bias is z"""
    k = math.floor(z)
    return math.ldexp(1.0 + (z - k), k)

def cbrt_guess_error(D, B, pieces=60000):
    """sup over positive normal x of |t0/cbrt(x) - 1| where bits(t0) = bits(x) div D + B  (D = 3)"""
    assert D == 3
    kk = Fr(127, 3) + Fr(B, 1 << 23) - 127
    kf = float(kk)
    worst = 0.0
    for i in range(pieces):
        a = 3.0 * i / pieces; b = 3.0 * (i + 1) / pieces
        zlo = dn(a / 3 + kf - 2.0 ** -23); zhi = up(b / 3 + kf)
        tlo, thi = dn(pseudo_exp2(zlo)), up(pseudo_exp2(zhi))
        clo = dn(dn(pseudo_exp2(a)) ** (1.0 / 3.0)); chi = up(up(pseudo_exp2(b)) ** (1.0 / 3.0))
        for _ in range(4):
            clo = dn(clo); chi = up(chi)
        worst = max(worst, abs(dn(tlo / chi) - 1.0), abs(up(thi / clo) - 1.0))
    return worst, float(kk)

def _to_sp(e, syms):
    import sympy as sp
    if e.op == 'const': return sp.Rational(Fr(e.val).numerator, Fr(e.val).denominator)
    if e.op == 'sym': return syms.setdefault(e.args[0], sp.Symbol(e.args[0], positive=True))
    if e.op == 'cast' and X.is_float(e.ty) and X.is_float(e.args[0].ty):
        return _to_sp(e.args[0], syms)
    a = [_to_sp(z, syms) for z in e.args]
    if e.op == 'fadd': return a[0] + a[1]
    if e.op == 'fsub': return a[0] - a[1]
    if e.op == 'fmul': return a[0] * a[1]
    if e.op == 'fdiv': return a[0] / a[1]
    if e.op == 'fma': return a[0] * a[1] + a[2]
    raise Unsupported(f"rational form of {e.op}")

def positive_rel_roundoff(node, u=2.0 ** -53):
    """relative round-off of a DAG of +,*,/ over positive atoms (no cancellation): sums keep the
    larger operand error, products/quotients add them; the final narrowing cast is not included"""
    memo = {}
    def ev(n):
        r = memo.get(n.id)
        if r is not None: return r
        if n.op in ('sym', 'const'):
            if n.op == 'const' and n.val <= 0: raise Unsupported('non-positive constant')
            r = 0.0
        elif n.op == 'cast' and X.is_float(n.ty) and X.is_float(n.args[0].ty) and n.args[0].ty[1] <= n.ty[1]:
            r = ev(n.args[0])
        elif n.op == 'fadd':
            m = max(ev(n.args[0]), ev(n.args[1])); r = m + u * (1 + m)
        elif n.op == 'fmul':
            a, b = ev(n.args[0]), ev(n.args[1]); m = a + b + a * b; r = m + u * (1 + m)
        elif n.op == 'fdiv':
            a, b = ev(n.args[0]), ev(n.args[1]); m = (a + b) / (1 - b); r = m + u * (1 + m)
        elif n.op == 'fma':
            a, b, c = ev(n.args[0]), ev(n.args[1]), ev(n.args[2]); m = max(a + b + a * b, c); r = m + u * (1 + m)
        else:
            raise Unsupported(f"cancellation-free round-off analysis of {n.op}")
        memo[n.id] = r
        return r
    return ev(node) * (1 + 1e-9)

def sp_interval(expr, var, iv):
    """interval evaluation of a sympy expression (Add/Mul/Pow with integer exponent/Rational) in one variable"""
    import sympy as sp
    def ev(e):
        if e == var: return iv
        if e.is_Rational:
            v = float(e); return I(dn(v), up(v)) if sp.Rational(v) != e else I(v, v)
        if e.is_Add:
            r = I(0.0, 0.0)
            for a in e.args: r = r + ev(a)
            return r
        if e.is_Mul:
            r = I(1.0, 1.0)
            for a in e.args: r = r * ev(a)
            return r
        if e.is_Pow and e.exp.is_Integer:
            b = ev(e.base); k = int(e.exp)
            n = abs(k)
            if n % 2 == 0 and b.lo < 0 < b.hi:
                m = max(abs(b.lo), abs(b.hi)); r = I(0.0, up(m ** n))
            else:
                c = sorted([b.lo ** n, b.hi ** n]); r = I(dn(c[0]), up(c[1]))
            return r if k > 0 else I(1.0, 1.0) / r
        raise Unsupported(f"interval evaluation of {e.func}")
    return ev(expr)

def cbrtf_model(crate, formals, body):
    import sympy as sp
    x = formals[0]
    # initial guess
    guess = None
    for n in X.walk(body):
        if n.op == 'cast:bits' and X.is_float(n.ty):
            a = strip_int(n.args[0])
            if a.op == 'ior':
                for z in a.args:
                    z = strip_int(z)
                    if z.op == 'iadd' and any(w.is_const for w in z.args):
                        B = [w for w in z.args if w.is_const][0].val
                        d = strip_int([w for w in z.args if not w.is_const][0])
                        if d.op == 'idiv' and d.args[1].is_const:
                            hx = strip_int(d.args[0])
                            ok_hx = (hx.op == 'irem' and hx.args[1].is_const and hx.args[1].val == 1 << 31) or \
                                    (hx.op == 'iand' and any(w.is_const and w.val == 0x7FFFFFFF for w in hx.args))
                            src = strip_int(hx.args[0]) if ok_hx else None
                            if ok_hx and src.op == 'cast:bits' and src.args[0] is x:
                                guess = dict(node=n, D=d.args[1].val, B=B)
    if guess is None:
        raise Unsupported('no bits(|x|) div D + B initial guess found')
    if guess['D'] != 3:
        raise Unsupported(f"initial guess divides the exponent by {guess['D']}, not 3")
    e0, kk = cbrt_guess_error(guess['D'], guess['B'])
    # iteration as a rational function of (t0, x)
    outer = body
    narrowing = outer.op == 'cast' and X.is_float(outer.ty) and outer.ty[1] == 32 and outer.args[0].ty[1] == 64
    if not narrowing:
        raise Unsupported('result is not an f64 iteration narrowed to f32')
    tsym = X.sym(X.F64, 'cbrt.t0'); xsym = X.sym(X.F64, 'cbrt.x')
    sub = {}
    for n in X.walk(body):
        if n.op == 'cast' and X.is_float(n.ty) and n.ty[1] == 64:
            if n.args[0] is guess['node']: sub[n.id] = tsym
            elif n.args[0] is x: sub[n.id] = xsym
    F = X.substitute(outer.args[0], sub)
    if any(n.op == 'cast:bits' or n is x for n in X.walk(F)):
        raise Unsupported('iteration depends on x other than through (t0, x as f64)')
    syms = {}
    Fs = _to_sp(F, syms)
    t = syms.get('cbrt.t0'); xs = syms.get('cbrt.x')
    if t is None or xs is None:
        raise Unsupported('iteration does not use both the guess and x')
    s = sp.Symbol('s', positive=True); e = sp.Symbol('e', real=True)
    H = sp.cancel(sp.together(Fs.subs({t: s * (1 + e), xs: s ** 3}) / s - 1))
    if H.free_symbols - {e}:
        raise Unsupported('iteration is not scale-covariant for the cube root (relative error map depends on the scale)')
    num, den = sp.fraction(sp.factor(H))
    order = 0
    for fct, mult in sp.factor_list(num)[1]:
        if fct == e: order = mult
    # bound |H(e)| on [-e0, e0]
    worst = 0.0
    pieces = 400
    for i in range(pieces):
        a = -e0 + 2 * e0 * i / pieces; b = -e0 + 2 * e0 * (i + 1) / pieces
        iv = I(a, b)
        r = sp_interval(num, e, iv) / sp_interval(den, e, iv)
        worst = max(worst, abs(r.lo), abs(r.hi))
    rho = positive_rel_roundoff(F)
    total = (1 + worst) * (1 + rho) - 1
    return dict(B=guess['B'], D=guess['D'], k=kk, guess_rel=e0, iteration_order=order, iter_rel=worst, roundoff_rel=rho, total_rel=total,
                H=str(sp.factor(H))[:300])

# ---------------------------------------------------------------------------------------------
# expf = exp2(floor t) * exp2(t - floor t),  t = fl(c x)

def _strip_clamp(n):
    while n.op in ('call:min', 'call:max', 'call:minnum', 'call:maxnum'):
        n = [z for z in n.args if not z.is_const][0]
    return n

def expf_model(crate, formals, body, xmax=85.0):
    x = formals[0]
    cores = find_exp2_cores(body)
    if len(cores) != 2:
        raise Unsupported(f"expf body has {len(cores)} exp2 cores (expected exp2(floor t) * exp2(t - floor t))")
    if not (body.op == 'fmul' and {body.args[0].id, body.args[1].id} == {cores[0]['prod'].id, cores[1]['prod'].id}):
        raise Unsupported('expf is not the product of its two exp2 cores')
    tn = None
    roles = {}
    for c in cores:
        a = _strip_clamp(c['Xc'])
        if a.op == 'call:floor':
            roles['int'] = c; t = a.args[0]
        elif a.op == 'fsub' and a.args[1].op == 'call:floor' and a.args[1].args[0] is a.args[0]:
            roles['frac'] = c; t = a.args[0]
        else:
            raise Unsupported(f"exp2 argument is neither floor(t) nor t - floor(t): {a.op}")
        if tn is not None and t is not tn:
            raise Unsupported('the two exp2 arguments split different values')
        tn = t
    if len(roles) != 2:
        raise Unsupported('expected one integral and one fractional exp2')
    if not (tn.op == 'fmul' and any(a is x for a in tn.args) and any(a.is_const for a in tn.args)):
        raise Unsupported('t is not const * x')
    cst = [a for a in tn.args if a.is_const][0].val
    out = dict(log2e=cst, log2e_dev=abs(cst - math.log2(math.e)) + 1e-16)
    fsym = X.sym(X.F32, 'exp2.fpart')
    qs = []
    for role, c in roles.items():
        q2 = X.substitute(c['Q'], {c['fpart'].id: fsym})
        if any(n.op in ('cast:bits', 'ftoi_unchecked') for n in X.walk(q2)):
            raise Unsupported('Q depends on the argument other than through the fractional part')
        qco, _ = poly_in(q2, fsym, 0, 1)
        qs.append((role, q2, qco))
    tmax = xmax * cst * (1 + U)
    for role, q2, qco in qs:
        g = lambda Xi, qco=qco: horner(qco, Xi) / i_exp(Xi * LN2) - I(1.0, 1.0)
        dq = deriv(qco)
        dg = lambda Xi, qco=qco, dq=dq: (horner(dq, Xi) - LN2 * horner(qco, Xi)) / i_exp(Xi * LN2)
        if role == 'int':
            # argument is an integer n: ipart = trunc(n - 0.5) -> fpart = 1 (n >= 1) or 0 (n <= 0)
            pts = [g(I(0.0, 0.0)), g(I(1.0, 1.0))]
            eps = max(max(abs(p.lo), abs(p.hi)) for p in pts)
            err = max(roundoff(q2, fsym, 0.0, 0.0, pieces=1)[0], roundoff(q2, fsym, 1.0, 1.0, pieces=1)[0])
            qmin = min(horner(qco, I(0.0, 0.0)).lo, horner(qco, I(1.0, 1.0)).lo)
        else:
            eps, _, _ = sup_mv(g, dg, 0.0, 1.0)
            err, qmin, _ = roundoff(q2, fsym, 0.0, 1.0)
        if qmin <= 0: raise Unsupported('Q not positive')
        out['eps_' + role] = eps; out['round_' + role] = err / qmin
    lo_c = max((v for c in cores for o, v in _clamps(c['Xc']) if 'max' in o), default=-math.inf)
    hi_c = min((v for c in cores for o, v in _clamps(c['Xc']) if 'min' in o), default=math.inf)
    if not (lo_c <= -tmax - 1 and tmax + 1 <= hi_c and tmax + 2 < 126):
        out['bound'] = math.inf
        return out
    # t = c x (1+d1): |t - x log2 e| <= |x| (|c - log2 e| + u c);  f = fl(t - floor t): abs error <= u
    dt = xmax * (out['log2e_dev'] + U * cst) + U
    b = 2.0 ** dt * (1 + out['eps_int'] + out['round_int']) * (1 + out['eps_frac'] + out['round_frac']) * (1 + U) ** 3 - 1
    out['bound'] = up(b) * (1 + 1e-12)
    out['exponent_error'] = dt
    return out

def _clamps(n):
    r = []
    while n.op in ('call:min', 'call:max', 'call:minnum', 'call:maxnum'):
        r.append((n.op, [z for z in n.args if z.is_const][0].val))
        n = [z for z in n.args if not z.is_const][0]
    return r
