"""Effect rule (E1): the call graph below an entry point must be pure - no statics,
thread-locals, I/O, clocks, randomness, threads or unknown external code.  Works on the
resolved monomorphic call graph of the fact file."""
from __future__ import annotations
from .models import lookup, MODEL_DOC

ALLOW_STATIC_PREFIX = ('log::',)       # the logger facade (assumed not to influence results)

def reachable(crate, roots):
    seen, stack = set(), list(roots)
    while stack:
        k = stack.pop()
        if k in seen or k not in crate.fns:
            continue
        seen.add(k)
        for blk in crate.fns[k]['blocks']:
            t = blk['t']
            if t['k'] == 'call' and 'callee' in t:
                c = t['callee']
                if c.get('body') and lookup(c) is None:
                    stack.append(c['key'])
            _fn_consts(blk, stack)
    return seen

def _fn_consts(blk, stack):
    def visit(o):
        if isinstance(o, dict):
            if o.get('k') == 'fn' and 'callee' in o and o['callee'].get('body'):
                stack.append(o['callee']['key'])
            for v in o.values():
                visit(v)
        elif isinstance(o, list):
            for v in o:
                visit(v)
    visit(blk)

def impurities(crate, roots):
    """list of (function key, description) for every impure construct reachable"""
    out = []
    for k in sorted(reachable(crate, roots)):
        fn = crate.fns[k]
        for blk in fn['blocks']:
            if blk.get('cleanup'):
                continue
            def visit(o):
                if isinstance(o, dict):
                    if o.get('k') == 'static':
                        if not o.get('def', '').startswith(ALLOW_STATIC_PREFIX):
                            out.append((k, f"reads or writes the static `{o.get('def')}`"))
                    if o.get('k') == 'tls':
                        out.append((k, f"uses the thread-local `{o.get('def')}`"))
                    for v in o.values():
                        visit(v)
                elif isinstance(o, list):
                    for v in o:
                        visit(v)
            visit(blk)
            t = blk['t']
            if t['k'] == 'call':
                if 'callee' not in t:
                    continue
                c = t['callee']
                if c.get('kind') == 'unresolved' or c.get('kind') == 'virtual':
                    out.append((k, f"calls `{c.get('gdef')}` through dynamic dispatch"))
                elif not c.get('body') and lookup(c) is None and not c.get('ctor'):
                    out.append((k, f"calls the external function `{c.get('def') or c.get('gdef')}` which has no pure model"))
            elif t['k'] == 'unsupported':
                out.append((k, f"contains an unsupported terminator ({t.get('what')})"))
    return out
