"""Model table: the only hand-written semantics of the analysis (DESIGN.md section 2.3).

Every entry models one std / dependency function that the interpreter does not read
from MIR.  An entry is a Python function (interp, state, callee, args, dest_tid, site)
-> list of (state, value).  Each carries a one-line justification in MODEL_DOC.
"""
from __future__ import annotations
import re
from . import expr as X
from .expr import E
from .values import *

MODEL_DOC = {}
_EXACT = {}
_PREFIX = []
_REGEX = []

def model(*names, doc='', prefix=False, regex=False):
    def deco(f):
        for n in names:
            MODEL_DOC[n] = doc
            if regex: _REGEX.append((re.compile(n), f))
            elif prefix: _PREFIX.append((n, f))
            else: _EXACT[n] = f
        return f
    return deco

def lookup(callee):
    for name in (callee.get('def'), callee.get('gdef')):
        if not name:
            continue
        f = _EXACT.get(name)
        if f: return f
    for name in (callee.get('def'), callee.get('gdef')):
        if not name:
            continue
        for p, f in _PREFIX:
            if name.startswith(p): return f
        for r, f in _REGEX:
            if r.match(name): return f
    k = callee.get('key')
    if k:
        for r, f in _REGEX:
            if r.match(k): return f
    if callee.get('kind') == 'intrinsic':
        f = _EXACT.get('intrinsic:' + callee.get('intrinsic', ''))
        if f: return f
    return None

def opaque_field(it, st, v, i):
    raise Unsupported(f"field {i} of opaque {v.kind}")

# ------------------------------------------------------------------ small helpers
def usz(v): return X.const(X.USIZE, v)

def deref(it, st, p):
    if isinstance(p, Ptr):
        return it.read(st, p.obj, p.path)
    if isinstance(p, Opaque) and p.kind == 'constptr':
        return p.f['v']
    raise Unsupported(f"deref of {p!r}")

def variant_index(it, tid, name):
    t = it.ty(tid)
    for i, v in enumerate(t['variants']):
        if v['name'] == name:
            return i
    raise Unsupported(f"no variant {name} in {t['s']}")

def some(it, tid, v): return EnumV(tid, variant_index(it, tid, 'Some'), [v])
def none(it, tid): return EnumV(tid, variant_index(it, tid, 'None'), [])

def unit(tid): return Agg('tuple', tid, [])

# ------------------------------------------------------------------------- panics
@model('std::rt::panic_fmt', 'std::option::expect_failed', 'std::result::unwrap_failed',
       'std::option::unwrap_failed', 'core::panicking::panic', 'core::panicking::panic_fmt',
       'core::panicking::panic_bounds_check', 'core::panicking::panic_nounwind', 'std::rt::begin_panic',
       'core::slice::index::slice_start_index_len_fail', 'core::slice::index::slice_index_fail',
       'core::panicking::panic_const', 'core::panicking::assert_failed', 'core::panicking::unreachable_display',
       doc='diverging panic entry points: the path ends and a panic exit is recorded', prefix=True)
def m_panic(it, st, callee, args, dest_tid, site):
    it.rec.panic(kind='call', msg=callee.get('def'), fn=site[0], ln=site[1], pc=st.pc, stack=st.stack, definite=True)
    raise PathEnd('panic')

# ---------------------------------------------------------------------- log / fmt
@model('log::max_level', doc='runtime log level: logging is assumed not to influence results; treated as Off')
def m_log_max(it, st, callee, args, dest_tid, site):
    return [(st, EnumV(dest_tid, 0, []))]

@model('log::', 'core::fmt::', 'std::fmt::', doc='formatting / logging sinks: no effect on conversion results', prefix=True)
def m_fmt(it, st, callee, args, dest_tid, site):
    return [(st, Unknown(dest_tid, 'fmt'))]

@model(r'^<log::Level as std::cmp::PartialOrd<log::LevelFilter>>::', regex=True,
       doc='log level comparison: logging treated as disabled (no effect on results)')
def m_log_cmp(it, st, callee, args, dest_tid, site):
    return [(st, X.cbool(False))]

# ------------------------------------------------------------------ operator traits
_OPS = {'add': 'Add', 'sub': 'Sub', 'mul': 'Mul', 'div': 'Div', 'rem': 'Rem', 'bitand': 'BitAnd', 'bitor': 'BitOr',
        'bitxor': 'BitXor', 'shl': 'Shl', 'shr': 'Shr'}

@model(r'^<&?(f32|f64|usize|u8|u16|u32|u64|i32|i64|isize) as std::ops::(Add|Sub|Mul|Div|Rem|BitAnd|BitOr|BitXor|Shl|Shr)(<&?\w+>)?>::\w+$', regex=True,
       doc='primitive operator trait impls: identical to the MIR binary operator (core::ops::arith)')
def m_prim_op(it, st, callee, args, dest_tid, site):
    name = (callee.get('def') or callee['gdef']).rsplit('::', 1)[1]
    a, b = args
    if isinstance(a, (Ptr, Opaque)): a = deref(it, st, a)
    if isinstance(b, (Ptr, Opaque)): b = deref(it, st, b)
    op = _OPS[name]
    # mirror rustc's lowering for primitives: checked in overflow-checking builds
    if X.is_int(a.ty) and op in ('Add', 'Sub', 'Mul') and it.overflow_checks:
        r = it.binary(st, op + 'WithOverflow', a, b, None, None)
        v, ovf = r.fields
        if not (ovf.is_const and not ovf.val):
            dec = it.decide(st, X.unop('not', ovf))
            it.rec.panic(kind='assert', msg=f'Overflow({op})', fn=site[0], ln=site[1], pc=st.pc, stack=st.stack,
                         cond=X.unop('not', ovf), definite=(dec is False))
            st.assume(X.unop('not', ovf))
        return [(st, v)]
    return [(st, it.binary(st, op, a, b, None, None))]

@model(r'^<&?(f32|f64|i32|i64|isize) as std::ops::Neg>::neg$', regex=True, doc='primitive negation')
def m_prim_neg(it, st, callee, args, dest_tid, site):
    a = args[0]
    if isinstance(a, (Ptr, Opaque)): a = deref(it, st, a)
    return [(st, X.unop('neg', a))]

# --------------------------------------------------------------------------- floats
def _f(name, nargs):
    def m(it, st, callee, args, dest_tid, site):
        return [(st, X.fcall(name, args[:nargs]))]
    return m

for _n, _k in (('abs', 1), ('max', 2), ('min', 2), ('clamp', 3), ('copysign', 2), ('floor', 1), ('round', 1), ('sqrt', 1), ('trunc', 1), ('ceil', 1)):
    for _t in ('f32', 'f64'):
        for _c in ('core', 'std'):
            _EXACT[f'{_c}::{_t}::<impl {_t}>::{_n}'] = _f(_n, _k)
            MODEL_DOC[f'{_c}::{_t}::<impl {_t}>::{_n}'] = 'IEEE/std-documented exact operation (NaN rules per std docs)'
for _n, _k in (('ln', 1), ('log10', 1), ('exp', 1), ('powf', 2), ('cbrt', 1), ('log2', 1), ('exp2', 1)):
    for _t in ('f32', 'f64'):
        _EXACT[f'std::{_t}::<impl {_t}>::{_n}'] = _f('libm_' + _n, _k)
        MODEL_DOC[f'std::{_t}::<impl {_t}>::{_n}'] = 'libm transcendental: kept symbolic, enclosed within 1 ulp (assumption A-libm)'

@model('std::f32::<impl f32>::rem_euclid', 'std::f64::<impl f64>::rem_euclid', 'core::f32::<impl f32>::rem_euclid',
       'core::f64::<impl f64>::rem_euclid',
       doc='std-documented definition: r = self % rhs; if r < 0.0 { r + rhs.abs() } else { r } (library/std/src/num/f32.rs)')
def m_rem_euclid(it, st, callee, args, dest_tid, site):
    a, b = args[0], args[1]
    r = X.binop('rem', a, b)
    zero = X.const(r.ty, 0.0)
    return [(st, X.select(X.binop('lt', r, zero), X.binop('add', r, X.fcall('abs', [b])), r))]

@model('std::f32::<impl f32>::mul_add', 'std::f64::<impl f64>::mul_add', 'core::f32::<impl f32>::mul_add',
       doc='fused multiply-add: single rounding (IEEE fusedMultiplyAdd)')
def m_mul_add(it, st, callee, args, dest_tid, site):
    return [(st, X.fma(args[0], args[1], args[2]))]

@model('core::f32::<impl f32>::to_bits', 'core::f64::<impl f64>::to_bits', doc='bit reinterpretation')
def m_to_bits(it, st, callee, args, dest_tid, site):
    return [(st, X.cast('bits', args[0], it.sty(dest_tid)))]

@model('core::f32::<impl f32>::from_bits', 'core::f64::<impl f64>::from_bits', doc='bit reinterpretation')
def m_from_bits(it, st, callee, args, dest_tid, site):
    return [(st, X.cast('bits', args[0], it.sty(dest_tid)))]

@model('core::f32::<impl f32>::to_int_unchecked', 'core::f64::<impl f64>::to_int_unchecked',
       doc='UNSAFE float->int truncation; precondition (finite, in range after truncation) recorded as obligation O-float')
def m_to_int_unchecked(it, st, callee, args, dest_tid, site):
    a = args[0]
    s = it.sty(dest_tid)
    it.rec.unsafe_ops.append(dict(kind='to_int_unchecked', site=site, stack=st.stack, pc=st.pc, arg=a, to=s))
    it.rec.ob(kind='O-float', site=site, stack=st.stack, pc=st.pc, arg=a, to=s)
    if a.is_const:
        return [(st, X.cast('num', a, s))]
    return [(st, X.node('ftoi_unchecked', (a,), s))]

# ---------------------------------------------------------------------- mem / misc
@model('std::mem::size_of', doc='layout size as computed by rustc for the monomorphic type')
def m_size_of(it, st, callee, args, dest_tid, site):
    t = it.ty(callee['targs'][0])
    return [(st, usz(t['size']))]

@model('std::mem::align_of', doc='layout alignment as computed by rustc')
def m_align_of(it, st, callee, args, dest_tid, site):
    t = it.ty(callee['targs'][0])
    return [(st, usz(t['align']))]

@model('<I as std::iter::IntoIterator>::into_iter', doc='identity on iterators')
def m_into_iter_id(it, st, callee, args, dest_tid, site):
    return [(st, args[0])]

@model('std::clone::Clone::clone', doc='fallback: Clone of Copy-like scalars')
def m_clone_generic(it, st, callee, args, dest_tid, site):
    return [(st, deep_clone(it, st, deref(it, st, args[0])))]

def deep_clone(it, st, v):
    if isinstance(v, Opaque) and 'buf' in v.f:
        b = st.heap[v.f['buf']]
        o = st.alloc(b.copied() if isinstance(b, Buf) else b)
        return v.replace(buf=o)
    if isinstance(v, Agg):
        return Agg(v.kind, v.tid, [deep_clone(it, st, x) for x in v.fields])
    if isinstance(v, EnumV):
        return EnumV(v.tid, v.variant, [deep_clone(it, st, x) for x in v.fields])
    return v

@model('<std::vec::Vec<T, A> as std::clone::Clone>::clone', '<T as std::array::SpecArrayClone>::clone',
       '<aligned_vec::ABox<T, A> as std::clone::Clone>::clone',
       doc='deep copy of the owned buffer(s)')
def m_vec_clone(it, st, callee, args, dest_tid, site):
    return [(st, deep_clone(it, st, deref(it, st, args[0])))]

@model('std::slice::<impl [T]>::to_vec', doc='copy of a whole-buffer slice into a new Vec (same contents, same length)')
def m_to_vec(it, st, callee, args, dest_tid, site):
    sl = as_slice(it, st, args[0])
    buf = it.read(st, sl.obj, sl.path)
    if not isinstance(buf, Buf) or not (sl.start.is_const and sl.start.val == 0 and sl.len is buf.len) or sl.flat:
        raise Unsupported('to_vec of a partial or reinterpreted slice')
    o = st.alloc(buf.copied())
    return [(st, Opaque('vec', buf=o))]

# ------------------------------------------------------------------------------ Vec
@model('std::vec::from_elem', doc='vec![elem; n]: new buffer of symbolic length n uniformly initialised')
def m_from_elem(it, st, callee, args, dest_tid, site):
    elem, n = args[0], args[1]
    o = st.alloc(Buf(callee['targs'][0], n, elem, f"vec@{site[0].split('::')[-1]}:{site[1]}"))
    it.rec.events.append(dict(ev='alloc', obj=o, len=n, site=site, pc=st.pc))
    return [(st, Opaque('vec', buf=o))]

def vec_of(it, st, p):
    v = deref(it, st, p) if isinstance(p, (Ptr,)) else p
    if isinstance(v, Opaque) and v.kind == 'vec':
        return v
    raise Unsupported(f"expected Vec, got {v!r}")

@model('std::vec::Vec::<T, A>::len', doc='length of the owned buffer')
def m_vec_len(it, st, callee, args, dest_tid, site):
    v = vec_of(it, st, args[0])
    return [(st, st.heap[v.f['buf']].len)]

@model('std::vec::Vec::<T, A>::as_mut_ptr', 'std::vec::Vec::<T, A>::as_ptr', doc='pointer to element 0 of the owned buffer')
def m_vec_as_ptr(it, st, callee, args, dest_tid, site):
    v = vec_of(it, st, args[0])
    b = st.heap[v.f['buf']]
    return [(st, Ptr(v.f['buf'], (('i', usz(0)),), True, 0, dict(vec=v.f['buf'], len=b.len)))]

@model('<std::vec::Vec<T, A> as std::ops::Deref>::deref', '<std::vec::Vec<T, A> as std::ops::DerefMut>::deref_mut',
       'std::vec::Vec::<T, A>::as_slice', 'std::vec::Vec::<T, A>::as_mut_slice',
       doc='whole-buffer slice of the Vec')
def m_vec_deref(it, st, callee, args, dest_tid, site):
    v = vec_of(it, st, args[0])
    b = st.heap[v.f['buf']]
    return [(st, Slice(v.f['buf'], (), usz(0), b.len, 'mut' in callee.get('def', '')))]

@model("<&'a mut std::vec::Vec<T, A> as std::iter::IntoIterator>::into_iter", "<&'a std::vec::Vec<T, A> as std::iter::IntoIterator>::into_iter",
       doc='iterator over the whole owned buffer')
def m_vec_into_iter(it, st, callee, args, dest_tid, site):
    v = vec_of(it, st, args[0])
    b = st.heap[v.f['buf']]
    return [(st, Opaque('slice_iter', sl=Slice(v.f['buf'], (), usz(0), b.len, True), pos=usz(0)))]

@model('std::ptr::mut_ptr::<impl *mut T>::cast', 'std::ptr::const_ptr::<impl *const T>::cast', doc='pointer cast (element reinterpretation tracked)')
def m_ptr_cast(it, st, callee, args, dest_tid, site):
    p = args[0]
    if not isinstance(p, Ptr):
        raise Unsupported('cast of non-pointer')
    fe, te = it.ty(callee['targs'][0]), it.ty(callee['targs'][1])
    if fe['s'] == te['s']:
        return [(st, p)]
    if fe['k'] == 'array' and fe.get('len') and it.ty(fe['elem'])['s'] == te['s']:
        org = dict(p.origin or {})
        org.update(cast_from=fe['s'], cast_to=te['s'], n=fe['len'], size_from=fe.get('size'), size_to=te.get('size'),
                   align_from=fe.get('align'), align_to=te.get('align'))
        return [(st, Ptr(p.obj, p.path, p.mut, fe['len'], org))]
    raise Unsupported(f"pointer cast {fe['s']} -> {te['s']}")

@model('std::slice::from_raw_parts_mut', 'std::slice::from_raw_parts',
       doc='UNSAFE slice construction; validity recorded as obligation O-raw (same allocation, exact length, layout, exclusivity)')
def m_from_raw_parts(it, st, callee, args, dest_tid, site):
    p, n = args
    if not isinstance(p, Ptr):
        raise Unsupported('from_raw_parts on unknown pointer')
    org = p.origin or {}
    base = p.path[-1][1] if p.path and p.path[-1][0] == 'i' else usz(0)
    buf = st.heap.get(p.obj)
    it.rec.unsafe_ops.append(dict(kind='from_raw_parts', site=site, stack=st.stack, pc=st.pc))
    it.rec.ob(kind='O-raw', site=site, stack=st.stack, pc=st.pc, ptr=p, n=n, origin=org, base=base,
              buf_len=(buf.len if isinstance(buf, Buf) else None), flat=p.flat)
    if p.flat:
        st.borrow_flat[p.obj] = 'live'
    path = p.path[:-1] if p.path and p.path[-1][0] == 'i' else p.path
    return [(st, Slice(p.obj, path, X.binop('mul', base, usz(p.flat or 1), wrap=False) if p.flat else base, n, True, p.flat, org))]

def as_slice(it, st, v):
    if isinstance(v, Slice):
        return v
    if isinstance(v, Ptr):
        t = it.read(st, v.obj, v.path)
        if isinstance(t, Agg) and t.kind == 'array':
            return Slice(v.obj, v.path, usz(0), usz(len(t.fields)), v.mut)
        if isinstance(t, Buf):
            return Slice(v.obj, v.path, usz(0), t.len, v.mut)
        if isinstance(t, Opaque) and t.kind == 'slice_place':
            return t.f['sl']
    if isinstance(v, Opaque) and v.kind == 'constptr':
        t = v.f['v']
        if isinstance(t, Agg) and t.kind == 'array':
            o = st.alloc(t)
            return Slice(o, (), usz(0), usz(len(t.fields)), False)
    raise Unsupported(f"expected slice, got {v!r}")

@model('core::slice::<impl [T]>::len', doc='slice length')
def m_slice_len(it, st, callee, args, dest_tid, site):
    return [(st, as_slice(it, st, args[0]).len)]

@model('core::slice::<impl [T]>::get_unchecked', 'core::slice::<impl [T]>::get_unchecked_mut',
       doc='UNSAFE unchecked indexing; idx < len recorded as obligation O-slice')
def m_get_unchecked(it, st, callee, args, dest_tid, site):
    sl = as_slice(it, st, args[0])
    idx = args[1]
    if isinstance(idx, Agg) and it.ty(idx.tid)['def'].split('<')[0].split('::')[-1] == 'Range' and all(isinstance(z, E) for z in idx.fields):
        # UNSAFE unchecked sub-slice s.get_unchecked(a..b): the precondition a <= b <= len is recorded as two O-slice
        # obligations in the `idx < len` form the unsafe-operation check discharges:  b < len + 1  and  a < b + 1
        a, b = idx.fields
        buf = it.read(st, sl.obj, sl.path)
        it.rec.unsafe_ops.append(dict(kind='get_unchecked', site=site, stack=st.stack, pc=st.pc))
        one = usz(1)
        for i_, l_ in ((b, X.binop('add', sl.len, one, wrap=False)), (a, X.binop('add', b, one, wrap=False))):
            it.rec.ob(kind='O-slice', site=site, stack=st.stack, pc=st.pc, idx=i_, len=l_, slice=sl,
                      buf=(buf.name if isinstance(buf, Buf) else 'array'), mut='mut' in callee['def'], loops=st.loops)
        ln = None
        if b.op == 'iadd' and len(b.args) == 2:
            if b.args[0] is a: ln = b.args[1]
            elif b.args[1] is a: ln = b.args[0]
        if ln is None: ln = X.binop('sub', b, a, wrap=False)
        return [(st, Slice(sl.obj, sl.path, X.binop('add', sl.start, a), ln, sl.mut))]
    if not isinstance(idx, E):
        raise Unsupported('get_unchecked with non-usize index')
    buf = it.read(st, sl.obj, sl.path)
    it.rec.unsafe_ops.append(dict(kind='get_unchecked', site=site, stack=st.stack, pc=st.pc))
    it.rec.ob(kind='O-slice', site=site, stack=st.stack, pc=st.pc, idx=idx, len=sl.len, slice=sl,
              buf=(buf.name if isinstance(buf, Buf) else 'array'), mut='mut' in callee['def'], loops=st.loops)
    return [(st, Ptr(sl.obj, sl.path + (('slice', sl), ('i', idx)), sl.mut))]

@model('core::slice::<impl [T]>::iter', 'core::slice::<impl [T]>::iter_mut',
       "core::slice::iter::<impl std::iter::IntoIterator for &'a mut [T]>::into_iter",
       "core::slice::iter::<impl std::iter::IntoIterator for &'a [T]>::into_iter",
       doc='slice iterator: yields references to elements 0..len in order')
def m_slice_iter(it, st, callee, args, dest_tid, site):
    sl = as_slice(it, st, args[0])
    return [(st, Opaque('slice_iter', sl=sl, pos=usz(0)))]

@model('core::slice::<impl [T]>::split_first_mut', 'core::slice::<impl [T]>::split_first',
       doc='Some((&s[0], &s[1..])) when non-empty, else None')
def m_split_first(it, st, callee, args, dest_tid, site):
    sl = as_slice(it, st, args[0])
    if not sl.len.is_const:
        raise Unsupported('split_first on symbolic-length slice')
    if sl.len.val == 0:
        return [(st, none(it, dest_tid))]
    t = it.ty(dest_tid)
    tup_tid = t['variants'][variant_index(it, dest_tid, 'Some')]['fields'][0]['ty']
    first = Ptr(sl.obj, sl.path + (('slice', sl), ('i', usz(0))), sl.mut)
    rest = Slice(sl.obj, sl.path, X.binop('add', sl.start, usz(1)), usz(sl.len.val - 1), sl.mut)
    return [(st, some(it, dest_tid, Agg('tuple', tup_tid, [first, rest])))]

@model('core::slice::index::<impl std::ops::Index<I> for [T]>::index', 'core::slice::index::<impl std::ops::IndexMut<I> for [T]>::index_mut',
       doc='safe range indexing s[a..]: panics (never UB) when a > len; result is the tail slice')
def m_slice_index(it, st, callee, args, dest_tid, site):
    return range_index(it, st, as_slice(it, st, args[0]), args[1], site)

def range_index(it, st, sl, r, site):
    """safe indexing of a slice by a range: s[a..], s[a..b], s[..b]: panics (never UB) when out of order / out of range"""
    rt = it.ty(r.tid) if isinstance(r, Agg) else None
    nm = rt['def'].split('<')[0].split('::')[-1] if rt is not None else ''
    if nm == 'Range' or nm == 'RangeTo':
        a, b = (r.fields[0], r.fields[1]) if nm == 'Range' else (usz(0), r.fields[0])
        if not (isinstance(a, E) and isinstance(b, E)): raise Unsupported(f"slice index by {r!r}")
        for ok, msg in ((X.binop('le', a, b), 'slice index starts after its end'), (X.binop('le', b, sl.len), 'range end index out of range')):
            dec = it.decide(st, ok)
            if dec is not True:
                it.rec.panic(kind='slice-index', msg=msg, fn=site[0], ln=site[1], pc=st.pc, stack=st.stack, cond=ok, definite=(dec is False))
                if dec is False:
                    raise PathEnd('panic')
                st.assume(ok); st.nopanic = st.nopanic | frozenset((ok.id,))
        ln = None
        if b.op == 'iadd' and len(b.args) == 2:               # (a + c) - a = c   (row slices `&v[start..start + w]`)
            if b.args[0] is a: ln = b.args[1]
            elif b.args[1] is a: ln = b.args[0]
        if ln is None: ln = X.binop('sub', b, a, wrap=False)
        return [(st, Slice(sl.obj, sl.path, X.binop('add', sl.start, a), ln, sl.mut))]
    if rt is None or nm != 'RangeFrom':
        raise Unsupported(f"slice index by {r!r}")
    a = r.fields[0]
    ok = X.binop('le', a, sl.len)
    dec = it.decide(st, ok)
    if dec is not True:
        it.rec.panic(kind='slice-index', msg='range start index out of range', fn=site[0], ln=site[1], pc=st.pc,
                     stack=st.stack, cond=ok, definite=(dec is False))
        if dec is False:
            raise PathEnd('panic')
        st.assume(ok); st.nopanic = st.nopanic | frozenset((ok.id,))
    return [(st, Slice(sl.obj, sl.path, X.binop('add', sl.start, a), X.binop('sub', sl.len, a, wrap=False), sl.mut))]

@model('<std::vec::Vec<T, A> as std::ops::Index<I>>::index', '<std::vec::Vec<T, A> as std::ops::IndexMut<I>>::index_mut',
       doc='safe element indexing v[i] on a Vec: panics (never UB) when i >= len; result is a reference to element i')
def m_vec_index(it, st, callee, args, dest_tid, site):
    v = vec_of(it, st, args[0])
    sl = Slice(v.f['buf'], (), usz(0), st.heap[v.f['buf']].len, 'mut' in callee.get('def', ''))
    idx = args[1]
    if isinstance(idx, Agg):
        return range_index(it, st, sl, idx, site)          # v[a..b]: the sub-slice of the whole-buffer slice
    if not (isinstance(idx, E) and idx.ty == X.USIZE):
        raise Unsupported(f"Vec index by {idx!r}")
    ok = X.binop('lt', idx, sl.len)
    dec = it.decide(st, ok)
    if dec is not True:
        it.rec.panic(kind='slice-index', msg='index out of bounds', fn=site[0], ln=site[1], pc=st.pc,
                     stack=st.stack, cond=ok, definite=(dec is False))
        if dec is False:
            raise PathEnd('panic')
        st.assume(ok); st.nopanic = st.nopanic | frozenset((ok.id,))
    return [(st, Ptr(sl.obj, sl.path + (('slice', sl), ('i', idx)), sl.mut))]

# ------------------------------------------------------------- aligned_vec / v_frame
@model('std::iter::repeat', doc='infinite iterator of clones of x')
def m_repeat(it, st, callee, args, dest_tid, site):
    return [(st, Opaque('repeat', x=args[0]))]

@model('std::iter::Iterator::take', doc='first n items')
def m_take(it, st, callee, args, dest_tid, site):
    return [(st, Opaque('take', inner=args[0], n=args[1]))]

@model('aligned_vec::AVec::<T, A>::from_iter', doc='aligned vector collecting the iterator: length = item count, contents = items in order')
def m_avec_from_iter(it, st, callee, args, dest_tid, site):
    src = args[1]
    if isinstance(src, Opaque) and src.kind == 'take' and isinstance(src.f['inner'], Opaque) and src.f['inner'].kind == 'repeat':
        n = src.f['n']
        o = st.alloc(Buf(callee['targs'][0], n, src.f['inner'].f['x'], f"plane@{site[1]}"))
        it.rec.events.append(dict(ev='alloc', obj=o, len=n, site=site, pc=st.pc))
        return [(st, Opaque('avec', buf=o))]
    raise Unsupported('AVec::from_iter of unrecognised iterator')

@model('aligned_vec::AVec::<T, A>::into_boxed_slice', doc='same buffer as a boxed slice')
def m_avec_into_box(it, st, callee, args, dest_tid, site):
    return [(st, Opaque('abox', buf=args[0].f['buf']))]

@model('<aligned_vec::ABox<T, A> as std::convert::AsRef<T>>::as_ref', '<aligned_vec::ABox<T, A> as std::convert::AsMut<T>>::as_mut',
       '<aligned_vec::ABox<T, A> as std::ops::Deref>::deref', '<aligned_vec::ABox<T, A> as std::ops::DerefMut>::deref_mut',
       doc='whole-buffer slice of the boxed slice')
def m_abox_as_ref(it, st, callee, args, dest_tid, site):
    v = deref(it, st, args[0])
    if not (isinstance(v, Opaque) and v.kind == 'abox'):
        raise Unsupported(f"ABox expected, got {v!r}")
    b = st.heap[v.f['buf']]
    return [(st, Slice(v.f['buf'], (), usz(0), b.len, 'mut' in callee['def']))]

# ------------------------------------------------------------------------ iterators
def iter_describe(it, st, v):
    """Describe an iterator value: trip count n (E) and element function elem(st, k)."""
    if isinstance(v, Opaque):
        k = v.kind
        if k in ('iter_mid', 'iter_done'):
            return v.f['desc']
        if k == 'slice_iter':
            sl, pos = v.f['sl'], v.f['pos']
            n = X.binop('sub', sl.len, pos, wrap=False) if not (pos.is_const and pos.val == 0) else sl.len
            def elem(st2, kk, sl=sl, pos=pos):
                return Ptr(sl.obj, sl.path + (('slice', sl), ('i', X.binop('add', pos, kk))), sl.mut)
            return dict(kind='slice', n=n, elem=elem, sl=sl)
        if k == 'zip':
            da, db = iter_describe(it, st, v.f['a']), iter_describe(it, st, v.f['b'])
            if da is None or db is None:
                return None
            na, nb = da['n'], db['n']
            if na is nb: n = na
            elif na.is_const and nb.is_const: n = usz(min(na.val, nb.val))
            else: n = X.node('imin', (na, nb), X.USIZE)
            tid = v.f['item_tid']
            def elem(st2, kk, da=da, db=db, tid=tid):
                return Agg('tuple', tid, [da['elem'](st2, kk), db['elem'](st2, kk)])
            return dict(kind='zip', n=n, elem=elem, parts=(da, db))
        if k == 'take':
            inner = v.f['inner']
            if isinstance(inner, Opaque) and inner.kind == 'repeat':
                x = inner.f['x']
                return dict(kind='repeat', n=v.f['n'], elem=lambda st2, kk, x=x: x)
        if k == 'map':
            d = iter_describe(it, st, v.f['inner'])
            return None if d is None else dict(kind='map', n=d['n'], inner=d, f=v.f['f'], elem=None)
        if k == 'array_into':
            elems, pos = v.f['elems'], v.f['pos']
            def elem(st2, kk, elems=elems, pos=pos):
                if not kk.is_const:
                    raise Unsupported('symbolic index into a by-value array iterator')
                return elems[pos + kk.val]
            return dict(kind='array_into', n=usz(len(elems) - pos), elem=elem)
        if k == 'vec_into':
            o, pos = v.f['buf'], v.f['pos']
            b = st.heap[o]
            n = X.binop('sub', b.len, pos, wrap=False) if not (pos.is_const and pos.val == 0) else b.len
            def elem(st2, kk, o=o, pos=pos):
                return it.read(st2, o, (('i', X.binop('add', pos, kk)),))
            return dict(kind='vec_into', n=n, elem=elem)
        if k == 'enumerate':
            d = iter_describe(it, st, v.f['inner'])
            if d is None or d.get('elem') is None:
                return None
            c0 = v.f['count']
            def elem(st2, kk, d=d, c0=c0):
                return Agg('tuple', None, [X.binop('add', c0, kk, wrap=False), d['elem'](st2, kk)])
            return dict(kind='enumerate', n=d['n'], elem=elem, inner=d)
        if k == 'copied':
            d = iter_describe(it, st, v.f['inner'])
            if d is None or d.get('elem') is None:
                return None
            return dict(kind='copied', n=d['n'], elem=lambda st2, kk, d=d: deref(it, st2, d['elem'](st2, kk)), inner=d)
        if k == 'chunks':
            sl, n_, pos = v.f['sl'], v.f['n'], v.f['pos']
            total = sl.len
            cnt = None
            if total.op == 'imul' and (total.args[0] is n_ or total.args[1] is n_):
                cnt = total.args[1] if total.args[0] is n_ else total.args[0]          # (a * n) / n = a  (n != 0 is asserted by the model)
            elif total.is_const and n_.is_const and n_.val > 0:
                cnt = usz(total.val // n_.val)
            else:
                cnt = X.binop('div', total, n_)
            n = X.binop('sub', cnt, pos, wrap=False) if not (pos.is_const and pos.val == 0) else cnt
            def elem(st2, kk, sl=sl, n_=n_, pos=pos):
                idx = X.binop('add', pos, kk, wrap=False) if not (pos.is_const and pos.val == 0) else kk
                return Slice(sl.obj, sl.path, X.binop('add', sl.start, X.binop('mul', idx, n_, wrap=False), wrap=False), n_, sl.mut, sl.flat, sl.origin)
            return dict(kind='chunks', n=n, elem=elem)
        return None
    if isinstance(v, Agg) and v.kind == 'struct':
        t = it.ty(v.tid)
        d = t.get('def', '')
        if d == 'std::ops::Range':
            a, b = v.fields
            if a.is_const and a.val == 0:
                n = b
            elif a.is_const and b.is_const:
                n = usz(max(0, b.val - a.val))
            else:
                n = X.node('imax', (X.binop('sub', b, a, wrap=False), X.const(a.ty, 0)), a.ty)
            return dict(kind='range', n=n, elem=lambda st2, kk, a=a: X.binop('add', a, kk, wrap=False), start=a, end=b)
        if d == 'v_frame::plane::PlaneIter':
            # struct PlaneIter { plane: &Plane<T>, y, x }: yields plane.p(x, y) row-major over
            # 0..height x 0..width (read from v_frame 0.3.9 plane.rs:613-650); fresh iterators only.
            plane_ref, y, x = v.fields
            if not (y.is_const and y.val == 0 and x.is_const and x.val == 0):
                return None
            plane = deref(it, st, plane_ref)
            cfg = plane.fields[1]
            names = [f['name'] for f in it.ty(cfg.tid)['variants'][0]['fields']]
            w = cfg.fields[names.index('width')]
            h = cfg.fields[names.index('height')]
            d = dict(kind='plane_iter', n=X.binop('mul', w, h, wrap=False), w=w, h=h, plane=plane_ref, elem=None)
            def elem(st2, kk, d=d, plane_ref=plane_ref, w=w, h=h):
                # the k-th item is plane.p(x, y) for some in-range (x, y): a generic in-range position stands for it
                x = X.fresh(X.USIZE, 'px', 0, None); y = X.fresh(X.USIZE, 'py', 0, None)
                st2.assume(X.binop('lt', x, w)); st2.assume(X.binop('lt', y, h))
                pkey = None
                want = it.ty(d_plane_elem(it, st2, d))['s']
                for key, fn in it.crate.fns.items():
                    if fn['def'] == 'v_frame::plane::Plane::<T>::p' and fn['targs'] and it.ty(fn['targs'][0])['s'] == want:
                        pkey = key
                if pkey is None:
                    raise Unsupported('Plane::p body not available')
                outs = it.call_fn(st2, pkey, [plane_ref, x, y])
                if len(outs) != 1 or outs[0][0] is not st2:
                    raise Unsupported('Plane::p with several outcomes')
                sample = outs[0][1]
                d['last'] = dict(x=x, y=y, sample=sample, w=w, h=h, plane=plane_ref)
                d['last_pc_len'] = len(st2.pc)
                return sample                      # PlaneIter yields the samples by value
            d['elem'] = elem
            return d
    return None

@model('std::iter::Iterator::zip', doc='lock-step pairs; length = min of both')
def m_zip(it, st, callee, args, dest_tid, site):
    # Item type of Zip<A,B> = (A::Item, B::Item): taken from the element pointers when needed
    b = args[1]
    if isinstance(b, Slice) or isinstance(b, Ptr):
        b = Opaque('slice_iter', sl=as_slice(it, st, b), pos=usz(0))
    elif isinstance(b, Agg) and b.kind == 'array':
        b = Opaque('array_into', elems=tuple(b.fields), pos=0)           # IntoIterator for [T; N] by value
    return [(st, Opaque('zip', a=args[0], b=b, item_tid=None))]

@model('std::iter::Iterator::map', doc='lazy map adapter')
def m_map(it, st, callee, args, dest_tid, site):
    return [(st, Opaque('map', inner=args[0], f=args[1]))]

@model('std::iter::Iterator::next', doc='iterator step: concrete iterators advance; summarised loops yield element k / None by mode')
def m_next(it, st, callee, args, dest_tid, site):
    p = args[0]
    if not isinstance(p, Ptr):
        raise Unsupported('next on non-reference')
    v = it.read(st, p.obj, p.path)
    if isinstance(v, Opaque) and v.kind == 'iter_mid':
        if v.f['yielded']:
            raise Unsupported('iterator advanced twice in one summarised iteration')
        d = v.f['desc']
        if d.get('elem') is None:
            raise Unsupported(f"summarised iteration over {d['kind']}")
        it.write(st, p.obj, p.path, v.replace(yielded=True))
        return [(st, some(it, dest_tid, fix_item(it, dest_tid, d['elem'](st, v.f['k']))))]
    if isinstance(v, Opaque) and v.kind == 'iter_done':
        return [(st, none(it, dest_tid))]
    # concrete stepping
    d = iter_describe(it, st, v)
    if d is None or not d['n'].is_const:
        raise Unsupported(f"iterator {v!r} advanced outside a recognised loop")
    if d['n'].val == 0:
        return [(st, none(it, dest_tid))]
    item = fix_item(it, dest_tid, d['elem'](st, usz(0)))
    it.write(st, p.obj, p.path, advance(it, st, v))
    return [(st, some(it, dest_tid, item))]

def fix_item(it, opt_tid, item):
    """Give tuple items produced by zip their proper type id (from Option<Item>)."""
    if isinstance(item, Agg) and item.kind == 'tuple' and item.tid is None:
        t = it.ty(opt_tid)
        tid = t['variants'][variant_index(it, opt_tid, 'Some')]['fields'][0]['ty']
        tt = it.ty(tid)
        fields = []
        for f, ft in zip(item.fields, tt['elems']):
            if isinstance(f, Agg) and f.kind == 'tuple' and f.tid is None:
                f = Agg('tuple', ft, f.fields)
            fields.append(f)
        return Agg('tuple', tid, fields)
    return item

def advance(it, st, v):
    if isinstance(v, Opaque):
        if v.kind == 'slice_iter':
            return v.replace(pos=X.binop('add', v.f['pos'], usz(1)))
        if v.kind == 'zip':
            return v.replace(a=advance(it, st, v.f['a']), b=advance(it, st, v.f['b']))
        if v.kind == 'take':
            return v.replace(n=X.binop('sub', v.f['n'], usz(1)))
        if v.kind in ('vec_into', 'chunks'):
            return v.replace(pos=X.binop('add', v.f['pos'], usz(1)))
        if v.kind == 'array_into':
            return v.replace(pos=v.f['pos'] + 1)
        if v.kind == 'enumerate':
            return v.replace(inner=advance(it, st, v.f['inner']), count=X.binop('add', v.f['count'], usz(1)))
        if v.kind == 'copied':
            return v.replace(inner=advance(it, st, v.f['inner']))
    if isinstance(v, Agg) and it.ty(v.tid).get('def') == 'std::ops::Range':
        return v.with_field(0, X.binop('add', v.fields[0], X.const(v.fields[0].ty, 1)))
    raise Unsupported(f"cannot advance {v!r}")

def call_closure(it, st, f, args_tuple):
    """Invoke a closure / fn item value on an argument list; returns [(state, value)]."""
    if isinstance(f, FnVal):
        return it.invoke(st, f.callee, list(args_tuple), None, ('closure', 0))
    if isinstance(f, Agg) and f.kind == 'closure':
        t = it.ty(f.tid)
        key = t.get('body_key')
        if key in it.crate.fns:
            return it.call_fn(st, key, [f] + list(args_tuple))
        # FnMut closures take &mut self
        raise Unsupported(f"closure body {key} not dumped")
    raise Unsupported(f"call of {f!r}")

def closure_self(it, st, f, key):
    """Closure bodies take self by value (FnOnce), &self (Fn) or &mut self (FnMut)."""
    fn = it.crate.fns[key]
    t0 = it.ty(fn['locals'][1])
    if t0['k'] == 'ref':
        o = st.alloc(f)
        return Ptr(o, (), t0.get('mut', False))
    return f

def call_closure_any(it, st, f, args_list):
    if isinstance(f, Agg) and f.kind == 'closure':
        key = it.ty(f.tid).get('body_key')
        if key not in it.crate.fns:
            raise Unsupported(f"closure body {key} not dumped")
        return it.call_fn(st, key, [closure_self(it, st, f, key)] + list(args_list))
    return call_closure(it, st, f, args_list)

@model('std::iter::Iterator::collect', doc='collect a mapped slice iterator into a Vec: out[k] = f(in[k]), len preserved')
def m_collect(it, st, callee, args, dest_tid, site):
    from .interp import LoopRec
    src = args[0]
    d = iter_describe(it, st, src)
    if d is None or d['kind'] != 'map' or d['inner'].get('elem') is None:
        raise Unsupported(f"collect of {src!r}")
    n = d['n']
    k = X.fresh(X.USIZE, 'k', 0, None, loop='collect')
    rec = LoopRec(('collect', site), None, site[0])
    rec.qvar = (k, usz(0), n)
    from .resolve import register_range
    register_range(k, usz(0), n)
    rec.iter_desc = d
    rec.pre_pc_len = len(st.pc)
    it.rec.loops.append(rec)
    body = st.clone()
    body.assume(X.binop('lt', k, n))
    body.loops = body.loops + (rec,)
    base_len = len(body.pc)
    pre_objs = dict(body.heap)
    outs = call_closure_any(it, body, d['f'], [d['inner']['elem'](body, k)])
    if len(outs) != 1:
        # several control paths through the closure: one value whose scalars are select-trees over the branch
        # conditions (only if the paths differ in nothing but their conditions and the returned value)
        from .interp import merge_by_conditions
        for s_, _ in outs:
            # objects that existed before the call must be untouched on every path (temporaries of the callee are garbage)
            if any(s_.heap.get(o, it) is not v_ for o, v_ in pre_objs.items()):
                raise Unsupported('map closure with several outcomes that differ in their effects')
        mv = merge_by_conditions([(list(s_.pc[base_len:]), v_) for s_, v_ in outs]) if outs else None
        if mv is None:
            raise Unsupported('map closure with several outcomes')
        common = [c for c in outs[0][0].pc[base_len:] if all(c in s_.pc[base_len:] for s_, _ in outs[1:])]
        s2 = outs[0][0].clone()
        s2.pc = s2.pc[:base_len] + tuple(common)
        val = mv
    else:
        s2, val = outs[0]
    rec.paths = 1
    # element type of the resulting Vec
    vt = it.ty(dest_tid)
    elem_tid = vt['args'][0] if vt.get('args') else None
    o = st.alloc(None)
    store = Store(k, val, s2.pc[rec.pre_pc_len:], (rec.qvar,), 0, st.pc, site)
    st.heap[o] = Buf(elem_tid, n, None, f"collect@{site[0].split('::')[-1]}:{site[1]}", (store,))
    rec.stores.append((o, store))
    return [(st, Opaque('vec', buf=o))]

@model("<std::slice::Iter<'a, T> as std::iter::Iterator>::any", 'std::iter::Iterator::any',
       doc='exists-quantifier over the items; small constant-length sources are unrolled, plane iterators give a symbolic exists-predicate')
def m_any(it, st, callee, args, dest_tid, site):
    p, f = args
    v = it.read(st, p.obj, p.path) if isinstance(p, Ptr) else p
    d = iter_describe(it, st, v)
    if d is None:
        raise Unsupported(f"any over {v!r}")
    if d['n'].is_const and d['n'].val <= 8 and d.get('elem'):
        # unrolled: short-circuit OR, forking on symbolic outcomes
        states = [(st, X.cbool(False))]
        for i in range(d['n'].val):
            nxt = []
            for s, acc in states:
                if acc.is_const and acc.val:
                    nxt.append((s, acc)); continue
                outs = call_closure_any(it, s, f, [d['elem'](s, usz(i))])
                for s2, r in outs:
                    nxt.append((s2, X.binop('or', acc, r)))
            states = nxt
        return states
    if d['kind'] == 'plane_iter':
        return [(st, plane_exists(it, st, d, f, site, negate=False))]
    raise Unsupported(f"any over symbolic-length {d['kind']}")

def plane_exists(it, st, d, f, site, negate):
        """the fresh boolean  exists (x,y) in [0,w) x [0,h): pred(plane.p(x,y))  (pred = !f when negate: `all(f)` is its negation)"""
        # p() is interpreted from MIR for a symbolic in-range position so that its (safe) bounds check is recorded.
        w, h = d['w'], d['h']
        x = X.fresh(X.USIZE, 'px', 0, None)
        y = X.fresh(X.USIZE, 'py', 0, None)
        body = st.clone()
        body.assume(X.binop('lt', x, w)); body.assume(X.binop('lt', y, h))
        pkey = None
        for key, fn in it.crate.fns.items():
            if fn['def'] == 'v_frame::plane::Plane::<T>::p' and fn['targs'] and it.ty(fn['targs'][0])['s'] == it.ty(d_plane_elem(it, st, d))['s']:
                pkey = key
        if pkey is None:
            raise Unsupported('Plane::p body not available')
        outs = it.call_fn(body, pkey, [d['plane'], x, y])
        if len(outs) != 1:
            raise Unsupported('Plane::p with several outcomes')
        s2, sample = outs[0]
        outs2 = call_closure_any(it, s2, f, [sample])
        if len(outs2) != 1:
            raise Unsupported('any-predicate with several outcomes')
        pred = outs2[0][1]
        if negate: pred = X.unop('not', pred)
        res = X.fresh(X.TB, 'exists')
        it.rec.events.append(dict(ev='exists', sym=res, pred=pred, sample=sample, x=x, y=y, w=w, h=h, plane=d['plane'], site=site,
                                  pc=s2.pc[len(st.pc):]))
        # the width==0 corner of PlaneIter::next (width()-1) is a panic, not UB
        return res

def d_plane_elem(it, st, d):
    plane = deref(it, st, d['plane'])
    return it.ty(plane.tid)['args'][0]

class Models:
    lookup = staticmethod(lookup)
    opaque_field = staticmethod(opaque_field)
    iter_describe = staticmethod(iter_describe)

@model('<T as std::convert::From<T>>::from', doc='reflexive From on identical types: identity')
def m_from_id(it, st, callee, args, dest_tid, site):
    return [(st, args[0])]

@model("std::array::<impl std::iter::IntoIterator for &'a mut [T; N]>::into_iter", "std::array::<impl std::iter::IntoIterator for &'a [T; N]>::into_iter",
       "std::array::<impl [T; N]>::iter", "std::array::<impl [T; N]>::iter_mut",
       doc='iterator over the N elements of an array reference, in order')
def m_array_into_iter(it, st, callee, args, dest_tid, site):
    return [(st, Opaque('slice_iter', sl=as_slice(it, st, args[0]), pos=usz(0)))]

@model("<std::slice::Iter<'a, T> as std::iter::Iterator>::all", 'std::iter::Iterator::all',
       doc='forall-quantifier over the items of a small constant-length source (unrolled, short-circuit)')
def m_all(it, st, callee, args, dest_tid, site):
    p, f = args
    v = it.read(st, p.obj, p.path) if isinstance(p, Ptr) else p
    d = iter_describe(it, st, v)
    if d is not None and d.get('kind') == 'plane_iter':
        # all(f) over the samples of a plane = not exists a sample with !f (the same abstraction `any` uses)
        return [(st, X.unop('not', plane_exists(it, st, d, f, site, negate=True)))]
    if d is None or not (d['n'].is_const and d['n'].val <= 8 and d.get('elem')):
        raise Unsupported(f"all over {v!r}")
    states = [(st, X.cbool(True))]
    for i in range(d['n'].val):
        nxt = []
        for s, acc in states:
            if acc.is_const and not acc.val:
                nxt.append((s, acc)); continue
            for s2, r in call_closure_any(it, s, f, [d['elem'](s, usz(i))]):
                nxt.append((s2, X.binop('and', acc, r)))
        states = nxt
    return states

def _checked(op):
    def m(it, st, callee, args, dest_tid, site):
        a, b = args
        v, ovf = it.int_arith(st, op, a, b, a.ty, True)
        dec = it.decide(st, X.unop('not', ovf))
        if dec is True:
            return [(st, some(it, dest_tid, v))]
        if dec is False:
            return [(st, none(it, dest_tid))]
        s2 = st.clone()
        out = []
        try:
            st.assume(X.unop('not', ovf)); out.append((st, some(it, dest_tid, v)))
        except PathEnd:
            pass
        try:
            s2.assume(ovf); out.append((s2, none(it, dest_tid)))
        except PathEnd:
            pass
        return out
    return m
for _t in ('usize', 'u32', 'u64', 'u16', 'u8', 'i32', 'i64', 'isize'):
    for _op in ('add', 'sub', 'mul'):
        _EXACT[f'core::num::<impl {_t}>::checked_{_op}'] = _checked(_op)
        MODEL_DOC[f'core::num::<impl {_t}>::checked_{_op}'] = 'checked integer arithmetic: Some(result) unless the mathematical result leaves the type'

@model('core::f32::<impl f32>::is_nan', 'core::f64::<impl f64>::is_nan', doc='x != x')
def m_is_nan(it, st, callee, args, dest_tid, site):
    return [(st, X.binop('ne', args[0], args[0]))]

@model('core::f32::<impl f32>::is_finite', 'core::f64::<impl f64>::is_finite', doc='|x| < inf (false for NaN)')
def m_is_finite(it, st, callee, args, dest_tid, site):
    import math
    return [(st, X.binop('lt', X.fcall('abs', [args[0]]), X.const(args[0].ty, math.inf)))]

@model('core::f32::<impl f32>::is_normal', 'core::f64::<impl f64>::is_normal', doc='MIN_POSITIVE <= |x| < inf (false for NaN, zero, subnormals)')
def m_is_normal(it, st, callee, args, dest_tid, site):
    import math
    ty = args[0].ty
    a = X.fcall('abs', [args[0]])
    tiny = 2.0 ** -126 if ty[1] == 32 else 2.0 ** -1022
    return [(st, X.binop('and', X.binop('ge', a, X.const(ty, tiny)), X.binop('lt', a, X.const(ty, math.inf))))]

@model('core::f32::<impl f32>::is_infinite', 'core::f64::<impl f64>::is_infinite', doc='|x| == inf')
def m_is_infinite(it, st, callee, args, dest_tid, site):
    import math
    return [(st, X.binop('eq', X.fcall('abs', [args[0]]), X.const(args[0].ty, math.inf)))]

@model('core::f32::<impl f32>::is_sign_negative', 'core::f32::<impl f32>::is_sign_positive', doc='sign bit test')
def m_sign(it, st, callee, args, dest_tid, site):
    b = X.cast('bits', args[0], X.U32)
    neg = X.binop('ne', X.node('iand', (b, X.const(X.U32, 0x80000000)), X.U32) if not b.is_const else X.binop('and', b, X.const(X.U32, 0x80000000)), X.const(X.U32, 0))
    return [(st, neg if callee['def'].endswith('negative') else X.unop('not', neg))]

@model('std::f32::<impl f32>::fract', 'core::f32::<impl f32>::fract', 'std::f64::<impl f64>::fract', doc='x - trunc(x) (std documentation)')
def m_fract(it, st, callee, args, dest_tid, site):
    return [(st, X.binop('sub', args[0], X.fcall('trunc', [args[0]])))]

# ---- internal iteration: for_each / array::map (behave as the corresponding `for` loop)

def _iterate_closure(it, st, d, f, site, tag, collect_value=False):
    """run closure f over the items of the described iterator.  Small constant trip counts are
    unrolled; otherwise one symbolic iteration is summarised exactly like a `for` loop
    (Interp.enter_loop): quantified store summaries, no loop-carried state allowed."""
    from .interp import LoopRec, MAX_UNROLL
    from .resolve import register_range
    if d is None or d.get('elem') is None:
        raise Unsupported(f"{tag} over an iterator that is not element-addressable")
    n = d['n']
    if n.is_const and n.val <= MAX_UNROLL:
        states = [(st, [])]
        for i in range(n.val):
            nxt = []
            for s, vals in states:
                for s2, v in call_closure_any(it, s, f, [d['elem'](s, usz(i))]):
                    nxt.append((s2, vals + [v]))
            states = nxt
            if len(states) > 64:
                raise Unsupported(f"{tag}: too many paths")
        return states, None
    if collect_value:
        raise Unsupported(f"{tag} with a symbolic trip count")
    rec = LoopRec((tag, site), None, site[0])
    rec.iter_desc = d
    it.rec.loops.append(rec)
    k = X.fresh(X.USIZE, 'k', 0, None, loop=tag)
    rec.qvar = (k, usz(0), n)
    register_range(k, usz(0), n)
    body = st.clone()
    body.assume(X.binop('lt', k, n))
    body.loops = body.loops + (rec,)
    rec.pre_pc_len = len(st.pc)
    for o, v in body.heap.items():
        if isinstance(v, Buf):
            rec.marks[o] = len(v.stores)
    start_heap = dict(body.heap)
    outs = call_closure_any(it, body, f, [d['elem'](body, k)])
    collected = []
    for s, _v in outs:
        rec.paths += 1
        for o, v in s.heap.items():
            if isinstance(v, Buf):
                if o in rec.marks:
                    for stv in v.stores[rec.marks[o]:]:
                        collected.append((o, stv, s.pc))
            elif o in start_heap and v is not start_heap[o] and o in st.heap:
                # a captured variable changed: loop-carried state, which a single symbolic iteration cannot summarise
                raise Unsupported(f"{tag}: the closure mutates captured state (obj{o})")
    ex = st.clone()
    it.summarise_stores(rec, st, ex, collected, {s.pc: s.nopanic for s, _v in outs})
    it.check_interference(rec, ex)
    if rec.paths == 0:
        ex.assume(X.binop('eq', n, X.const(n.ty, 0)))
    return None, ex

@model("<std::slice::IterMut<'a, T> as std::iter::Iterator>::for_each", "<std::slice::Iter<'a, T> as std::iter::Iterator>::for_each", 'std::iter::Iterator::for_each',
       doc='internal iteration: f(item) for every item in order - the `for` loop over the same iterator')
def m_for_each(it, st, callee, args, dest_tid, site):
    src, f = args[0], args[1]
    d = iter_describe(it, st, src)
    if d is not None and d.get('kind') == 'map':
        raise Unsupported('for_each over a map adapter')
    states, ex = _iterate_closure(it, st, d, f, site, 'for_each')
    if ex is not None:
        return [(ex, unit(dest_tid))]
    return [(s, unit(dest_tid)) for s, _ in states]

@model('std::array::<impl [T; N]>::map', doc='[f(a[0]), ..., f(a[N-1])] in index order (N is a small constant: unrolled)')
def m_array_map(it, st, callee, args, dest_tid, site):
    arr, f = args[0], args[1]
    if not (isinstance(arr, Agg) and arr.kind == 'array'):
        raise Unsupported(f"array::map of {arr!r}")
    elems = list(arr.fields)
    states = [(st, [])]
    for e in elems:
        nxt = []
        for s, vals in states:
            for s2, v in call_closure_any(it, s, f, [e]):
                nxt.append((s2, vals + [v]))
        states = nxt
        if len(states) > 64:
            raise Unsupported('array::map: too many paths')
    return [(s, Agg('array', dest_tid, vals)) for s, vals in states]

def _checked_divrem(op):
    """checked_div / checked_rem on unsigned integers: None iff the divisor is zero"""
    def m(it, st, callee, args, dest_tid, site):
        a, b = args
        zero = X.binop('eq', b, X.const(b.ty, 0))
        val = X.binop(op, a, b, wrap=False) if not (b.is_const and b.val == 0) else None
        dec = it.decide(st, zero)
        if dec is True:
            return [(st, none(it, dest_tid))]
        if dec is False:
            return [(st, some(it, dest_tid, val))]
        s2 = st.clone()
        out = []
        try:
            st.assume(X.unop('not', zero)); out.append((st, some(it, dest_tid, val)))
        except PathEnd:
            pass
        try:
            s2.assume(zero); out.append((s2, none(it, dest_tid)))
        except PathEnd:
            pass
        return out
    return m
for _t in ('usize', 'u32', 'u64', 'u16', 'u8'):
    for _op, _nm in (('div', 'checked_div'), ('rem', 'checked_rem')):
        _EXACT[f'core::num::<impl {_t}>::{_nm}'] = _checked_divrem(_op)
        MODEL_DOC[f'core::num::<impl {_t}>::{_nm}'] = 'checked unsigned division / remainder: None iff the divisor is zero'

@model('std::vec::Vec::<T, A>::is_empty', doc='len() == 0')
def m_vec_is_empty(it, st, callee, args, dest_tid, site):
    v = vec_of(it, st, args[0])
    return [(st, X.binop('eq', st.heap[v.f['buf']].len, usz(0)))]

@model('core::slice::<impl [T]>::is_empty', doc='len() == 0')
def m_slice_is_empty(it, st, callee, args, dest_tid, site):
    return [(st, X.binop('eq', as_slice(it, st, args[0]).len, usz(0)))]


# ---- further iterator adapters (each is the documented std behaviour; items keep their order)

@model("<std::vec::Vec<T, A> as std::iter::IntoIterator>::into_iter", doc='owning iterator: yields the elements of the buffer by value, in order')
def m_vec_into_iter_owned(it, st, callee, args, dest_tid, site):
    v = vec_of(it, st, args[0])
    return [(st, Opaque('vec_into', buf=v.f['buf'], pos=usz(0)))]

@model('std::iter::Iterator::enumerate', doc='pairs (index, item), index counting from 0')
def m_enumerate(it, st, callee, args, dest_tid, site):
    return [(st, Opaque('enumerate', inner=args[0], count=usz(0)))]

@model('std::iter::Iterator::copied', 'std::iter::Iterator::cloned', doc='dereferences each item (Copy element types)')
def m_copied(it, st, callee, args, dest_tid, site):
    return [(st, Opaque('copied', inner=args[0]))]

@model('core::slice::<impl [T]>::chunks_exact', 'core::slice::<impl [T]>::chunks_exact_mut',
       doc='consecutive sub-slices of exactly n elements; the remainder (len % n elements) is NOT yielded; panics if n == 0')
def m_chunks_exact(it, st, callee, args, dest_tid, site):
    sl = as_slice(it, st, args[0])
    n = args[1]
    zero = X.binop('eq', n, usz(0))
    dec = it.decide(st, zero)
    if dec is True:
        it.rec.panic(kind='call', msg='chunk size must be non-zero (chunks_exact)', fn=site[0], ln=site[1], pc=st.pc, stack=st.stack, definite=True)
        raise PathEnd('panic')
    if dec is None:
        it.rec.panic(kind='assert', msg='chunk size must be non-zero (chunks_exact)', fn=site[0], ln=site[1], pc=st.pc, stack=st.stack,
                     cond=X.unop('not', zero), definite=False)
        st.assume(X.unop('not', zero))
    return [(st, Opaque('chunks', sl=sl, n=n, pos=usz(0)))]

def _elem_array_len(it, st, sl):
    b = st.heap.get(sl.obj)
    if isinstance(b, Buf) and not sl.path and b.elem_tid is not None:
        t = it.ty(b.elem_tid)
        if t.get('k') == 'array':
            return t['len']
    return None

@model('std::iter::Iterator::flatten', doc='flattening of a slice iterator over arrays [T; N]: the N*len scalars in order (the safe form of the from_raw_parts_mut view)')
def m_flatten(it, st, callee, args, dest_tid, site):
    v = args[0]
    if isinstance(v, Opaque) and v.kind == 'slice_iter':
        sl, pos = v.f['sl'], v.f['pos']
        n = _elem_array_len(it, st, sl)
        if n and not sl.flat and pos.is_const and pos.val == 0:
            flat = Slice(sl.obj, sl.path, X.binop('mul', sl.start, usz(n), wrap=False), X.binop('mul', sl.len, usz(n), wrap=False), sl.mut, n, sl.origin)
            return [(st, Opaque('slice_iter', sl=flat, pos=usz(0)))]
    raise Unsupported(f"flatten of {v!r}")

@model('core::bool::<impl bool>::then', doc='if self { Some(f()) } else { None }')
def m_bool_then(it, st, callee, args, dest_tid, site):
    b, f = args
    dec = it.decide(st, b) if not (isinstance(b, X.E) and b.is_const) else bool(b.val)
    out = []
    if dec is not False:
        s1 = st if dec is True else st.clone()
        try:
            if dec is None: s1.assume(b)
            for s2, v in call_closure_any(it, s1, f, []):
                out.append((s2, some(it, dest_tid, v)))
        except PathEnd:
            pass
    if dec is not True:
        try:
            if dec is None: st.assume(X.unop('not', b))
            out.append((st, none(it, dest_tid)))
        except PathEnd:
            pass
    return out

@model('core::bool::<impl bool>::then_some', doc='if self { Some(v) } else { None }')
def m_bool_then_some(it, st, callee, args, dest_tid, site):
    b, v = args
    dec = it.decide(st, b) if not (isinstance(b, X.E) and b.is_const) else bool(b.val)
    if dec is True: return [(st, some(it, dest_tid, v))]
    if dec is False: return [(st, none(it, dest_tid))]
    s1 = st.clone(); out = []
    try:
        s1.assume(b); out.append((s1, some(it, dest_tid, v)))
    except PathEnd: pass
    try:
        st.assume(X.unop('not', b)); out.append((st, none(it, dest_tid)))
    except PathEnd: pass
    return out

@model('std::array::<impl std::iter::IntoIterator for [T; N]>::into_iter', doc='by-value iterator over an array: its elements in order')
def m_array_into_iter_val(it, st, callee, args, dest_tid, site):
    a = args[0]
    if isinstance(a, Agg) and a.kind == 'array':
        return [(st, Opaque('array_into', elems=tuple(a.fields), pos=0))]
    raise Unsupported(f"into_iter of {a!r}")
