"""Folding helpers on extracted expressions: substitution of constants for atoms with
libm calls evaluated to the nearest float (assumption A-libm: within 1 ulp), and
IEEE-exact identities valid for finite operands."""
from __future__ import annotations
import math
from . import expr as X

_LIBM = {
    'libm_ln': lambda a: math.log(a[0]) if a[0] > 0 else (-math.inf if a[0] == 0 else math.nan),
    'libm_log10': lambda a: math.log10(a[0]) if a[0] > 0 else (-math.inf if a[0] == 0 else math.nan),
    'libm_log2': lambda a: math.log2(a[0]) if a[0] > 0 else (-math.inf if a[0] == 0 else math.nan),
    'libm_exp': lambda a: math.exp(a[0]) if a[0] < 700 else math.inf,
    'libm_exp2': lambda a: 2.0 ** a[0] if a[0] < 1000 else math.inf,
    'libm_powf': lambda a: _pow(a[0], a[1]),
    'libm_cbrt': lambda a: math.copysign(abs(a[0]) ** (1.0 / 3.0), a[0]),
}
def _pow(x, y):
    try:
        return math.pow(x, y)
    except (ValueError, OverflowError):
        return math.nan if x < 0 else math.inf

def fold(e, mapping=None, crate=None):
    """substitute `mapping` (atom id -> E) and fold; libm calls on constants are evaluated
    in double precision and rounded to the node's format (within 1 ulp of the true value)."""
    e = X.substitute(e, mapping or {})
    if crate is not None:
        from .apps import expand_apps
        e = expand_apps(e, crate)
    for _ in range(64):
        if e.is_const:
            return e
        m = {}
        for n in X.walk(e):
            if n.op.startswith('call:libm_') and all(a.is_const for a in n.args):
                f = _LIBM.get(n.op[5:])
                if f is not None:
                    m[n.id] = X.const(n.ty, X.fround(n.ty, f([a.val for a in n.args])))
        if not m:
            return e
        e = X.substitute(e, m)
    return e

def simplify_finite(e):
    """IEEE-exact rewrites valid when every float atom is finite:
       x - x = 0, max(x,x) = min(x,x) = x, (x + x)/2 = x (no overflow for |x| < 2^127),
       0 * x = 0, 2 * 0 = 0."""
    cache = {}
    def rec(n):
        r = cache.get(n.id)
        if r is not None:
            return r
        if not n.args or n.op in ('const', 'sym', 'load'):
            cache[n.id] = n; return n
        a = [rec(x) if isinstance(x, X.E) else x for x in n.args]
        op = n.op
        r = None
        if op == 'fsub' and a[0] is a[1]:
            r = X.const(n.ty, 0.0)
        elif op in ('call:max', 'call:min') and a[0] is a[1]:
            r = a[0]
        elif op == 'fdiv' and a[1].is_const and a[1].val == 2.0 and a[0].op == 'fadd' and a[0].args[0] is a[0].args[1]:
            r = a[0].args[0]
        elif op == 'fmul' and any(x.is_const and x.val == 0.0 for x in a):
            r = X.const(n.ty, 0.0)
        if r is None:
            r = n if all(x is y for x, y in zip(a, n.args)) else X.rebuild(op, a, n.ty)
        cache[n.id] = r
        return r
    return rec(e)
