"""Helpers to build interpreter input values from the type table."""
from __future__ import annotations
from . import expr as X
from .values import *

def find_type(crate, s):
    """Type id by exact display string."""
    idx = getattr(crate, '_tyidx', None)
    if idx is None:
        idx = {}
        for i, t in enumerate(crate.types):
            idx.setdefault(t['s'], i)
        crate._tyidx = idx
    if s not in idx:
        raise KeyError(f"type {s!r} not in fact file")
    return idx[s]

def enum_variants(crate, tid):
    return [v['name'] for v in crate.types[tid]['variants']]

def mk_enum(crate, tid, name, fields=()):
    t = crate.types[tid]
    for i, v in enumerate(t['variants']):
        if v['name'] == name:
            return EnumV(tid, i, fields)
    raise KeyError(name)

def mk_struct(crate, tid, **fields):
    t = crate.types[tid]
    vals = []
    for f in t['variants'][0]['fields']:
        if f['name'] not in fields:
            raise KeyError(f"missing field {f['name']} for {t['s']}")
        vals.append(fields[f['name']])
    return Agg('struct', tid, vals)

def field(crate, v, name):
    t = crate.types[v.tid]
    var = t['variants'][v.variant if isinstance(v, EnumV) else 0]
    for i, f in enumerate(var['fields']):
        if f['name'] == name:
            return v.fields[i]
    raise KeyError(name)

def enum_name(crate, v):
    return crate.types[v.tid]['variants'][v.variant]['name']

def scalar(crate, tid, val):
    t = crate.types[tid]
    if t['k'] == 'int': return X.const(X.TI(t['bits'], t['signed']), val)
    if t['k'] == 'bool': return X.cbool(val)
    if t['k'] == 'float': return X.const(X.TF(t['bits']), val)
    raise TypeError(t['s'])

GEOM_MAX = 1 << 28      # assumption A-geom: every dimension / stride / offset / buffer length is < 2^28

def symbolic(it, st, tid, name, overrides=None, ranges=None):
    """Caller-supplied value of type `tid`: every scalar leaf is a named symbol (named by
    its field path), enums must be given through `overrides`, owned buffers become Buf
    objects with symbolic length and unknown content."""
    overrides = overrides or {}
    if name in overrides:
        return overrides[name]
    t = it.ty(tid)
    k = t['k']
    s = it.sty(tid)
    if s is not None:
        if X.is_int(s):
            lo, hi = X.int_range(s)
            if ranges and name in ranges:
                lo, hi = ranges[name]
            elif s[1] == 64:
                lo, hi = max(lo, 0) if not s[2] else lo, min(hi, GEOM_MAX)
            return X.sym(s, name, lo, hi)
        return X.sym(s, name)
    if k == 'tuple':
        return Agg('tuple', tid, [symbolic(it, st, e, f"{name}.{i}", overrides, ranges) for i, e in enumerate(t['elems'])])
    if k == 'array':
        return Agg('array', tid, [symbolic(it, st, t['elem'], f"{name}[{i}]", overrides, ranges) for i in range(t['len'])])
    if k == 'adt':
        d = t['def']
        if d == 'aligned_vec::ABox':
            et = it.ty(t['args'][0])          # [T]
            n = X.sym(X.USIZE, f"{name}.len", 0, GEOM_MAX)
            o = st.alloc(Buf(et['elem'], n, None, name))
            return Opaque('abox', buf=o)
        if d == 'std::vec::Vec':
            n = X.sym(X.USIZE, f"{name}.len", 0, GEOM_MAX)
            o = st.alloc(Buf(t['args'][0], n, None, name))
            return Opaque('vec', buf=o)
        if t['adt_kind'] == 'struct':
            return Agg('struct', tid, [symbolic(it, st, f['ty'], f"{name}.{f['name']}", overrides, ranges) for f in t['variants'][0]['fields']])
        raise KeyError(f"enum {name} of type {t['s']} needs an override")
    raise TypeError(f"cannot build symbolic {t['s']}")
