"""Resolution of `load` atoms through store summaries.

After interpretation every buffer carries an ordered list of (possibly universally
quantified) store summaries.  `Resolver.resolve(e)` rewrites loads of intermediate
buffers into the stored expressions so that the value of an output element becomes a
closed expression over *input* samples only.  Matching is structural and fails closed:
a load that cannot be matched against a store summary, or whose in-range condition is not
evident, raises Unsupported (=> UNDECIDED), it is never guessed.
"""
from __future__ import annotations
from . import expr as X
from .expr import E
from .values import *
from .ranges import int_bounds, decide_cmp

def sym_range(e):
    """(lo, hi_exclusive) expressions registered for a loop variable."""
    if e.op != 'sym':
        return None
    info = X.SYM_INFO.get(e.args[0], {})
    return info.get('range')

def register_range(k, lo, hi):
    X.SYM_INFO.setdefault(k.args[0], {})['range'] = (lo, hi)

def is_range_fact(c, qvars):
    """guard conjunct of the form  q < hi  (the iteration-space fact of a summarised loop)."""
    if c.op == 'lt':
        a, b = c.args
        for q, lo, hi in qvars:
            if a is q and b is hi:
                return True
    return False

def split_mul(e):
    if e.op == 'imul':
        return e.args
    return None

def match_rowmajor(index, qvars):
    """index == y*W + x  with qvars (x in [0,W), y in [0,H)) -> (y, x, W, H)"""
    if len(qvars) != 2 or index.op != 'iadd':
        return None
    (x, xlo, xhi), (y, ylo, yhi) = qvars
    a, b = index.args
    for m, r in ((a, b), (b, a)):
        if r is x and m.op == 'imul':
            p, q = m.args
            W = q if p is y else p if q is y else None
            if W is not None and W is xhi and _is_zero(xlo) and _is_zero(ylo):
                return (y, x, W, yhi)
    return None

def _is_zero(e):
    return e.is_const and e.val == 0

class Resolver:
    def __init__(self, it, st, pc=()):
        self.it, self.st = it, st
        self.cache = {}
        self.pc = pc
        self.trace = []      # (buffer name, store site) matches, for evidence

    def in_range(self, e, lo, hi):
        """lo <= e < hi evident?"""
        r = sym_range(e)
        if r is not None and r[0] is lo and r[1] is hi:
            return True
        if r is not None and _is_zero(lo) and _is_zero(r[0]) and r[1] is hi:
            return True
        c1 = decide_cmp(X.binop('le', lo, e), self.pc)
        c2 = decide_cmp(X.binop('lt', e, hi), self.pc)
        if c1 is True and c2 is True:
            return True
        # row-major lemma: x in [0,W), y in [0,H)  =>  y*W + x in [0, W*H)
        if _is_zero(lo) and hi.op == 'imul' and e.op == 'iadd':
            for m, r in ((e.args[0], e.args[1]), (e.args[1], e.args[0])):
                if m.op == 'imul':
                    for yy, W in ((m.args[0], m.args[1]), (m.args[1], m.args[0])):
                        H = hi.args[1] if hi.args[0] is W else hi.args[0] if hi.args[1] is W else None
                        if H is not None and self.in_range(r, lo, W) and self.in_range(yy, lo, H):
                            return True
        # e = k / W with k < W*H  => e < H ;  e = k % W => e < W
        if e.op == 'idiv' and _is_zero(lo):
            k, W = e.args
            rk = sym_range(k)
            if rk and rk[1].op == 'imul' and ((rk[1].args[0] is W and rk[1].args[1] is hi) or (rk[1].args[1] is W and rk[1].args[0] is hi)):
                return True
        if e.op == 'irem' and _is_zero(lo) and e.args[1] is hi:
            return True
        return False

    def resolve(self, v):
        if isinstance(v, E):
            return self.res_e(v)
        if isinstance(v, Agg):
            return Agg(v.kind, v.tid, [self.resolve(x) for x in v.fields])
        if isinstance(v, EnumV):
            return EnumV(v.tid, v.variant, [self.resolve(x) for x in v.fields])
        return v

    def res_e(self, e):
        r = self.cache.get(e.id)
        if r is not None:
            return r
        if e.op == 'load':
            r = self.res_load(e)
        elif not e.args or e.op in ('const', 'sym'):
            r = e
        else:
            new = [self.res_e(a) if isinstance(a, E) else a for a in e.args]
            r = e if all(x is y for x, y in zip(new, e.args)) else X.rebuild(e.op, new, e.ty)
        self.cache[e.id] = r
        return r

    def res_load(self, e):
        obj, ver, idx, flat, sub, name = e.args
        idx = self.res_e(idx)
        buf = self.st.heap.get(obj)
        if not isinstance(buf, Buf):
            raise Unsupported(f"load from buffer obj{obj} ({name}) that is no longer live")
        for s in reversed(buf.stores[:ver]):
            hit = self.match(s, idx, flat, sub)
            if hit is None:
                continue            # provably a different element
            val = hit
            for c in sub:
                if isinstance(val, (Agg,)):
                    val = val.fields[c]
                else:
                    raise Unsupported('sub-element of scalar store')
            if not isinstance(val, E):
                raise Unsupported('load of aggregate store value')
            self.trace.append((name, s.site))
            return self.res_e(val)
        # initial content
        if buf.init is None:
            return X.node('load', (obj, 0, idx, flat, sub, name), e.ty)
        val = buf.init
        for c in sub:
            val = val.fields[c]
        if flat and isinstance(val, Agg):
            raise Unsupported('flat load of aggregate initial value')
        return val

    def match(self, s: Store, idx, flat, sub):
        """Return the stored value specialised to `idx` if the store certainly covers it,
        None if it certainly does not, raise Unsupported when undetermined."""
        if bool(s.flat) != bool(flat):
            raise Unsupported('flat / structured access mismatch on one buffer')
        q = s.qvars
        extra = [c for c in s.guard if not is_range_fact(c, q)]
        if not q:
            if s.index is idx:
                if extra:
                    raise Unsupported('conditionally executed store')
                return s.value
            d = decide_cmp(X.binop('eq', s.index, idx), self.pc)
            if d is False:
                return None
            raise Unsupported(f"cannot decide aliasing of store index {s.index} and load index {idx}")
        sigma = None
        if len(q) == 1 and s.index is q[0][0]:
            k, lo, hi = q[0]
            if self.in_range(idx, lo, hi):
                sigma = {k.id: idx}
            else:
                raise Unsupported(f"cannot show load index {idx} lies in the stored range [{lo},{hi})")
        else:
            rm = match_rowmajor(s.index, q)
            if rm is None:
                raise Unsupported(f"store index shape not recognised: {s.index}")
            y, x, W, H = rm
            zero = X.const(X.USIZE, 0)
            # (a) idx = y'*W + x'
            if idx.op == 'iadd':
                for m, r in ((idx.args[0], idx.args[1]), (idx.args[1], idx.args[0])):
                    if m.op == 'imul' and (m.args[0] is W or m.args[1] is W):
                        y2 = m.args[1] if m.args[0] is W else m.args[0]
                        if self.in_range(r, zero, W) and self.in_range(y2, zero, H):
                            sigma = {y.id: y2, x.id: r}
            # (b) idx = k' in [0, W*H)
            if sigma is None:
                rk = sym_range(idx)
                if rk and _is_zero(rk[0]) and rk[1].op == 'imul' and {rk[1].args[0].id, rk[1].args[1].id} == {W.id, H.id}:
                    sigma = {y.id: X.node('idiv', (idx, W), X.USIZE), x.id: X.node('irem', (idx, W), X.USIZE)}
            if sigma is None:
                raise Unsupported(f"cannot match load index {idx} against row-major store {s.index}")
        if extra:
            raise Unsupported('conditionally executed summarised store: ' + ', '.join(map(str, extra)))
        return map_scalars(s.value, lambda z: X.substitute(z, sigma))

def deflatten_store(it, buf: Buf, s: Store, qvar):
    """Rewrite a store through a flattened [[T; n]] -> [T] view,
        forall j in [0, n*len):  flat[j] := F(flat_load(j))
    into the equivalent structured store
        forall k in [0, len):    buf[k] := [F(load(k)[0]), ..., F(load(k)[n-1])]
    Valid when the value depends on j only through the load of position j itself and the
    iteration space is exactly n*len.  Returns None when the side conditions fail."""
    n = s.flat
    j, lo, hi = qvar
    if not (s.index is j and _is_zero(lo)):
        return None
    L = buf.len
    ok = (hi.op == 'imul' and ((hi.args[0] is L and hi.args[1].is_const and hi.args[1].val == n) or
                               (hi.args[1] is L and hi.args[0].is_const and hi.args[0].val == n))) or \
         (hi.is_const and L.is_const and hi.val == n * L.val)
    if not ok or len(s.qvars) != 1:
        return None
    if not isinstance(s.value, E):
        return None
    k = X.fresh(X.USIZE, 'k', 0, None, loop='deflatten')
    register_range(k, lo, L)
    comps = []
    for c in range(n):
        mapping = {}
        for node in X.walk(s.value):
            if node.op == 'load' and node.args[3] == n and node.args[2] is j:
                mapping[node.id] = X.node('load', (node.args[0], node.args[1], k, 0, (c,), node.args[5]), node.ty)
        new = X.substitute(s.value, mapping)
        if any(a is j for a in X.walk(new)):
            return None
        comps.append(new)
    val = Agg('array', buf.elem_tid, comps)
    guard = tuple(c for c in s.guard if not is_range_fact(c, s.qvars))
    if guard:
        return None
    return Store(k, val, (X.binop('lt', k, L),), ((k, lo, L),), 0, s.pc, s.site)
