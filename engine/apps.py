"""Function summaries of the public scalar math helpers (powf, expf, cbrtf).

A call with symbolic arguments is kept as an application node  app(key, args...)  whose
body - the helper's MIR interpreted once on formal argument symbols with *unconstrained*
ranges - is stored here.  Analyses may (a) expand the application (exact folding),
(b) treat it as the ideal function (formula mode, assumption A-elem / A-cbrt), or
(c) analyse the body separately on the argument ranges (totality, finiteness).
Obligations met inside the body are recorded against the formal arguments, i.e. they must
hold for every f32 bit pattern."""
from __future__ import annotations
from . import expr as X
from .values import Unsupported

def summary(it, key):
    cache = it.crate.__dict__.setdefault('_apps', {})
    if key in cache:
        return cache[key]
    from .interp import Interp, State, Recorder
    sub = Interp(it.crate, it.models, Recorder(), it.mode)
    sub.in_summary = True
    fn = it.crate.fns[key]
    short = fn['def'].split('::')[-1]
    formals = []
    for i in range(fn['argc']):
        s = sub.sty(fn['locals'][i + 1])
        if s is None:
            raise Unsupported(f"non-scalar argument of {key}")
        formals.append(X.sym(s, f"{short}.arg{i}"))
    outs = sub.call_fn(State(), key, list(formals))
    if len(outs) != 1 or not isinstance(outs[0][1], X.E):
        raise Unsupported(f"{key} does not summarise to one scalar expression ({len(outs)} outcomes)")
    # a residual path condition can only stem from panic exits that could not be excluded
    # (they are recorded in sub.rec.panics and judged by the totality clause of C18 / C13)
    cache[key] = (formals, outs[0][1], sub.rec)
    return cache[key]

def expand_apps(e, crate, depth=0):
    """inline every application (bodies are closed expressions over the formals)"""
    if depth > 8:
        raise Unsupported('nested application expansion')
    apps = [n for n in X.walk(e) if n.op == 'app']
    if not apps:
        return e
    m = {}
    for n in apps:
        key = n.args[0]
        formals, body, _ = crate._apps[key]
        args = [expand_apps(a, crate, depth + 1) for a in n.args[1:]]
        m[n.id] = X.substitute(body, {f.id: a for f, a in zip(formals, args)})
    return X.substitute(e, m)

def app_name(n):
    k = n.args[0]
    return k.split('::')[-1].split('<')[0]
