"""Common scaffolding of a property check: obligations with three-valued verdicts,
known findings, violation reports, evidence file, exit code."""
from __future__ import annotations
import json, os, re, sys, time, traceback

VERIF = os.path.dirname(os.path.dirname(os.path.abspath(__file__)))
KNOWN = os.path.join(VERIF, 'known_findings.json')

TRUSTED_BASE = [
    'A-rustc: nightly rustc MIR / trait resolution / const-eval are faithful to the language semantics',
    'A-mir: the analyser\'s MIR semantics (two\'s-complement integers, IEEE-754 binary32/64 RNE, Rust cast rules)',
    'A-models: hand-written summaries of std / dependency functions listed in engine/models.py (each with a justification)',
    'A-spec: reference tables under /verif/spec typed from the standards independently of /repo',
]

class Check:
    def __init__(self, pid, tier, level='proof', technique=''):
        self.pid, self.tier, self.level, self.technique = pid, tier, level, technique
        self.t0 = time.time()
        self.obs = []              # dict(key, verdict, text, detail)
        self.analysed = {}         # free-form counters / lists for evidence
        self.samples = []
        self.assumptions = []
        self.floors = {}
        self.seed = int(os.environ.get('VERIF_SEED', '0') or 0)
        self.nontrivial = set()
        self.extra_trusted = []

    # ---- recording
    def ob(self, key, verdict, text='', nontrivial=True, **detail):
        assert verdict in ('PROVED', 'REFUTED', 'UNDECIDED')
        self.obs.append(dict(key=key, verdict=verdict, text=text, detail=detail))
        if nontrivial:
            self.nontrivial.add(key)

    def count(self, name, n=1):
        self.analysed[name] = self.analysed.get(name, 0) + n

    def note(self, name, value):
        self.analysed[name] = value

    def floor(self, name, minimum):
        """Vacuity guard: the measured counter must reach the value confirmed by hand."""
        self.floors[name] = minimum

    def sample(self, s):
        if len(self.samples) < 12:
            self.samples.append(s)

    # ---- finishing
    def finish(self):
        wall = time.time() - self.t0
        known = {'findings': [], 'fixed': []}
        if os.path.exists(KNOWN):
            known = json.load(open(KNOWN))
        kf = {(f['property'], f['key']): f for f in known.get('findings', [])}
        # floors
        for name, m in self.floors.items():
            got = self.analysed.get(name, 0)
            if not isinstance(got, int) or got < m:
                self.ob(f"{self.pid}/vacuity/{name}", 'UNDECIDED',
                        f"analysed count '{name}' = {got} is below the floor {m} confirmed by hand: the rule no longer sees its instances")
        violations = []
        known_hits = []
        for o in self.obs:
            if o['verdict'] == 'PROVED':
                continue
            if (self.pid, o['key']) in kf and o['verdict'] == 'REFUTED':
                known_hits.append(o)
            else:
                violations.append(o)
        for o in known_hits:
            print(f"KNOWN-FINDING: property={self.pid} {kf[(self.pid, o['key'])]['text']} [{o['key']}]")
        out_root = os.environ.get('VERIF_OUT_DIR', VERIF)      # (self-test matrix runs write elsewhere)
        rep_dir = os.path.join(out_root, 'reports', self.pid)
        seen = set()
        for o in violations:
            if o['key'] in seen:
                continue
            seen.add(o['key'])
            os.makedirs(rep_dir, exist_ok=True)
            fn = re.sub(r'[^A-Za-z0-9_.-]+', '_', o['key'])[:150] + '.json'
            path = os.path.join(rep_dir, fn)
            with open(path, 'w') as fh:
                json.dump(dict(property=self.pid, key=o['key'], verdict=o['verdict'], text=o['text'],
                               detail=_js(o['detail']), tier=self.tier), fh, indent=1)
            kind = 'refuted' if o['verdict'] == 'REFUTED' else 'undecided (a proof that no longer goes through is not a pass)'
            print(f"  {kind}: {o['key']}: {o['text']}")
            print(f"VIOLATION property={self.pid} replay={os.path.relpath(path, out_root)}")
        n_ob = len(self.obs)
        n_ok = sum(1 for o in self.obs if o['verdict'] == 'PROVED')
        cov = dict(
            obligations=max(n_ob, 1),
            discharged=n_ok,
            checker_cmd=f"python3-vt verif.py check {self.pid} --tier {self.tier}",
            trusted_base=TRUSTED_BASE + self.extra_trusted,
            evaluations=max(n_ob, 1),
            distinct_nontrivial=len(self.nontrivial),
            rule='one obligation per (rule, instance, configuration) key; non-trivial = its discharge needed interpretation of MIR / a computed bound, not a syntactic match',
            samples=self.samples or [o['key'] for o in self.obs[:5]],
            explanation=self.technique,
            analysed=_js(self.analysed),
            known_findings_reported=[o['key'] for o in known_hits],
            undecided=[o['key'] for o in self.obs if o['verdict'] == 'UNDECIDED'][:50],
            refuted=[o['key'] for o in self.obs if o['verdict'] == 'REFUTED'][:50],
            exhaustive=True,
        )
        ev = dict(property_id=self.pid, tier=self.tier, seed=self.seed, level=self.level, coverage=cov,
                  assumptions=self.assumptions, wall_s=round(wall, 3), violations=len(seen))
        os.makedirs(os.path.join(out_root, 'evidence'), exist_ok=True)
        with open(os.path.join(out_root, 'evidence', f'{self.pid}.json'), 'w') as fh:
            json.dump(ev, fh, indent=1)
        print(f"{self.pid} [{self.tier}] obligations={n_ob} proved={n_ok} known={len(known_hits)} violations={len(seen)} wall={wall:.1f}s")
        return 1 if seen else 0

def _js(x, depth=0):
    if depth > 6:
        return str(x)[:200]
    if isinstance(x, (str, int, float, bool)) or x is None:
        return x
    if isinstance(x, dict):
        return {str(k): _js(v, depth + 1) for k, v in list(x.items())[:200]}
    if isinstance(x, (list, tuple, set)):
        return [_js(v, depth + 1) for v in list(x)[:200]]
    return str(x)[:400]
