"""Obligation prover for integer (index / length) inequalities.

Goal and facts are turned into polynomials over integer atoms; a goal G >= 0 is PROVED
when a Handelman / Positivstellensatz-style certificate
        G  =  l0 + sum_i l_i F_i + sum_{i<=j} l_ij F_i F_j ,   l >= 0
is found (LP over the multipliers, scipy/HiGHS) *and* re-verified in exact rational
arithmetic.  Floor-type atoms (x >> c, x % c, x / W) contribute their defining
inequalities; integrality is used through Chvatal-Gomory cuts between shift atoms.
Nothing here enumerates values: a certificate is a proof for all integers satisfying
the facts."""
from __future__ import annotations
from fractions import Fraction as Fr
import itertools, math
import numpy as np
from scipy.optimize import linprog
from . import expr as X
from .expr import E
from .fbound import Poly
from .values import Unsupported

class Prover:
    def __init__(self, facts=(), max_pairs=1500):
        self.atoms = {}          # atom id -> E
        self.polys = []          # list of (Poly >= 0, origin string)
        self.eqs = []
        self.seen_nodes = {}
        self.max_pairs = max_pairs
        self.shift_atoms = []    # (atom E, arg Poly, K)
        self.pending = list(facts)
        for f in facts:
            self.add_fact(f)

    # ---------------------------------------------------------------- polynomials
    def poly(self, e: E) -> Poly:
        r = self.seen_nodes.get(e.id)
        if r is None:
            r = self._poly(e)
            self.seen_nodes[e.id] = r
        return r

    def atom(self, e: E) -> Poly:
        if e.id not in self.atoms:
            self.atoms[e.id] = e
            self.define(e)
        return Poly.atom(e.id)

    def _poly(self, e: E) -> Poly:
        op = e.op
        if op == 'const':
            return Poly.const(int(e.val))
        if op == 'sym':
            return self.atom(e)
        if op in ('iadd', 'isub', 'imul'):
            a, b = self.poly(e.args[0]), self.poly(e.args[1])
            if op == 'iadd': return a + b
            if op == 'isub': return a - b
            if a.degree() + b.degree() > 3:
                return self.atom(e)
            return a * b
        if op == 'ineg':
            return self.poly(e.args[0]).scale(-1)
        if op == 'icast':
            return self.poly(e.args[0])
        if op == 'ishl' and e.args[1].is_const:
            return self.poly(e.args[0]).scale(1 << e.args[1].val)
        if op == 'cast' and X.is_int(e.ty) and (X.is_int(e.args[0].ty) or X.is_bool(e.args[0].ty)):
            from .ranges import int_bounds
            lo, hi = int_bounds(e.args[0])
            tlo, thi = X.int_range(e.ty)
            if lo is not None and hi is not None and tlo <= lo and hi <= thi:
                return self.poly(e.args[0])
        return self.atom(e)

    def define(self, e: E):
        """defining inequalities of a non-polynomial atom"""
        op = e.op
        a = Poly.atom(e.id)
        if op == 'sym':
            info = X.SYM_INFO.get(e.args[0], {})
            lo, hi = info.get('lo'), info.get('hi')
            if X.is_int(e.ty):
                tlo, thi = X.int_range(e.ty)
                lo = tlo if lo is None else max(lo, tlo)
                if hi is None and thi < (1 << 40): hi = thi
            if lo is not None: self.polys.append((a - Poly.const(lo), f"{e} >= {lo}"))
            if hi is not None: self.polys.append((Poly.const(hi) - a, f"{e} <= {hi}"))
            rng = info.get('range')
            if rng is not None:
                self.polys.append((a - self.poly(rng[0]), f"{e} >= {rng[0]}"))
                self.polys.append((self.poly(rng[1]) - a - Poly.const(1), f"{e} < {rng[1]}"))
            return
        if op == 'ishr' and e.args[1].is_const:
            K = 1 << e.args[1].val
            x = self.poly(e.args[0])
            self.polys.append((x - a.scale(K), f"{K}*({e}) <= arg"))
            self.polys.append((a.scale(K) + Poly.const(K - 1) - x, f"arg <= {K}*({e}) + {K - 1}"))
            self.polys.append((a, f"{e} >= 0"))
            self.shift_atoms.append((e, x, K))
            return
        if op in ('irem', 'idiv'):
            x, d = e.args
            xp = self.poly(x)
            if d.is_const and d.val > 0:
                K = d.val
                q = X.node('idiv', (x, d), e.ty) if op == 'irem' else e
                r = X.node('irem', (x, d), e.ty) if op == 'idiv' else e
                if (K & (K - 1)) == 0:
                    q = X.binop('shr', x, X.const(x.ty, K.bit_length() - 1))
                qa = self.poly(q) if q.id != e.id else a
                ra = a if op == 'irem' else (self.poly(r) if r.id != e.id else a)
                if op == 'irem':
                    # x = K*q + r, 0 <= r <= K-1
                    self.eqs.append((xp - qa.scale(K) - a, f"{x} = {K}*q + r"))
                    self.polys.append((a, f"{e} >= 0"))
                    self.polys.append((Poly.const(K - 1) - a, f"{e} <= {K - 1}"))
                else:
                    self.polys.append((xp - a.scale(K), f"{K}*({e}) <= arg"))
                    self.polys.append((a.scale(K) + Poly.const(K - 1) - xp, f"arg <= {K}*({e})+{K - 1}"))
                    self.polys.append((a, f"{e} >= 0"))
                return
            # symbolic divisor W (row/column decomposition of a linear index)
            W = self.poly(d)
            q = e if op == 'idiv' else X.node('idiv', (x, d), e.ty)
            r = e if op == 'irem' else X.node('irem', (x, d), e.ty)
            if e.id == q.id:
                other = r
            else:
                other = q
            if other.id not in self.atoms:
                self.atoms[other.id] = other
                oa = Poly.atom(other.id)
                qa, ra = (a, oa) if op == 'idiv' else (oa, a)
                self.eqs.append((xp - W * qa - ra, f"{x} = {d}*q + r"))
                self.polys.append((ra, "r >= 0")); self.polys.append((qa, "q >= 0"))
                self.polys.append((W - ra - Poly.const(1), f"r < {d}"))
            return
        if op in ('imin', 'imax'):
            x, y = self.poly(e.args[0]), self.poly(e.args[1])
            if op == 'imin':
                self.polys.append((x - a, 'min<=a')); self.polys.append((y - a, 'min<=b'))
            else:
                self.polys.append((a - x, 'max>=a')); self.polys.append((a - y, 'max>=b'))
            return
        if X.is_int(e.ty):
            from .ranges import int_bounds
            lo, hi = int_bounds(e)
            if lo is not None and abs(lo) < (1 << 62): self.polys.append((a - Poly.const(lo), f"{e} >= {lo}"))
            if hi is not None and abs(hi) < (1 << 62): self.polys.append((Poly.const(hi) - a, f"{e} <= {hi}"))

    # ---------------------------------------------------------------------- facts
    def add_fact(self, c: E):
        op = c.op
        if op == 'band':
            self.add_fact(c.args[0]); self.add_fact(c.args[1]); return
        if op == 'bnot':
            inner = c.args[0]
            if inner.op == 'bor':
                self.add_fact(X.unop('not', inner.args[0])); self.add_fact(X.unop('not', inner.args[1]))
            elif inner.op == 'outside':
                e = inner.args[0]
                lo, hi = X.int_range(e.ty)
                p = self.poly(e)
                self.polys.append((p - Poly.const(lo), 'no overflow')); self.polys.append((Poly.const(hi) - p, 'no overflow'))
            return
        if op not in ('lt', 'le', 'gt', 'ge', 'eq'):
            return
        a, b = c.args
        if not (X.is_int(a.ty)):
            return
        pa, pb = self.poly(a), self.poly(b)
        s = str(c)
        if op == 'lt': self.polys.append((pb - pa - Poly.const(1), s))
        elif op == 'le': self.polys.append((pb - pa, s))
        elif op == 'gt': self.polys.append((pa - pb - Poly.const(1), s))
        elif op == 'ge': self.polys.append((pa - pb, s))
        else:
            self.eqs.append((pa - pb, s))

    # -------------------------------------------------------------------- proving
    def _basis(self, goal: Poly, degree2=True):
        """candidate multiplicands: facts, and pairwise products of facts relevant to the goal"""
        facts = [p for p, _ in self.polys]
        # dedupe
        uniq = []
        seen = set()
        for p in facts:
            k = tuple(sorted(p.t.items()))
            if k not in seen:
                seen.add(k); uniq.append(p)
        facts = uniq
        cands = [Poly.const(1)] + facts
        if degree2 and goal.degree() >= 2:
            # products of facts that can contribute the goal's nonlinear monomials; declared
            # upper bounds of 2^20 or more (assumption A-geom) are kept out of products: they
            # are never needed for an index proof and would ruin the LP's conditioning
            def small(p):
                return all(abs(c) < (1 << 20) for c in p.t.values())
            nl_atoms = {a for m in goal.t for a in m if len(m) >= 2}
            pool = [p for p in facts if small(p)]
            rel = [p for p in pool if p.atoms() & nl_atoms]
            relatoms = set().union(*[p.atoms() for p in rel]) if rel else set()
            rel2 = [p for p in pool if p.atoms() & relatoms]
            rel.sort(key=lambda p: (p.degree(), len(p.t)))
            rel2.sort(key=lambda p: (p.degree(), len(p.t)))
            pairs = []
            seenp = set()
            for p in rel:
                for q in rel2:
                    if p.degree() + q.degree() <= 3:
                        pr = p * q
                        k = tuple(sorted(pr.t.items()))
                        if k not in seenp:
                            seenp.add(k); pairs.append(pr)
            cands += pairs[:self.max_pairs]
        return cands

    def prove_ge0(self, goal: Poly, want_cert=False):
        """True iff a certificate for goal >= 0 is found and verified exactly."""
        if goal.is_const():
            return goal.constant() >= 0
        for deg2 in ((False, True) if goal.degree() >= 2 else (False,)):
            ok = self._lp(goal, self._basis(goal, deg2))
            if ok:
                return True
        return False

    def _lp(self, goal: Poly, cands, objective=None):
        eqs = [p for p, _ in self.eqs]
        monos = set(goal.t)
        for c in cands: monos |= set(c.t)
        eq_terms = []
        # equalities may be multiplied by any monomial of degree <= 1 present (free multipliers)
        atoms = set()
        for m in monos: atoms |= set(m)
        for q in eqs:
            eq_terms.append(q)
            if goal.degree() >= 2:
                for a in atoms:
                    if q.degree() <= 2:
                        eq_terms.append(q * Poly.atom(a))
        for c in eq_terms: monos |= set(c.t)
        monos = sorted(monos)
        idx = {m: i for i, m in enumerate(monos)}
        n1, n2 = len(cands), len(eq_terms)
        A = np.zeros((len(monos), n1 + n2))
        for j, c in enumerate(cands):
            for m, v in c.t.items():
                A[idx[m], j] = float(v)
        for j, c in enumerate(eq_terms):
            for m, v in c.t.items():
                A[idx[m], n1 + j] = float(v)
        b = np.zeros(len(monos))
        for m, v in goal.t.items():
            b[idx[m]] = float(v)
        bounds = [(0, None)] * n1 + [(None, None)] * n2
        cvec = np.zeros(n1 + n2)
        try:
            res = linprog(cvec, A_eq=A, b_eq=b, bounds=bounds, method='highs')
        except Exception:
            return False
        if res.status != 0:
            return False
        return self._verify(goal, cands, eq_terms, res.x)

    def _verify(self, goal, cands, eq_terms, x):
        """exact re-verification with rationalised multipliers"""
        for D in (12, 720, 10 ** 6, 10 ** 9):
            lam = [Fr(float(v)).limit_denominator(D) if abs(v) > 1e-11 else Fr(0) for v in x]
            lam = [max(l, Fr(0)) if i < len(cands) else l for i, l in enumerate(lam)]
            acc = Poly()
            for l, c in zip(lam, list(cands) + list(eq_terms)):
                if l != 0:
                    acc = acc + c.scale(l)
            resid = goal - acc
            if resid.is_const() and resid.constant() >= 0:
                return True
        return False

    def maximize(self, lin: Poly):
        """largest t (float) such that  lin - t >= 0  has a degree-1 certificate, or None"""
        cands = self._basis(lin, False)
        eqs = [p for p, _ in self.eqs]
        monos = set(lin.t) | {()}
        for c in cands: monos |= set(c.t)
        for c in eqs: monos |= set(c.t)
        monos = sorted(monos)
        idx = {m: i for i, m in enumerate(monos)}
        n1, n2 = len(cands), len(eqs)
        A = np.zeros((len(monos), n1 + n2 + 1))
        for j, c in enumerate(cands):
            for m, v in c.t.items(): A[idx[m], j] = float(v)
        for j, c in enumerate(eqs):
            for m, v in c.t.items(): A[idx[m], n1 + j] = float(v)
        A[idx[()], n1 + n2] = 1.0      # + t
        b = np.zeros(len(monos))
        for m, v in lin.t.items(): b[idx[m]] = float(v)
        cvec = np.zeros(n1 + n2 + 1); cvec[-1] = -1.0
        bounds = [(0, None)] * n1 + [(None, None)] * n2 + [(None, None)]
        res = linprog(cvec, A_eq=A, b_eq=b, bounds=bounds, method='highs')
        if res.status != 0:
            return None
        return res.x[-1]

    def add_cuts(self):
        """Chvatal-Gomory cuts between shift atoms with the same modulus:
        K*(r - q) >= t  (real relaxation)  ==>  r - q >= ceil(t / K)."""
        added = 0
        for (qe, qx, K1), (re_, rx, K2) in itertools.permutations(self.shift_atoms, 2):
            if K1 != K2 or K1 == 1:
                continue
            lin = (Poly.atom(re_.id) - Poly.atom(qe.id)).scale(K1)
            t = self.maximize(lin)
            if t is None or t <= -K1 + 1e-6:
                continue
            c = math.ceil(t / K1 - 1e-7)
            goal = lin - Poly.const(int(round(t)))        # verify the relaxation exactly at integer t
            tt = math.floor(t + 1e-7)
            if self.prove_ge0(lin - Poly.const(tt)):
                c = -((-tt) // K1) if tt >= 0 else -((-tt) // K1)
                c = math.ceil(Fr(tt, K1))
                self.polys.append((Poly.atom(re_.id) - Poly.atom(qe.id) - Poly.const(c), f"cut: {re_} - {qe} >= {c}"))
                added += 1
        return added

    def prove(self, c: E):
        """prove an integer comparison"""
        op = c.op
        if c.is_const:
            return bool(c.val)
        if op == 'band':
            return self.prove(c.args[0]) and self.prove(c.args[1])
        if op not in ('lt', 'le', 'gt', 'ge', 'eq'):
            return False
        a, b = self.poly(c.args[0]), self.poly(c.args[1])
        if op == 'lt': return self.prove_ge0(b - a - Poly.const(1))
        if op == 'le': return self.prove_ge0(b - a)
        if op == 'gt': return self.prove_ge0(a - b - Poly.const(1))
        if op == 'ge': return self.prove_ge0(a - b)
        return self.prove_ge0(a - b) and self.prove_ge0(b - a)
