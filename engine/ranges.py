"""Cheap interval reasoning on integer expressions, used during interpretation to
decide branch feasibility and to show that arithmetic cannot wrap.  (The precise
obligation prover lives in prover.py.)"""
from __future__ import annotations
from . import expr as X
from .expr import E

_INF = None

def _sym_bounds(e):
    info = X.SYM_INFO.get(e.args[0], {})
    lo, hi = info.get('lo'), info.get('hi')
    if X.is_int(e.ty):
        tlo, thi = X.int_range(e.ty)
        lo = tlo if lo is None else max(lo, tlo)
        hi = thi if hi is None else min(hi, thi)
    return lo, hi

def _env_from_pc(pc):
    """Collect simple bounds  node <= const / node >= const  from the path condition,
    including node < node' where node' has known bounds (two rounds)."""
    env = {}
    for _ in range(3):
        changed = False
        for c in pc:
            op = c.op
            if op not in ('lt', 'le', 'gt', 'ge', 'eq'):
                continue
            a, b = c.args
            if not (X.is_int(a.ty)):
                continue
            if op == 'gt': a, b, op = b, a, 'lt'
            elif op == 'ge': a, b, op = b, a, 'le'
            alo, ahi = _bounds(a, env)
            blo, bhi = _bounds(b, env)
            d = 1 if op == 'lt' else 0
            if op in ('lt', 'le'):
                # a <= b - d
                if bhi is not None and not a.is_const:
                    new = bhi - d
                    cur = env.get(a.id, (alo, ahi))
                    if cur[1] is None or new < cur[1]:
                        env[a.id] = (cur[0], new); changed = True
                if alo is not None and not b.is_const:
                    new = alo + d
                    cur = env.get(b.id, (blo, bhi))
                    if cur[0] is None or new > cur[0]:
                        env[b.id] = (new, cur[1]); changed = True
            elif op == 'eq':
                lo = max(x for x in (alo, blo) if x is not None) if (alo is not None or blo is not None) else None
                hi = min(x for x in (ahi, bhi) if x is not None) if (ahi is not None or bhi is not None) else None
                for n in (a, b):
                    if not n.is_const and env.get(n.id) != (lo, hi):
                        env[n.id] = (lo, hi); changed = True
        if not changed:
            break
    return env

def _mul(a, b):
    if a is None or b is None:
        return None
    return a * b

def _bounds(e: E, env, depth=0):
    if e.id in env and depth < 50:
        base = _bounds_struct(e, env, depth + 1)
        lo, hi = env[e.id]
        if base[0] is not None and (lo is None or base[0] > lo): lo = base[0]
        if base[1] is not None and (hi is None or base[1] < hi): hi = base[1]
        return lo, hi
    return _bounds_struct(e, env, depth + 1)

def _bounds_struct(e: E, env, depth):
    if depth > 60:
        return (None, None)
    op = e.op
    if op == 'const':
        if X.is_bool(e.ty): return (int(e.val), int(e.val))
        if X.is_int(e.ty): return (e.val, e.val)
        return (None, None)
    if not X.is_int(e.ty):
        return (None, None)
    tlo, thi = X.int_range(e.ty)
    if op == 'sym':
        return _sym_bounds(e)
    if op in ('iadd', 'isub', 'imul'):
        alo, ahi = _bounds(e.args[0], env, depth)
        blo, bhi = _bounds(e.args[1], env, depth)
        if op == 'iadd':
            return (None if alo is None or blo is None else alo + blo, None if ahi is None or bhi is None else ahi + bhi)
        if op == 'isub':
            return (None if alo is None or bhi is None else alo - bhi, None if ahi is None or blo is None else ahi - blo)
        if None in (alo, ahi, blo, bhi):
            if alo is not None and blo is not None and alo >= 0 and blo >= 0:
                return (alo * blo, None if ahi is None or bhi is None else ahi * bhi)
            return (None, None)
        ps = [alo * blo, alo * bhi, ahi * blo, ahi * bhi]
        return (min(ps), max(ps))
    if op in ('ishr', 'ishl', 'idiv', 'irem'):
        alo, ahi = _bounds(e.args[0], env, depth)
        b = e.args[1]
        if b.is_const and b.val >= 0 and alo is not None and alo >= 0:
            c = b.val
            if op == 'ishr': return (alo >> c, None if ahi is None else ahi >> c)
            if op == 'ishl': return (alo << c, None if ahi is None else ahi << c)
            if op == 'idiv' and c > 0: return (alo // c, None if ahi is None else ahi // c)
            if op == 'irem' and c > 0:
                if ahi is not None and ahi < c: return (alo, ahi)
                return (0, c - 1)
        if op == 'irem' and alo is not None and alo >= 0:
            blo, bhi = _bounds(b, env, depth)
            if blo is not None and blo > 0 and bhi is not None:
                return (0, bhi - 1)
        if op == 'ishr' and alo is not None and alo >= 0:
            return (0, ahi)
        if op == 'ishl' and alo is not None and alo >= 0:
            blo, bhi = _bounds(b, env, depth)
            if blo is not None and bhi is not None and 0 <= blo and bhi < 64 and ahi is not None:
                return (alo << blo, ahi << bhi)
        return (tlo, thi)
    if op == 'iand':
        for x, y in ((e.args[0], e.args[1]), (e.args[1], e.args[0])):
            if x.is_const and x.val >= 0:
                ylo, yhi = _bounds(y, env, depth)
                low = x.val & -x.val if x.val else 0
                if ylo is not None and ylo >= 0 and yhi is not None and yhi < low:
                    return (0, 0)
                if ylo is not None and ylo >= 0 and yhi is not None:
                    m = x.val
                    k = (m & -m).bit_length() - 1 if m else 0
                    top = m >> k
                    if m and (top & (top + 1)) == 0 and yhi < (1 << (k + top.bit_length())):
                        return (ylo & m, yhi & m)            # contiguous high-bit mask: monotone
                    if m and (m & (m + 1)) == 0 and (ylo >> m.bit_length()) == (yhi >> m.bit_length()):
                        return (ylo & m, yhi & m)            # low mask within one period
                    return (0, min(m, yhi))
                return (0, x.val)
        return (tlo, thi)
    if op == 'ior':
        for x, y in ((e.args[0], e.args[1]), (e.args[1], e.args[0])):
            xlo, xhi = _bounds(x, env, depth)
            if xlo == 0 and xhi == 0:
                return _bounds(y, env, depth)
        for x, y in ((e.args[0], e.args[1]), (e.args[1], e.args[0])):
            if x.is_const and x.val >= 0:
                ylo, yhi = _bounds(y, env, depth)
                low = x.val & -x.val if x.val else (1 << 70)
                if ylo is not None and ylo >= 0 and yhi is not None and yhi < low:
                    return (x.val + ylo, x.val + yhi)
        return (tlo, thi)
    if op in ('ftoi_unchecked',) or (op == 'cast' and e.args and X.is_float(e.args[0].ty)):
        from .frange import frange
        import math
        lo, hi, nan = frange(e.args[0])
        if op == 'cast' and nan:
            lo = min(lo, 0.0); hi = max(hi, 0.0)
        l = tlo if lo == -math.inf or lo != lo else max(tlo, int(math.floor(lo)) if lo < 0 else int(lo))
        l = tlo if lo == -math.inf else max(tlo, math.trunc(lo) if abs(lo) < 1e300 else tlo)
        h = thi if hi == math.inf else min(thi, math.trunc(hi) if abs(hi) < 1e300 else thi)
        return (min(l, h), max(l, h))
    if op == 'cast:bits' and e.args and X.is_float(e.args[0].ty):
        from .frange import frange
        lo, hi, nan = frange(e.args[0])
        if not nan and lo >= 0 and hi < float('inf'):
            return (X.fbits(e.args[0].ty, max(lo, 0.0)), X.fbits(e.args[0].ty, hi))
        return (tlo, thi)
    if op in ('icast',):
        return _bounds(e.args[0], env, depth)
    if op == 'wrap':
        lo, hi = _bounds(e.args[0], env, depth)
        if lo is not None and hi is not None and tlo <= lo and hi <= thi:
            return (lo, hi)
        return (tlo, thi)
    if op == 'ineg':
        lo, hi = _bounds(e.args[0], env, depth)
        return (None if hi is None else -hi, None if lo is None else -lo)
    if op == 'select':
        alo, ahi = _bounds(e.args[1], env, depth)
        blo, bhi = _bounds(e.args[2], env, depth)
        return (None if alo is None or blo is None else min(alo, blo), None if ahi is None or bhi is None else max(ahi, bhi))
    if op == 'load':
        info = X.SYM_INFO.get(('load', e.args[5]), {})
        lo = info.get('lo', tlo); hi = info.get('hi', thi)
        return (max(lo, tlo), min(hi, thi))
    if op == 'cast':
        a = e.args[0]
        if X.is_int(a.ty) or X.is_bool(a.ty):
            lo, hi = _bounds(a, env, depth)
            if lo is not None and hi is not None and tlo <= lo and hi <= thi:
                return (lo, hi)
        return (tlo, thi)
    if op in ('imin', 'imax'):
        alo, ahi = _bounds(e.args[0], env, depth)
        blo, bhi = _bounds(e.args[1], env, depth)
        f = min if op == 'imin' else max
        try:
            return (f(alo, blo), f(ahi, bhi))
        except TypeError:
            return (tlo, thi)
    return (tlo, thi)

_pc_cache = {}
def _env(pc):
    key = tuple(c.id for c in pc)
    e = _pc_cache.get(key)
    if e is None:
        if len(_pc_cache) > 20000:
            _pc_cache.clear()
        e = _env_from_pc(pc)
        _pc_cache[key] = e
    return e

def int_bounds(e: E, pc=()):
    return _bounds(e, _env(pc))

def decide_cmp(c: E, pc=()):
    op = c.op
    if op == 'bnot':
        r = decide_cmp(c.args[0], pc)
        return None if r is None else (not r)
    if op == 'band':
        a, b = decide_cmp(c.args[0], pc), decide_cmp(c.args[1], pc)
        if a is False or b is False: return False
        if a is True and b is True: return True
        return None
    if op == 'bor':
        a, b = decide_cmp(c.args[0], pc), decide_cmp(c.args[1], pc)
        if a is True or b is True: return True
        if a is False and b is False: return False
        return None
    if op == 'outside':
        e = c.args[0]
        lo, hi = int_bounds(e, pc)
        tlo, thi = X.int_range(e.ty)
        if lo is not None and hi is not None:
            if tlo <= lo and hi <= thi: return False
            if hi < tlo or lo > thi: return True
        return None
    if op not in ('lt', 'le', 'gt', 'ge', 'eq', 'ne'):
        return None
    a, b = c.args
    if not X.is_int(a.ty) and not X.is_bool(a.ty):
        return None
    env = _env(pc)
    alo, ahi = _bounds(a, env)
    blo, bhi = _bounds(b, env)
    def lt(xhi, ylo): return xhi is not None and ylo is not None and xhi < ylo
    def le(xhi, ylo): return xhi is not None and ylo is not None and xhi <= ylo
    if op == 'lt':
        if lt(ahi, blo): return True
        if le(bhi, alo): return False
    elif op == 'le':
        if le(ahi, blo): return True
        if lt(bhi, alo): return False
    elif op == 'gt':
        if lt(bhi, alo): return True
        if le(ahi, blo): return False
    elif op == 'ge':
        if le(bhi, alo): return True
        if lt(ahi, blo): return False
    elif op in ('eq', 'ne'):
        r = None
        if lt(ahi, blo) or lt(bhi, alo): r = False
        elif alo is not None and alo == ahi == blo == bhi: r = True
        if r is not None:
            return r if op == 'eq' else (not r)
    return None
