"""Paired interval evaluation  (ideal value V, error E = computed - ideal)  of a kernel expression.

`V` is the real-valued meaning of the expression with the helpers read as the ideal functions
(the formula level of C03/C10); `E` encloses the difference between what the binary32 code
computes and V: rounding of every operation (|fl(r) - r| <= 2^-24 |r| + 2^-150), the host libm
(assumed within 1 ulp, A-libm), and the polynomial helpers, whose local error is derived from the
certified decomposition of engine/approx.py:

   powf(b, y) = 2^ipart * Q_fl(fp),  X = fl(fl(G_fl(m) + e) * y),  fp = X - ipart
              = b^y * 2^(X - y log2 b) * (Q(fp)/2^fp) * (1 + roundoff)

with  G(m) - log2 m  and  Q(f)/2^f - 1  evaluated by interval arithmetic (mean-value form) on the
box that the arguments occupy (not their global suprema).  Because E is propagated directly
(never obtained by subtracting two enclosures of correlated quantities) coarse boxes suffice."""
from __future__ import annotations
import math
from . import expr as X
from .ival import I, i_ln, i_exp, i_pow, i_sqrt, i_log10, dn, up, decide, INF
from .values import Unsupported
from . import approx

U32 = 2.0 ** -24
ETA32 = 2.0 ** -150
ZERO = I(0.0, 0.0)
ONE = I(1.0, 1.0)
LN2 = approx.LN2

def sym(r):
    return I(-r, r)

def plus(V, E):
    """V + E without the outward rounding step when E is exactly zero"""
    return V if (E.lo == 0 and E.hi == 0) else V + E

def rnd(R):
    """rounding error interval of a binary32 result whose real value lies in R"""
    m = R.mag
    return sym(up(U32 * m + ETA32))

def ulp32(mag):
    """one unit in the last place of the binary32 numbers of magnitude <= mag"""
    if mag <= 2.0 ** -126: return 2.0 ** -149
    if mag == INF: return INF
    return math.ldexp(1.0, math.frexp(mag)[1] - 1 - 23)

def libm_err(D0):
    """A-libm: the libm result is within 1 ulp of the exact value (exact value in D0)"""
    return sym(ulp32(D0.mag))          # ulp of the exact value's binade

def i_log2(a):
    return i_ln(a) / LN2

def i_exp2(a):
    return i_exp(a * LN2)

def mv(f, df, Bx):
    """enclosure of f on the box by the mean value form intersected with the natural extension"""
    c = (Bx.lo + Bx.hi) / 2
    C = I(c, c)
    a = f(C) + df(Bx) * (Bx - C)
    b = f(Bx)
    lo, hi = max(a.lo, b.lo), min(a.hi, b.hi)
    if lo > hi: lo, hi = min(a.lo, b.lo), max(a.hi, b.hi)
    return I(lo, hi)

class Helpers:
    """certified decomposition of the helper bodies of one build configuration"""
    def __init__(self, ctx_math, it=None):
        from .apps import summary
        self.crate = ctx_math.crate
        it = it or ctx_math.interp()
        self.kind = {}
        self.fail = {}
        self._cache = {}
        self.pow = self.exp = None
        self.cbrt_rel = None
        try:
            key = [k for k, f in self.crate.fns.items() if f['def'].split('::')[-1] == 'cbrtf' and not f.get('closure') and k.split('::')[-1] == 'cbrtf']
            if len(key) == 1:
                formals, body, _ = summary(it, key[0])
                if body.op == 'call:libm_cbrt' and len(body.args) == 1 and body.args[0] is formals[0]:
                    self.kind['cbrtf'] = 'libm'; self.cbrt_rel = 2.0 ** -23            # A-libm: one ulp
                else:
                    c = approx.cbrtf_model(self.crate, formals, body)
                    if c['total_rel'] <= 2.0 ** -26:
                        self.kind['cbrtf'] = 'poly'
                        self.cbrt_rel = 2.0 ** -24 + c['total_rel'] * (1 + 2.0 ** -23)       # correctly rounded f64 iterate: half an ulp + its own error
                    else:
                        self.fail['cbrtf'] = 'cbrtf iterate not certified to 2^-26'
        except Unsupported as ex:
            self.fail['cbrtf'] = f"structure of cbrtf not recognised: {ex}"
        for name in ('powf', 'expf'):
            key = [k for k, f in self.crate.fns.items() if f['def'].split('::')[-1] == name and not f.get('closure') and k.split('::')[-1] == name]
            if len(key) != 1:
                self.fail[name] = f"structure of {name} not recognised: {len(key)} candidate functions"
                continue
            formals, body, _ = summary(it, key[0])
            want = {'powf': 'call:libm_powf', 'expf': 'call:libm_exp'}[name]
            libm = body.op == want and len(body.args) == len(formals) and all(a is f for a, f in zip(body.args, formals))
            self.kind[name] = 'libm' if libm else 'poly'
            if libm:
                continue
            if not any(n.op in ('cast:bits', 'ftoi_unchecked') for n in X.walk(body)):
                self.kind[name] = 'other'
                self.fail[name] = f"structure of {name} not recognised: neither the libm call on its arguments nor the polynomial routine"
                continue
            try:
                if name == 'powf':
                    self.pow = self._pow_parts(formals, body)
                else:
                    self.exp = approx.expf_model(self.crate, formals, body)
            except Unsupported as ex:
                self.fail[name] = f"structure of {name} not recognised: {ex}"

    def _pow_parts(self, formals, body):
        c = approx.powf_model(self.crate, formals, body)
        x, y = formals
        mant, expo = approx.find_fields(body, x)
        core = approx.find_exp2_cores(body)[0]
        inner = core['Xc']
        while inner.op in ('call:min', 'call:max'):
            inner = [z for z in inner.args if not z.is_const][0]
        L = [z for z in inner.args if z is not y][0]
        G = [z for z in L.args if z is not expo][0]
        msym = X.sym(X.F32, 'ieee.mantissa')
        c['G'] = X.substitute(G, {mant.id: msym}); c['msym'] = msym
        fsym = X.sym(X.F32, 'exp2.fpart')
        c['Q'] = X.substitute(core['Q'], {core['fpart'].id: fsym}); c['fsym'] = fsym
        from fractions import Fraction as Fr
        gco, _ = approx.poly_in(c['G'], msym, 1, 2); qco, _ = approx.poly_in(c['Q'], fsym, Fr(-1, 2), Fr(3, 2))
        c['gco'], c['dgco'], c['qco'], c['dqco'] = gco, approx.deriv(gco), qco, approx.deriv(qco)
        c['bound80'] = approx.powf_bound(c, 80.0)
        return c

    # -- local pieces
    def _sub(self, fn, B, maxw, tag):
        """hull of fn over a subdivision of B into pieces no wider than maxw (cached for wide boxes)"""
        w = B.hi - B.lo
        if w <= maxw:
            return fn(B)
        key = (tag, round(B.lo, 9), round(B.hi, 9))
        r = self._cache.get(key)
        if r is None or not (r[0] <= B.lo and B.hi <= r[1]):
            n = int(math.ceil(w / maxw))
            out = None
            for i in range(n):
                a = B.lo + w * i / n; b = B.lo + w * (i + 1) / n
                v = fn(I(min(a, b), max(a, b) if i < n - 1 else B.hi))
                out = v if out is None else out.hull(v)
            r = (B.lo, B.hi, out)
            self._cache[key] = r
        return r[2]

    def dL(self, M):
        c = self.pow
        f = lambda Xi: approx.horner(c['gco'], Xi) - i_ln(Xi) / LN2
        df = lambda Xi: approx.horner(c['dgco'], Xi) - ONE / (Xi * LN2)
        return self._sub(lambda B: mv(f, df, B), M, 1 / 64, 'dL')

    def rG(self, M):
        return approx.roundoff(self.pow['G'], self.pow['msym'], M.lo, M.hi, pieces=max(1, int((M.hi - M.lo) * 32)))[0]

    def epsQ(self, F):
        c = self.pow
        g = lambda Xi: approx.horner(c['qco'], Xi) / i_exp(Xi * LN2) - ONE
        dg = lambda Xi: (approx.horner(c['dqco'], Xi) - LN2 * approx.horner(c['qco'], Xi)) / i_exp(Xi * LN2)
        r = self._sub(lambda B: mv(g, dg, B), F, 1 / 64, 'eq')
        err, qlo, _ = approx.roundoff(c['Q'], c['fsym'], F.lo, F.hi, pieces=max(1, int((F.hi - F.lo) * 16)))
        if qlo <= 0: raise Unsupported('Q not positive')
        return r + sym(up(err / qlo))

    def libm_pow(self, Vb, Eb, Rb, Vy, Ey, Ry):
        if Vy.lo != Vy.hi and not (Vb.lo == Vb.hi and Vb.lo > 0):
            raise Unsupported('pow with interval base and exponent')
        V = self._ideal_pow(Vb, Vy); D0 = self._ideal_pow(I(max(Rb.lo, 0.0), max(Rb.hi, 0.0)), Ry)
        D = D0 + libm_err(D0)                           # libm powf within 1 ulp (A-libm)
        return V, self._shift(V, Vb, Eb, Rb, Vy, Ey, Ry) + libm_err(D0), D

    @staticmethod
    def _ideal_pow(B, Y):
        if Y.lo == Y.hi:
            return i_pow(B, Y.lo)
        if B.lo == B.hi and B.lo > 0:
            return i_exp(Y * I(dn(math.log(B.lo)), up(math.log(B.lo))))
        a = i_pow(B, Y.lo); b = i_pow(B, Y.hi)
        return a.hull(b)                                # monotone in y for a fixed base; hull over the base range of both

    def _shift(self, V, Vb, Eb, Rb, Vy, Ey, Ry):
        """b~^y~ - b^y of the ideal function, b~ = b + eb in Rb, y~ = y + ey in Ry"""
        if _zero(Eb) and _zero(Ey):
            return ZERO
        coarse = lambda: self._ideal_pow(I(max(Rb.lo, 0.0), max(Rb.hi, 0.0)), Ry) - V
        if Vb.lo <= 0:
            return coarse()
        ratio = Eb / Vb
        q = Rb / Vb                                   # b~/b lies in both enclosures
        lo_r, hi_r = max(1 + ratio.lo, q.lo), min(1 + ratio.hi, q.hi)
        if lo_r > hi_r: lo_r, hi_r = min(1 + ratio.lo, q.lo), max(1 + ratio.hi, q.hi)
        if lo_r <= 0:
            return coarse()
        ratio = I(lo_r, hi_r) - ONE
        ex = Ry * i_ln(ONE + ratio) + Ey * i_ln(Vb)
        return V * (i_exp(ex) - ONE)

    def powf(self, Vb, Eb, Rb, Vy, Ey, Ry):
        """(V, E, D) of powf(b, y): V ideal b^y on the ideal arguments (Vb, Vy); Rb, Ry enclose the computed arguments;
        E = routine(computed arguments) - V; D = direct enclosure of the computed result"""
        V = self._ideal_pow(Vb, Vy) if (Vy.lo == Vy.hi or (Vb.lo == Vb.hi and Vb.lo > 0)) else None
        if V is None:
            raise Unsupported('pow with interval base and exponent')
        if 'powf' in self.fail:
            raise Unsupported(self.fail['powf'])
        if self.kind.get('powf') == 'libm':
            return self.libm_pow(Vb, Eb, Rb, Vy, Ey, Ry)
        if self.pow is None:
            raise Unsupported(self.fail.get('powf', 'no powf helper found'))
        c = self.pow
        bt, yt = Rb, Ry
        if yt.mag > 80:
            raise Unsupported('|y| > 80 is outside the certified domain of powf')
        if -1.4e-45 < bt.lo < 0:
            bt = I(0.0, max(bt.hi, 0.0))      # the base is a binary32 number: nothing lies strictly between -2^-149 and 0 (and -0.0 is treated as +0.0: masks drop the sign)
        if bt.lo < 0:
            raise Unsupported('powf of a possibly negative base')
        lo_c, hi_c = c['clamp']
        TINY = 2.0 ** -126
        coarse = bt.lo < TINY
        if not coarse:
            Xall = i_log2(bt) * yt
            if Xall.lo < -124 or Xall.hi > 126:
                coarse = True
        if coarse:
            if yt.lo <= 0:
                raise Unsupported('powf near zero with a non-positive exponent')
            bh = max(bt.hi, TINY)
            # X <= y (log2 bh + dL + rG)(1+u)^2 ; result = 2^ipart Q(fp) <= 2^X (1 + eps) ; result >= 0 (Q > 0, 2^ipart >= 0)
            top = i_pow(I(bh, bh), yt.hi if bh >= 1 else yt.lo).hi
            real = I(0.0, up(top * (1 + c['bound80']) + 1e-36))
            return V, real - V, real
        e_lo = math.frexp(bt.lo)[1] - 1; e_hi = math.frexp(bt.hi)[1] - 1
        if bt.hi == 2.0 ** e_hi and e_hi > e_lo: e_hi -= 1        # (the point 2^k belongs to the lower piece as m = 2)
        pieces = []
        if e_hi - e_lo > 3:
            pieces.append((bt, I(1.0, 2.0)))
        else:
            for e in range(e_lo, e_hi + 1):
                s = 2.0 ** e
                a = max(bt.lo, s); b_ = min(bt.hi, 2 * s)
                pieces.append((I(a, b_), I(a / s, b_ / s)))
        if _zero(Eb):
            shift = ZERO
        else:
            if Vb.lo <= 0: 
                # ideal base may be 0 while the computed one is normal: no relative statement possible
                real = self._ideal_pow(bt, yt) * I(1 - c['bound80'], 1 + c['bound80'])
                real = I(max(real.lo, 0.0), real.hi)
                return V, real - V, real
            ratio = Eb / Vb
            # tighter: b~/b in Rb/Vb as well
            q = Rb / Vb
            lo_r, hi_r = max(1 + ratio.lo, q.lo), min(1 + ratio.hi, q.hi)
            if lo_r <= 0: raise Unsupported('argument error as large as the argument')
            if lo_r > hi_r: lo_r, hi_r = min(1 + ratio.lo, q.lo), max(1 + ratio.hi, q.hi)
            shift = i_log2(I(lo_r, hi_r))
        Rm1 = None
        for P, M in pieces:
            dL = self.dL(M) + sym(self.rG(M))
            Lr = i_log2(P)
            Lfl = (Lr + dL) * I(1 - U32, 1 + U32)
            Xr = Lfl * yt * I(1 - U32, 1 + U32)
            if Xr.lo < lo_c or Xr.hi > hi_c:
                raise Unsupported('exp2 clamp active')
            twou = I(1 - 2.0001 * U32, 1 + 2.0001 * U32)
            # X_real - y log2 b  (b, y the ideal arguments; see module docstring / DESIGN 8.8)
            Delta = (Ey + yt * sym(2.0001 * U32)) * Lr + Vy * shift + yt * twou * dL
            r = I(Xr.lo - 0.5, Xr.hi - 0.5); r = r + sym(up(U32 * r.mag))
            k_lo, k_hi = math.trunc(r.lo), math.trunc(r.hi)
            eq = None
            if k_hi - k_lo <= 2:
                for k in range(k_lo, k_hi + 1):
                    flo, fhi = max(-0.5, Xr.lo - k), min(1.5, Xr.hi - k)
                    if flo <= fhi:
                        v = self.epsQ(I(flo, fhi)); eq = v if eq is None else eq.hull(v)
            if eq is None:
                eq = self.epsQ(I(-0.5, 1.5))
            R = i_exp2(Delta) * (ONE + eq) * I(1 - U32, 1 + U32)
            d = R - ONE
            Rm1 = d if Rm1 is None else Rm1.hull(d)
        E = V * Rm1 + sym(ETA32)
        return V, E, I(0.0, INF)

    def expf(self, Va, Ea, Ra):
        V = i_exp(Va)
        if 'expf' in self.fail:
            raise Unsupported(self.fail['expf'])
        if self.kind.get('expf') == 'libm':
            D0 = i_exp(Ra)
            return V, V * (i_exp(Ea) - ONE) + libm_err(D0), D0 + libm_err(D0)
        if 'expf' in self.fail or self.exp is None:
            raise Unsupported(self.fail.get('expf', 'no expf helper found'))
        if Ra.lo < -85 or Ra.hi > 85 or not math.isfinite(self.exp['bound']):
            raise Unsupported('expf argument outside the certified domain [-85, 85]')
        b = self.exp['bound']
        return V, V * (i_exp(Ea) * I(1 - b, 1 + b) - ONE), i_exp(Ra) * I(1 - b, 1 + b)

def _zero(E):
    return E.lo == 0 and E.hi == 0

def meet(A, B):
    """intersection of two enclosures of the same quantity (falls back to A if rounding made them disjoint)"""
    if B is None: return A
    lo, hi = max(A.lo, B.lo), min(A.hi, B.hi)
    return I(lo, hi) if lo <= hi else A

def rounded(R):
    """enclosure of fl(r), r in R: round-to-nearest is monotone, so fl(r) lies between the roundings of the endpoints"""
    import numpy as np
    with np.errstate(over='ignore'):
        lo, hi = float(np.float32(R.lo)), float(np.float32(R.hi))
    # r is a sum/product/quotient of binary32 numbers: if non-zero, |r| > 1e-100; enclosure noise below that is not a sign change
    if R.lo >= -1e-300: lo = max(lo, 0.0)
    if R.hi <= 1e-300: hi = min(hi, 0.0)
    return I(lo, hi)

def errprop(e, env, H: Helpers, lemmas=None, total=False):
    """env: atom id -> I (exact inputs).  returns (V, E, R): ideal value, error computed-ideal, computed value.
    lemmas: optional function node -> interval known to contain BOTH the computed and the ideal value of that node
    (a fact proved elsewhere, e.g. x - fl((x+y)/2) >= 0 for y <= x)"""
    cache = {}
    def cond(c):
        """(decision on ideal values, decision on computed values); None = undecided"""
        if c.is_const: return bool(c.val), bool(c.val)
        if c.op == 'bnot':
            a, b = cond(c.args[0]); return (None if a is None else not a), (None if b is None else not b)
        if c.op in ('band', 'bor'):
            (a1, b1), (a2, b2) = cond(c.args[0]), cond(c.args[1])
            def comb(p, q):
                if c.op == 'band':
                    if p is False or q is False: return False
                    return True if (p and q) else None
                if p is True or q is True: return True
                return False if (p is False and q is False) else None
            return comb(a1, a2), comb(b1, b2)
        if c.op in ('lt', 'le', 'gt', 'ge'):
            (Va, Ea, Ra), (Vb, Eb, Rb) = rec(c.args[0]), rec(c.args[1])
            return decide(c.op, Va, Vb), decide(c.op, Ra, Rb)
        return None, None
    def fin(V, E, D=None):
        """assemble a result: D = direct enclosure of the computed value (if any)"""
        if D is not None:
            E = meet(E, D - V) if not (E.lo == 0 and E.hi == 0) else E
        R = meet(plus(V, E), D)
        return (V, E, R)
    def rec(n):
        r = cache.get(n.id)
        if r is not None: return r
        op = n.op
        if lemmas is not None and op not in ('const', 'sym', 'load'):
            Lm0 = lemmas(n)
            if isinstance(Lm0, tuple) and Lm0 and Lm0[0] == 'set':
                # a lemma that states the whole triple (ideal range, error, computed range) of a node, proved by its caller
                r = (Lm0[1], Lm0[2], Lm0[3]); cache[n.id] = r; return r
        if n.id in env:
            ev_ = env[n.id]
            # an input is either exact (an interval) or itself the result of an earlier stage: (V, E, R)
            r = ev_ if isinstance(ev_, tuple) else (ev_, ZERO, ev_)
        elif op == 'const':
            v = float(n.val); r = (I(v, v), ZERO, I(v, v))
        elif op in ('fadd', 'fsub'):
            (Va, Ea, Ra), (Vb, Eb, Rb) = rec(n.args[0]), rec(n.args[1])
            V = Va + Vb if op == 'fadd' else Va - Vb
            E = Ea + Eb if op == 'fadd' else Ea - Eb
            D = rounded(Ra + Rb if op == 'fadd' else Ra - Rb)
            r = fin(V, E + rnd(D), D)
        elif op == 'fmul':
            (Va, Ea, Ra), (Vb, Eb, Rb) = rec(n.args[0]), rec(n.args[1])
            V = Va * Vb
            E = Va * Eb + Rb * Ea            # = Va Eb + Vb Ea + Ea Eb  with Rb = Vb + Eb
            D = rounded(Ra * Rb)
            r = fin(V, E + rnd(D), D)
        elif op == 'fma':
            (Va, Ea, Ra), (Vb, Eb, Rb), (Vc, Ec, Rc) = rec(n.args[0]), rec(n.args[1]), rec(n.args[2])
            V = Va * Vb + Vc
            E = Va * Eb + Rb * Ea + Ec
            D = rounded(Ra * Rb + Rc)
            r = fin(V, E + rnd(D), D)
        elif op == 'fdiv':
            (Va, Ea, Ra), (Vb, Eb, Rb) = rec(n.args[0]), rec(n.args[1])
            if total and ((Vb.lo <= 0 <= Vb.hi) or (Rb.lo <= 0 <= Rb.hi)):
                TOPI = I(-INF, INF)
                if not (Rb.lo <= 0 <= Rb.hi):
                    r = (TOPI, TOPI, rounded(Ra / Rb))    # the COMPUTED divisor cannot vanish: its quotient is enclosed; nothing is said about the ideal one
                else:
                    r = (TOPI, TOPI, TOPI)          # range mode: an unbounded quotient instead of giving up (E is useless then)
            else:
                V = Va / Vb
                E = (Ea - V * Eb) / Rb
                D = rounded(Ra / Rb)
                r = fin(V, E + rnd(D), D)
        elif op == 'fneg':
            Va, Ea, Ra = rec(n.args[0]); r = (-Va, -Ea, -Ra)
        elif op == 'frem' and n.args[1].is_const and float(n.args[1].val) > 0:
            # fmod by a positive constant is exact in floating point; supported for an exact, non-negative argument
            Va, Ea, Ra = rec(n.args[0]); kq = float(n.args[1].val)
            if not _zero(Ea) or Va.lo < 0: raise Unsupported('remainder of an inexact or negative argument')
            qa, qb = math.floor(Va.lo / kq), math.floor(Va.hi / kq)
            W = I(dn(Va.lo - qa * kq), up(Va.hi - qa * kq)) if qa == qb else I(0.0, kq)
            r = (W, ZERO, W)
        elif op == 'cast' and X.is_float(n.ty) and X.is_float(n.args[0].ty):
            Va, Ea, Ra = rec(n.args[0])
            r = (Va, Ea, Ra) if n.args[0].ty[1] <= n.ty[1] else fin(Va, Ea + rnd(Ra), rounded(Ra))
        elif op == 'select' and _as_minmax(n) is not None:
            # select(x > k, k, x) is min(x, k) (1-Lipschitz: the error does not grow, whichever branches are taken)
            kind, xn, kn = _as_minmax(n)
            (Va, Ea, Ra), (Vb, Eb, Rb) = rec(xn), rec(kn)
            f = max if kind == 'max' else min
            V = I(f(Va.lo, Vb.lo), f(Va.hi, Vb.hi)); D = I(f(Ra.lo, Rb.lo), f(Ra.hi, Rb.hi))
            r = fin(V, I(min(Ea.lo, Eb.lo, 0.0), max(Ea.hi, Eb.hi, 0.0)), D)
        elif op == 'select':
            ci, cr = cond(n.args[0])
            if ci is True and cr is True: r = rec(n.args[1])
            elif ci is False and cr is False: r = rec(n.args[2])
            else:
                ref = _refine(n.args[0], env)
                if ref is not None:
                    # the condition compares an exact input with a constant: evaluate each branch on its own part of the box
                    parts = []
                    for envp, br in ((ref[0], n.args[1]), (ref[1], n.args[2])):
                        if envp is not None:
                            parts.append(errprop(br, envp, H, lemmas, total))
                    V, E, R = parts[0]
                    for (v2, e2, r2) in parts[1:]:
                        V, E, R = V.hull(v2), E.hull(e2), R.hull(r2)
                    r = (V, E, R)
                elif total and _node_test(n.args[0], rec) is not None:
                    # range mode:  |N| < k  /  |N - c| < k  on an inner node N: each branch is evaluated with the computed value
                    # of N confined to what the (computed) test leaves; ideal values and errors are not claimed (TOP)
                    N, then_R, else_R = _node_test(n.args[0], rec)
                    parts = []
                    for cons, br in ((then_R, n.args[1]), (else_R, n.args[2])):
                        if cons is None: continue
                        def lem2(m, cons=cons, N=N):
                            if m is N: return ('R', cons)
                            return lemmas(m) if lemmas is not None else None
                        parts.append(errprop(br, env, H, lem2, total)[2])
                    if not parts: raise Unsupported('both branches of a select are infeasible')
                    R = parts[0]
                    for r2 in parts[1:]: R = R.hull(r2)
                    TOPI = I(-INF, INF)
                    r = (TOPI, TOPI, R)
                else:
                    (Va, Ea, Ra), (Vb, Eb, Rb) = rec(n.args[1]), rec(n.args[2])
                    # a branch that returns the very value the condition tests is bounded by the test:
                    # select(x > k, A, x) yields x only when x <= k  (computed values; likewise for the ideal ones)
                    ca, cb = _clip_by_cond(n.args[0], n.args[1], True), _clip_by_cond(n.args[0], n.args[2], False)
                    if ca is not None: Ra = meet(Ra, ca); Va = meet(Va, ca)
                    if cb is not None: Rb = meet(Rb, cb); Vb = meet(Vb, cb)
                    V = Va.hull(Vb); E = Ea.hull(Eb); R = Ra.hull(Rb)
                    if cr is True: R = Ra
                    if cr is False: R = Rb
                    exact = all(_exact(rec(z)) for z in _cmp_operands(n.args[0]))
                    if not exact and not (ci is not None and ci == cr):
                        # the computed value may take the other branch than the ideal one
                        E = E.hull(Ra - Vb).hull(Rb - Va)
                    r = (V, E, R)
        elif op in ('call:max', 'call:min'):
            (Va, Ea, Ra), (Vb, Eb, Rb) = rec(n.args[0]), rec(n.args[1])
            f = max if op == 'call:max' else min
            V = I(f(Va.lo, Vb.lo), f(Va.hi, Vb.hi)); D = I(f(Ra.lo, Rb.lo), f(Ra.hi, Rb.hi))
            r = fin(V, I(min(Ea.lo, Eb.lo), max(Ea.hi, Eb.hi)), D)
        elif op == 'call:clamp':
            # clamp(x, lo, hi) = min(max(x, lo), hi): 1-Lipschitz in each argument
            (Va, Ea, Ra), (Vl, El, Rl), (Vh, Eh, Rh) = rec(n.args[0]), rec(n.args[1]), rec(n.args[2])
            cl = lambda A, L_, H_: I(min(max(A.lo, L_.lo), H_.lo), min(max(A.hi, L_.hi), H_.hi))
            r = fin(cl(Va, Vl, Vh), I(min(Ea.lo, El.lo, Eh.lo, 0.0), max(Ea.hi, El.hi, Eh.hi, 0.0)), cl(Ra, Rl, Rh))
        elif op == 'call:copysign':
            (Va, Ea, Ra), (Vb, Eb, Rb) = rec(n.args[0]), rec(n.args[1])
            m = Va.abs(); mr = Ra.abs()
            sg = lambda q, S: q if S.lo >= 0 else (-q if S.hi <= 0 else q.hull(-q))       # (a zero sign operand only matters when the magnitude is zero too - callers' curves vanish at 0)
            same = (Vb.lo >= 0 and Rb.lo >= 0) or (Vb.hi <= 0 and Rb.hi <= 0) or _zero(Eb)
            # if the computed and the ideal sign operand can differ in sign, the results can differ by |a'| + |a|
            r = fin(sg(m, Vb), sym(Ea.mag) if same else sym(up(m.mag + mr.mag)), sg(mr, Rb))
        elif op == 'call:abs':
            Va, Ea, Ra = rec(n.args[0]); r = fin(Va.abs(), sym(Ea.mag), Ra.abs())
        elif op == 'call:sqrt':
            Va, Ea, Ra = rec(n.args[0])
            V = i_sqrt(Va)
            if Ra.lo < 0 and Va.lo > 0: raise Unsupported('sqrt argument may become negative')
            Rp = I(max(Ra.lo, 0.0), max(Ra.hi, 0.0))
            D = rounded(i_sqrt(Rp))
            if Va.lo > 0 and Rp.lo > 0:
                E = Ea / (i_sqrt(Rp) + V)
            else:
                E = sym(math.sqrt(Ea.mag))
            r = fin(V, E + rnd(D), D)
        elif op in ('call:libm_ln', 'call:libm_log10'):
            Va, Ea, Ra = rec(n.args[0])
            if Va.lo <= 0 or Ra.lo <= 0: raise Unsupported('logarithm of a possibly non-positive value')
            fn = i_ln if op == 'call:libm_ln' else i_log10
            V = fn(Va); D0 = fn(Ra)
            D = D0 + libm_err(D0)                      # libm within 1 ulp (A-libm)
            sh = i_ln(ONE + Ea / Va)
            if op == 'call:libm_log10': sh = sh / I(dn(math.log(10.0)), up(math.log(10.0)))
            r = fin(V, sh + libm_err(D0), D)
        elif op == 'call:libm_exp':
            Va, Ea, Ra = rec(n.args[0]); V = i_exp(Va); D0 = i_exp(Ra)
            r = fin(V, V * (i_exp(Ea) - ONE) + libm_err(D0), D0 + libm_err(D0))
        elif op == 'call:libm_powf' or (op == 'app' and n.args[0].split('::')[-1] == 'powf'):
            args = n.args[1:] if op == 'app' else n.args
            (Vb, Eb, Rb), (Vy, Ey, Ry) = rec(args[0]), rec(args[1])
            if op == 'app':
                V, E, D = H.powf(Vb, Eb, Rb, Vy, Ey, Ry)
                r = fin(V, E, D)
            else:
                V, E, D = H.libm_pow(Vb, Eb, Rb, Vy, Ey, Ry)
                r = fin(V, E, D)
        elif op == 'app':
            name = n.args[0].split('::')[-1]
            Va, Ea, Ra = rec(n.args[1])
            if name == 'expf':
                V, E, D = H.expf(Va, Ea, Ra)
                r = fin(V, E, D)
            elif name == 'cbrtf':
                if H is None or H.cbrt_rel is None:
                    raise Unsupported((H.fail.get('cbrtf') if H is not None else None) or 'no certified cbrtf error')
                if Va.lo < 0 or Ra.lo < 0:
                    raise Unsupported('cbrtf of a possibly negative argument')
                from .ival import i_cbrt
                V = i_cbrt(Va); D0 = i_cbrt(Ra)
                if Va.lo > 0 and not _zero(Ea):
                    q = ONE + Ea / Va
                    if q.lo <= 0: raise Unsupported('argument error as large as the argument')
                    sh = V * (i_cbrt(q) - ONE)
                elif _zero(Ea):
                    sh = ZERO
                else:
                    sh = D0 - V
                r = fin(V, sh + sym(up(H.cbrt_rel * D0.mag)), D0 * I(1 - H.cbrt_rel, 1 + H.cbrt_rel))
            else: raise Unsupported(f"error propagation through {name}")
        else:
            raise Unsupported(f"error propagation through {op}")
        if lemmas is not None:
            Lm = lemmas(n)
            if isinstance(Lm, tuple) and Lm and Lm[0] == 'set':
                pass
            elif isinstance(Lm, tuple) and Lm and Lm[0] == 'R':
                r = (r[0], r[1], meet(r[2], Lm[1]))        # a fact about the computed value only
            elif Lm is not None:
                r = (meet(r[0], Lm), r[1], meet(r[2], Lm))
        cache[n.id] = r
        return r
    return rec(e)

def _as_minmax(n):
    """('min'|'max', x, k) when the select is  x > k ? k : x  (min)  or  x < k ? k : x  (max), k constant; NaN x passes through in both readings"""
    c, a, b = n.args
    if c.op not in ('lt', 'le', 'gt', 'ge'):
        return None
    p, q = c.args
    op = c.op
    if p.is_const and not q.is_const:
        p, q = q, p
        op = {'lt': 'gt', 'le': 'ge', 'gt': 'lt', 'ge': 'le'}[op]
    if not q.is_const:
        return None
    if a.is_const and a.val == q.val and b is p:
        return ('min' if op in ('gt', 'ge') else 'max', p, q)
    return None

def _clip_by_cond(c, branch, taken):
    """interval that `branch` is confined to when it is the tested operand of the comparison c against a constant"""
    if c.op not in ('lt', 'le', 'gt', 'ge'):
        return None
    a, b = c.args
    op = c.op
    if a.is_const and not b.is_const:
        a, b = b, a
        op = {'lt': 'gt', 'le': 'ge', 'gt': 'lt', 'ge': 'le'}[op]
    if not b.is_const or a is not branch:
        return None
    k = float(b.val)
    if not taken:
        op = {'lt': 'ge', 'le': 'gt', 'gt': 'le', 'ge': 'lt'}[op]
    if X.is_float(branch.ty) and branch.ty[1] == 32 and op in ('lt', 'gt'):
        import numpy as np                     # strict comparison of binary32 values: the neighbouring float is the bound
        k = float(np.nextafter(np.float32(k), np.float32(-np.inf if op == 'lt' else np.inf)))
    return I(-INF, k) if op in ('lt', 'le') else I(k, INF)

def _node_test(c, rec):
    """(N, enclosure of computed N where the test holds, enclosure where it fails) for a test  |N| < k  or  |N - c0| < k
    (k, c0 constants; lt / le) on the computed values; None for other shapes.  A side that is infeasible is None.
    fl is monotone: |fl(x)| < k  =>  |x| < k  is NOT needed; we use  |fl(x)| >= k  =>  |x| > pred(k)  and  |fl(x)| < k  =>  |x| < k"""
    if c.op not in ('lt', 'le') or not c.args[1].is_const or c.args[0].op != 'call:abs':
        return None
    k = float(c.args[1].val)
    if not (k > 0): return None
    A = c.args[0].args[0]
    c0 = 0.0
    N = A
    if A.op == 'fsub' and A.args[1].is_const:
        N, c0 = A.args[0], float(A.args[1].val)
    elif A.op == 'fadd' and A.args[1].is_const:
        N, c0 = A.args[0], -float(A.args[1].val)
    if N.is_const: return None
    RN = rec(N)[2]
    import numpy as np
    pk = float(np.nextafter(np.float32(k), np.float32(0)))       # pred(k) in binary32
    inside = I(dn(c0 - k), up(c0 + k))
    lo_i, hi_i = max(RN.lo, inside.lo), min(RN.hi, inside.hi)
    then_R = I(lo_i, hi_i) if lo_i <= hi_i else None
    parts = []
    if RN.lo <= up(c0 - pk): parts.append(I(RN.lo, min(RN.hi, up(c0 - pk))))
    if RN.hi >= dn(c0 + pk): parts.append(I(max(RN.lo, dn(c0 + pk)), RN.hi))
    else_R = None
    for p_ in parts:
        else_R = p_ if else_R is None else else_R.hull(p_)
    return N, then_R, else_R

def _refine(c, env):
    """(env for the then-branch, env for the else-branch) when c compares an input atom (possibly under
    max(.,const)) with a constant; either may be None (infeasible).  Closed boxes: the boundary point is in both."""
    if c.op not in ('lt', 'le', 'gt', 'ge'):
        return None
    a, b = c.args
    op = c.op
    if a.is_const and not b.is_const:
        a, b = b, a
        op = {'lt': 'gt', 'le': 'ge', 'gt': 'lt', 'ge': 'le'}[op]
    if not b.is_const:
        return None
    k = float(b.val)
    floor_ = None
    if a.op == 'call:max' and any(z.is_const for z in a.args):
        floor_ = float([z for z in a.args if z.is_const][0].val)
        a = [z for z in a.args if not z.is_const][0]
    if a.id not in env or isinstance(env[a.id], tuple):
        return None
    B = env[a.id]
    if floor_ is not None and B.lo < floor_:
        return None
    below = I(B.lo, min(B.hi, k)) if B.lo <= k else None
    above = I(max(B.lo, k), B.hi) if B.hi >= k else None
    mk = lambda P: None if P is None else {**env, a.id: P}
    if op in ('lt', 'le'):
        return mk(below), mk(above)
    return mk(above), mk(below)

def _exact(ve):
    return ve[1].lo == 0 and ve[1].hi == 0

def _cmp_operands(c):
    if c.op in ('lt', 'le', 'gt', 'ge', 'eq', 'ne'):
        return list(c.args)
    out = []
    for a in c.args:
        if hasattr(a, 'op'): out += _cmp_operands(a)
    return out

def sup_error(e, x, H, lo, hi, target, max_boxes=20000, min_width=1e-12, identity=False):
    """upper bound of sup_[lo,hi] |computed - ideal| by branch and bound; returns (upper, boxes, worst_box).
    identity=True: bounds sup |computed(x) - x| instead (the enclosure R of the computed value over the box minus the box:
    signed, so the formula-level deviation and the implementation error are not added in absolute value)"""
    import heapq
    def bound(a, b):
        try:
            V, E, R = errprop(e, {x.id: I(a, b)}, H)
        except (ZeroDivisionError, OverflowError, Unsupported) as ex:
            last[0] = str(ex)
            return INF            # may be an artefact of a wide box: split; reported if it persists at min_width
        if identity:
            D = R - I(a, b)
            return D.mag if D.mag == D.mag else INF
        return E.mag if E.mag == E.mag else INF
    last = ['']
    heap = [(-bound(lo, hi), lo, hi)]
    if heap[0][0] == -INF and last[0].startswith('structure of'):
        return INF, 0, None, last[0]
    n = 0
    done = 0.0
    worst = None
    while heap and n < max_boxes:
        nb, a, b = heap[0]
        if -nb <= target:
            break
        heapq.heappop(heap)
        n += 1
        if b - a < min_width:
            done = max(done, -nb); worst = (a, b)
            continue
        m = (a + b) / 2
        for (c, d) in ((a, m), (m, b)):
            heapq.heappush(heap, (-bound(c, d), c, d))
    top = -heap[0][0] if heap else 0.0
    if heap and top > done: worst = (heap[0][1], heap[0][2])
    return max(done, top), n, worst, last[0]

def certified_app_hook(H: Helpers):
    """frange.APP_HOOK: range of a powf/expf application from the certified relative error bound
    (engine/approx.py) wherever its preconditions hold, the generic binade-wise body analysis elsewhere"""
    from . import frange as FR
    TINY = 2.0 ** -126
    def hook(n, rec):
        generic = lambda: FR.app_range(n, rec, FR._DYN_ATOM[0])
        try:
            name = n.args[0].split('::')[-1]
            rs = [rec(a) for a in n.args[1:]]
            if any(r[2] or abs(r[0]) == INF or abs(r[1]) == INF for r in rs):
                return generic()
            if name == 'powf' and H.kind.get('powf') == 'poly' and H.pow is not None and 'powf' not in H.fail:
                (blo, bhi, _), (ylo, yhi, _) = rs
                if blo < 0 or max(abs(ylo), abs(yhi)) > 80:
                    return generic()
                c = H.pow
                B = approx.powf_bound(c, max(abs(ylo), abs(yhi)))
                if not math.isfinite(B):
                    return generic()
                lo, hi = INF, -INF
                if blo < TINY:
                    if ylo <= 0:
                        return generic()
                    top = i_pow(I(TINY, TINY), ylo).hi
                    lo, hi = 0.0, up(top * (1 + c['bound80']) + 1e-36)
                    if bhi <= TINY:
                        return (lo, hi, False)
                    blo = TINY
                Bx = I(blo, bhi); Y = I(ylo, yhi)
                Xr = i_log2(Bx) * Y
                if Xr.mag > approx.LOG2_1E35:
                    return generic()
                ideal = Helpers._ideal_pow(Bx, Y) if (ylo == yhi or blo == bhi) else i_exp2(Xr)
                r = ideal * I(1 - B, 1 + B)
                return (min(lo, max(r.lo, 0.0)), max(hi, r.hi), False)
            if name == 'expf' and H.kind.get('expf') == 'poly' and H.exp is not None and 'expf' not in H.fail:
                (alo, ahi, _), = rs
                if alo < -85 or ahi > 85 or not math.isfinite(H.exp['bound']):
                    return generic()
                b = H.exp['bound']
                r = i_exp(I(alo, ahi)) * I(1 - b, 1 + b)
                return (max(r.lo, 0.0), r.hi, False)
        except (Unsupported, ZeroDivisionError, OverflowError, ValueError):
            pass
        return generic()
    return hook

def sup_error_nd(e, atoms, H, box, target, max_boxes=20000, lemmas=None, feasible=None, min_width=1e-9):
    """upper bound of sup |computed - ideal| of e over an n-dimensional box (list of (lo, hi) per atom), restricted to
    the boxes for which feasible(env) is not False; best-first branch and bound splitting the widest side.
    returns (upper, boxes, worst box, last failure message)"""
    import heapq, itertools
    last = ['']
    cnt = itertools.count()
    def bound(bx):
        env = {a.id: I(lo, hi) for a, (lo, hi) in zip(atoms, bx)}
        if feasible is not None and feasible(env) is False:
            return None
        try:
            V, E, R = errprop(e, env, H, lemmas)
        except (ZeroDivisionError, OverflowError, Unsupported) as ex:
            last[0] = str(ex)
            return INF
        return E.mag if E.mag == E.mag else INF
    b0 = bound(box)
    if b0 is None:
        return 0.0, 0, None, ''
    heap = [(-b0, next(cnt), box)]
    n = 0
    done = 0.0
    worst = None
    while heap and n < max_boxes:
        nb, _, bx = heap[0]
        if -nb <= target:
            break
        heapq.heappop(heap)
        n += 1
        widths = [hi - lo for lo, hi in bx]
        j = max(range(len(bx)), key=lambda i: widths[i])
        if widths[j] < min_width:
            done = max(done, -nb); worst = bx
            continue
        lo, hi = bx[j]; m = (lo + hi) / 2
        for part in ((lo, m), (m, hi)):
            nbx = list(bx); nbx[j] = part
            b = bound(nbx)
            if b is not None:
                heapq.heappush(heap, (-b, next(cnt), nbx))
    top = -heap[0][0] if heap else 0.0
    if heap and top > done: worst = heap[0][2]
    return max(done, top), n, worst, last[0]
