"""Scalar expression DAG used by the MIR abstract interpreter.

Every scalar the interpreter manipulates is an `E`: a hash-consed node with a machine
type.  When all operands are constants the node is folded with *exact machine
semantics* (two's-complement integers, IEEE-754 binary32/binary64 round-to-nearest-even,
Rust's `as` cast rules) - this is constant propagation, nothing of /repo is executed.
Symbolic nodes are kept as trees and analysed later (intervals, affine forms, error
bounds) by the numeric back ends.
"""
from __future__ import annotations
import math, struct
from fractions import Fraction

# ----------------------------------------------------------------------------- types
def TI(bits, signed):
    return ('i', bits, bool(signed))
def TF(bits):
    return ('f', bits)
TB = ('b',)
U8, U16, U32, U64, USIZE = TI(8, 0), TI(16, 0), TI(32, 0), TI(64, 0), TI(64, 0)
I32, I64, ISIZE = TI(32, 1), TI(64, 1), TI(64, 1)
F32, F64 = TF(32), TF(64)

def is_int(t): return t[0] == 'i'
def is_float(t): return t[0] == 'f'
def is_bool(t): return t[0] == 'b'

def int_range(t):
    _, bits, signed = t
    if signed:
        return -(1 << (bits - 1)), (1 << (bits - 1)) - 1
    return 0, (1 << bits) - 1

def wrap_int(t, v):
    _, bits, signed = t
    v &= (1 << bits) - 1
    if signed and v >> (bits - 1):
        v -= 1 << bits
    return v

# ------------------------------------------------------------------ IEEE helpers
def f32_bits(x: float) -> int:
    return struct.unpack('<I', struct.pack('<f', x))[0]
def bits_f32(b: int) -> float:
    return struct.unpack('<f', struct.pack('<I', b & 0xFFFFFFFF))[0]
def f64_bits(x: float) -> int:
    return struct.unpack('<Q', struct.pack('<d', x))[0]
def bits_f64(b: int) -> float:
    return struct.unpack('<d', struct.pack('<Q', b & 0xFFFFFFFFFFFFFFFF))[0]

def fbits(t, x):
    return f32_bits(x) if t[1] == 32 else f64_bits(x)
def bitsf(t, b):
    return bits_f32(b) if t[1] == 32 else bits_f64(b)

_FMT = {32: (24, -126, 127), 64: (53, -1022, 1023)}

def round_frac(r: Fraction, bits: int) -> float:
    """Round an exact rational to binary32/binary64, round-to-nearest-even, with
    subnormals and overflow to infinity.  The result is returned as a Python float
    that is exactly representable in the target format."""
    if r == 0:
        return 0.0
    p, emin, emax = _FMT[bits]
    sign = -1 if r < 0 else 1
    a = abs(r)
    # exponent e with 2^e <= a < 2^(e+1)
    e = a.numerator.bit_length() - a.denominator.bit_length()
    if Fraction(2) ** e > a:
        e -= 1
    elif Fraction(2) ** (e + 1) <= a:
        e += 1
    e = max(e, emin)
    # quantum 2^(e-p+1)
    q = Fraction(2) ** (e - p + 1)
    m = a / q
    fl = m.numerator // m.denominator
    rem = m - fl
    if rem > Fraction(1, 2) or (rem == Fraction(1, 2) and (fl & 1)):
        fl += 1
    val = fl * q
    if val >= Fraction(2) ** (emax + 1):
        return sign * math.inf
    return sign * float(val)     # exact: val has <= p significant bits (p<=53)

def to_f32(x: float) -> float:
    """Round a double to the nearest binary32 (ties to even); NaN/inf preserved."""
    if x != x or x in (math.inf, -math.inf):
        return x
    try:
        return struct.unpack('<f', struct.pack('<f', x))[0]
    except OverflowError:
        return math.copysign(math.inf, x)

def fround(t, x):
    return to_f32(x) if t[1] == 32 else x

def exact_binop(op, t, a: float, b: float) -> float:
    """IEEE + - * / on binary32 or binary64 operands (given as exactly representable
    Python floats).  For binary32 the double result of + - * is exact or correctly
    roundable without double-rounding issues (p64 >= 2*p32+2), division likewise."""
    try:
        if op == 'add': r = a + b
        elif op == 'sub': r = a - b
        elif op == 'mul': r = a * b
        elif op == 'div':
            if b == 0:
                if a != a or a == 0: return math.nan
                neg = (math.copysign(1, a) < 0) != (math.copysign(1, b) < 0)
                return -math.inf if neg else math.inf
            r = a / b
        elif op == 'rem':
            if b == 0 or a in (math.inf, -math.inf) or a != a or b != b: return math.nan
            r = math.fmod(a, b)
        else:
            raise ValueError(op)
    except OverflowError:
        r = math.inf
    return fround(t, r)

def exact_fma(t, a, b, c):
    for v in (a, b, c):
        if v != v:
            return math.nan
    if any(v in (math.inf, -math.inf) for v in (a, b, c)):
        try:
            return fround(t, a * b + c)
        except Exception:
            return math.nan
    r = Fraction(a) * Fraction(b) + Fraction(c)
    if r == 0:
        # sign of an exact zero sum: +0 unless both addends are -0
        prod_neg = (math.copysign(1, a) < 0) != (math.copysign(1, b) < 0)
        if a * b == 0 and c == 0:
            return -0.0 if (prod_neg and math.copysign(1, c) < 0) else 0.0
        return 0.0
    return round_frac(r, t[1])

def cast_float_to_int(t, x: float) -> int:
    lo, hi = int_range(t)
    if x != x:
        return 0
    if x == math.inf:
        return hi
    if x == -math.inf:
        return lo
    v = int(x)   # truncation toward zero
    return min(max(v, lo), hi)

def cast_int_to_float(t, v: int) -> float:
    return round_frac(Fraction(v), t[1])

def rust_round(x: float) -> float:   # half away from zero
    if x != x or x in (math.inf, -math.inf):
        return x
    f = math.floor(abs(x) + 0.5) if abs(x) < 2 ** 52 else abs(x)
    # abs(x)+0.5 may round; do it exactly
    if abs(x) < 2 ** 52:
        fr = Fraction(abs(x)) + Fraction(1, 2)
        f = float(fr.numerator // fr.denominator)
    return math.copysign(f, x)

# ------------------------------------------------------------------------ E nodes
_TABLE: dict = {}
_COUNTER = [0]

class E:
    __slots__ = ('op', 'args', 'ty', 'val', 'id', '_rng')

    def __init__(self, op, args, ty, val=None):
        self.op, self.args, self.ty, self.val = op, args, ty, val
        _COUNTER[0] += 1
        self.id = _COUNTER[0]
        self._rng = None

    @property
    def is_const(self):
        return self.op == 'const'

    def __repr__(self):
        return show(self)

def _mk(op, args, ty, val=None):
    key = (op, tuple(a.id if isinstance(a, E) else a for a in args), ty,
           (fbits(ty, val) if (op == 'const' and is_float(ty)) else val))
    n = _TABLE.get(key)
    if n is None:
        n = E(op, tuple(args), ty, val)
        _TABLE[key] = n
    return n

def const(ty, v):
    if is_int(ty):
        v = wrap_int(ty, int(v))
    elif is_bool(ty):
        v = bool(v)
    else:
        v = float(v)
    return _mk('const', (), ty, v)

def const_bits(ty, bits: int):
    if is_float(ty):
        return const(ty, bitsf(ty, bits))
    if is_bool(ty):
        return const(ty, bits != 0)
    return const(ty, bits)

def cbool(b): return const(TB, b)
TRUE, FALSE = None, None

SYM_INFO: dict = {}

def sym(ty, name, lo=None, hi=None, **info):
    """A symbolic atom. lo/hi are declared bounds (assumptions of the analysis)."""
    n = _mk('sym', (name,), ty)
    d = SYM_INFO.setdefault(name, {})
    if lo is not None: d['lo'] = lo
    if hi is not None: d['hi'] = hi
    d.update(info)
    return n

_fresh = [0]
def fresh(ty, prefix, lo=None, hi=None, **info):
    _fresh[0] += 1
    return sym(ty, f"{prefix}#{_fresh[0]}", lo, hi, **info)

# ---------------------------------------------------------------- constructors
INT_BIN = {'add', 'sub', 'mul', 'div', 'rem', 'and', 'or', 'xor', 'shl', 'shr'}
CMP = {'eq', 'ne', 'lt', 'le', 'gt', 'ge'}

def _cmp(op, a, b):
    return {'eq': a == b, 'ne': a != b, 'lt': a < b, 'le': a <= b, 'gt': a > b, 'ge': a >= b}[op]

def binop(op, a: E, b: E, wrap=True) -> E:
    """Machine binary operation on same-typed operands (shifts: b may differ).
    Integer results are *mathematical* unless `wrap` and the operation folds; symbolic
    integer nodes denote mathematical integers and carry no wrap-around (the caller
    establishes range separately, see interp.int_arith)."""
    t = a.ty
    if op in CMP:
        if a.is_const and b.is_const:
            return cbool(_cmp(op, a.val, b.val))
        if a is b and not is_float(t):
            return cbool(op in ('eq', 'le', 'ge'))
        return _mk(op, (a, b), TB)
    if is_float(t):
        if a.is_const and b.is_const:
            return const(t, exact_binop(op, t, a.val, b.val))
        return _mk('f' + op, (a, b), t)
    if is_bool(t):
        if a.is_const and b.is_const:
            r = {'and': a.val and b.val, 'or': a.val or b.val, 'xor': a.val != b.val,
                 'eq': a.val == b.val, 'ne': a.val != b.val}[op]
            return cbool(r)
        if op == 'and':
            if a.is_const: return b if a.val else cbool(False)
            if b.is_const: return a if b.val else cbool(False)
        if op == 'or':
            if a.is_const: return cbool(True) if a.val else b
            if b.is_const: return cbool(True) if b.val else a
        return _mk('b' + op, (a, b), TB)
    # integers
    if a.is_const and b.is_const:
        x, y = a.val, b.val
        if op == 'add': r = x + y
        elif op == 'sub': r = x - y
        elif op == 'mul': r = x * y
        elif op == 'div':
            if y == 0: return _mk('idiv', (a, b), t)
            r = abs(x) // abs(y) * (1 if (x >= 0) == (y >= 0) else -1)
        elif op == 'rem':
            if y == 0: return _mk('irem', (a, b), t)
            r = abs(x) % abs(y) * (1 if x >= 0 else -1)
        elif op == 'and': r = (x & y) if (x >= 0 and y >= 0) else wrap_int(t, (x & ((1 << t[1]) - 1)) & (y & ((1 << t[1]) - 1)))
        elif op == 'or': r = wrap_int(t, (x & ((1 << t[1]) - 1)) | (y & ((1 << t[1]) - 1)))
        elif op == 'xor': r = wrap_int(t, (x & ((1 << t[1]) - 1)) ^ (y & ((1 << t[1]) - 1)))
        elif op == 'shl': r = (x & ((1 << t[1]) - 1)) << (y & (t[1] - 1))
        elif op == 'shr': r = x >> (y & (t[1] - 1))
        else: raise ValueError(op)
        return const(t, r) if wrap else _mk('const', (), t, r)
    # light identities that are exact on mathematical integers
    if op == 'add':
        if a.is_const and a.val == 0: return b
        if b.is_const and b.val == 0: return a
    if op == 'sub' and b.is_const and b.val == 0: return a
    if op == 'mul':
        if a.is_const and a.val == 1: return b
        if b.is_const and b.val == 1: return a
        if (a.is_const and a.val == 0) or (b.is_const and b.val == 0): return const(t, 0)
    if op in ('shl', 'shr') and b.is_const and b.val == 0: return a
    if op == 'div' and b.is_const and b.val == 1: return a
    return _mk('i' + op, (a, b), t)

def unop(op, a: E) -> E:
    t = a.ty
    if op == 'not':
        if a.is_const:
            if is_bool(t): return cbool(not a.val)
            return const(t, ~a.val)
        if is_bool(t):
            inv = {'eq': 'ne', 'ne': 'eq', 'lt': 'ge', 'ge': 'lt', 'le': 'gt', 'gt': 'le'}
            if a.op in inv and not is_float(a.args[0].ty):
                return _mk(inv[a.op], a.args, TB)
            if a.op == 'bnot': return a.args[0]
            return _mk('bnot', (a,), TB)
        return _mk('inot', (a,), t)
    if op == 'neg':
        if a.is_const:
            if is_float(t): return const(t, -a.val)
            return const(t, -a.val)
        return _mk('fneg' if is_float(t) else 'ineg', (a,), t)
    raise ValueError(op)

def fma(a, b, c):
    t = a.ty
    if a.is_const and b.is_const and c.is_const:
        return const(t, exact_fma(t, a.val, b.val, c.val))
    return _mk('fma', (a, b, c), t)

def _rust_fmax(a, b):   # returns the non-NaN operand
    if a != a: return b
    if b != b: return a
    if a == 0 and b == 0:   # sign of zero unspecified by Rust docs; pick IEEE maxNum-like
        return a if math.copysign(1, a) > 0 else b
    return a if a > b else b
def _rust_fmin(a, b):
    if a != a: return b
    if b != b: return a
    if a == 0 and b == 0:
        return a if math.copysign(1, a) < 0 else b
    return a if a < b else b

def fcall(name, args, ty=None):
    """Float library operation (std f32/f64 methods).  Exactly specified operations are
    folded; transcendental libm functions (ln, log10, exp, powf, cbrt) are never folded:
    they stay symbolic and are enclosed by 1-ulp intervals by the numeric back end."""
    a = args[0]
    t = ty or a.ty
    if all(x.is_const for x in args):
        v = [x.val for x in args]
        if name == 'abs': return const(t, abs(v[0]))
        if name == 'max': return const(t, _rust_fmax(v[0], v[1]))
        if name == 'min': return const(t, _rust_fmin(v[0], v[1]))
        if name == 'clamp':     # f32::clamp: NaN propagates; bounds are constants
            x, lo, hi = v
            if x != x: return const(t, x)
            return const(t, lo if x < lo else hi if x > hi else x)
        if name == 'floor':
            return const(t, v[0] if (v[0] != v[0] or abs(v[0]) == math.inf) else float(math.floor(v[0])))
        if name == 'round': return const(t, rust_round(v[0]))
        if name == 'trunc':
            return const(t, v[0] if (v[0] != v[0] or abs(v[0]) == math.inf) else math.copysign(float(math.trunc(v[0])), v[0]))
        if name == 'ceil':
            return const(t, v[0] if (v[0] != v[0] or abs(v[0]) == math.inf) else math.copysign(float(math.ceil(v[0])), v[0]) if math.ceil(v[0]) == 0 else float(math.ceil(v[0])))
        if name == 'sqrt':
            if v[0] < 0: return const(t, math.nan)
            if v[0] != v[0] or v[0] == math.inf: return const(t, v[0])
            # correctly rounded sqrt: math.sqrt is correctly rounded for binary64; for
            # binary32 rounding the binary64 result is exact enough (p64 >= 2*p32+2)
            return const(t, fround(t, math.sqrt(v[0])))
        if name == 'copysign': return const(t, math.copysign(v[0], v[1]) if v[0] == v[0] else math.copysign(math.nan, v[1]))
    return _mk('call:' + name, tuple(args), t)

def cast(kind, a: E, to) -> E:
    """MIR casts between scalars: IntToInt, FloatToInt (saturating), IntToFloat,
    FloatToFloat, plus 'bits' (to_bits/from_bits/transmute between same-size scalars)."""
    t = a.ty
    if kind == 'bits':
        if a.is_const:
            if is_float(t) and is_int(to): return const(to, fbits(t, a.val))
            if is_int(t) and is_float(to): return const_bits(to, a.val & ((1 << t[1]) - 1))
            if is_int(t) and is_int(to): return const(to, a.val)
        if a.op == 'cast:bits' and a.args[0].ty == to:
            return a.args[0]
        return _mk('cast:bits', (a,), to)
    if a.is_const:
        if is_bool(t):
            return const(to, int(a.val)) if is_int(to) else const(to, float(a.val))
        if is_int(t) and is_int(to): return const(to, a.val)
        if is_int(t) and is_float(to): return const(to, cast_int_to_float(to, a.val))
        if is_float(t) and is_int(to): return const(to, cast_float_to_int(to, a.val))
        if is_float(t) and is_float(to): return const(to, fround(to, a.val))
        if is_int(t) and is_bool(to): return cbool(a.val != 0)
    if t == to:
        return a
    return _mk('cast', (a,), to)

def select(c: E, a: E, b: E) -> E:
    if c.is_const:
        return a if c.val else b
    if a is b:
        return a
    if is_bool(a.ty):
        if b.is_const: return binop('and', c, a) if not b.val else binop('or', unop('not', c), a)
        if a.is_const: return binop('or', c, b) if a.val else binop('and', unop('not', c), b)
    if is_int(a.ty) and c.op in ('lt', 'le', 'gt', 'ge') and len(c.args) == 2:
        # integer min / max idioms (exact on integers; floats keep the select because of NaN)
        x, y = c.args
        if (x is a and y is b) or (x is b and y is a):
            takes_smaller = (c.op in ('lt', 'le')) == (x is a)
            return _mk('imin' if takes_smaller else 'imax', (b, a) if (a.is_const and not b.is_const) else (a, b), a.ty) if not (a.is_const and b.is_const) else const(a.ty, min(a.val, b.val) if takes_smaller else max(a.val, b.val))
    return _mk('select', (c, a, b), a.ty)

def node(op, args, ty):
    return _mk(op, tuple(args), ty)

# ----------------------------------------------------------------------- utilities
def show(e: E, depth=6) -> str:
    if e.op == 'const':
        if is_float(e.ty):
            return repr(e.val) + ('f32' if e.ty[1] == 32 else 'f64')
        return str(e.val)
    if e.op == 'sym':
        return e.args[0]
    if depth == 0:
        return '...'
    parts = []
    for a in e.args:
        parts.append(show(a, depth - 1) if isinstance(a, E) else repr(a))
    return f"{e.op}({', '.join(parts)})"

def walk(e: E, seen=None):
    """Post-order iteration over distinct sub-nodes."""
    if seen is None:
        seen = set()
    stack = [(e, False)]
    while stack:
        n, done = stack.pop()
        if n.id in seen and not done:
            continue
        if done:
            yield n
            continue
        seen.add(n.id)
        stack.append((n, True))
        for a in n.args:
            if isinstance(a, E) and a.id not in seen:
                stack.append((a, False))

def atoms(e: E):
    return [n for n in walk(e) if n.op == 'sym' or n.op.startswith('load')]

def substitute(e: E, mapping: dict, cache=None) -> E:
    """Rebuild `e` with the atoms in `mapping` (id -> E) replaced, re-running the
    folding constructors so that constants propagate."""
    if cache is None:
        cache = {}
    def rec(n):
        if n.id in mapping:
            return mapping[n.id]
        if n.id in cache:
            return cache[n.id]
        if not n.args or n.op in ('const', 'sym'):
            cache[n.id] = n
            return n
        new = [rec(a) if isinstance(a, E) else a for a in n.args]
        if all(x is y for x, y in zip(new, n.args)):
            r = n
        else:
            r = rebuild(n.op, new, n.ty)
        cache[n.id] = r
        return r
    return rec(e)

def rebuild(op, args, ty):
    if op in CMP:
        return binop(op, args[0], args[1])
    if op[0] == 'f' and op[1:] in ('add', 'sub', 'mul', 'div', 'rem'):
        return binop(op[1:], args[0], args[1])
    if op[0] == 'i' and op[1:] in INT_BIN:
        return binop(op[1:], args[0], args[1])
    if op[0] == 'b' and op[1:] in ('and', 'or', 'xor'):
        return binop(op[1:], args[0], args[1])
    if op in ('bnot', 'inot'): return unop('not', args[0])
    if op in ('fneg', 'ineg'): return unop('neg', args[0])
    if op == 'fma': return fma(*args)
    if op.startswith('call:'): return fcall(op[5:], args, ty)
    if op == 'cast': return cast('num', args[0], ty)
    if op == 'cast:bits': return cast('bits', args[0], ty)
    if op == 'select': return select(*args)
    if op in ('imin', 'imax') and all(a.is_const for a in args):
        return const(ty, min(args[0].val, args[1].val) if op == 'imin' else max(args[0].val, args[1].val))
    if op == 'icast' and args[0].is_const:
        return const(ty, args[0].val)
    if op == 'wrap' and args[0].is_const:
        return const(ty, args[0].val)          # const() wraps into the type
    if op == 'ftoi_unchecked' and args[0].is_const:
        v = args[0].val
        lo, hi = int_range(ty)
        if v == v and lo - 1 < v < hi + 1:
            return const(ty, int(v))
    if op == 'outside' and args[0].is_const:
        lo, hi = int_range(args[0].ty)
        return cbool(not (lo <= args[0].val <= hi))
    return _mk(op, tuple(args), ty)
