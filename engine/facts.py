"""Fact generation (runs the mirfacts driver on /repo's current working tree) and loading."""
from __future__ import annotations
import hashlib, json, os, shutil, subprocess, tempfile, time

VERIF = os.path.dirname(os.path.dirname(os.path.abspath(__file__)))
REPO = os.environ.get('VERIF_REPO', '/repo')
DRIVER = os.environ.get('VERIF_DRIVER') or os.path.join(VERIF, 'driver', 'target', 'release', 'mirfacts')
CACHE = os.path.join(os.environ.get('VERIF_OUT_DIR', VERIF), '.cache')      # (self-test runs keep their own cache: no cross-job pruning)

# build configurations (DESIGN.md section 2.1)
CONFIGS = {
    'K1': dict(rustflags='', cargo=[]),                                   # default features, overflow checks on
    'K2': dict(rustflags='-C target-feature=+fma', cargo=[]),             # FMA target feature
    'K3': dict(rustflags='', cargo=['--no-default-features']),            # fastmath feature off (as documented)
    'K4': dict(rustflags='-C overflow-checks=off -C debug-assertions=off', cargo=[]),  # release arithmetic
}

def tree_hash() -> str:
    """Content hash of everything the build reads: sources and manifests of /repo."""
    h = hashlib.sha256()
    files = []
    for root, dirs, fs in os.walk(REPO):
        dirs[:] = [d for d in dirs if d not in ('target', '.git', 'test_data', 'benches', '.github')]
        for f in fs:
            if f.endswith(('.rs', '.toml', '.lock')):
                files.append(os.path.join(root, f))
    for p in sorted(files):
        h.update(os.path.relpath(p, REPO).encode())
        with open(p, 'rb') as fh:
            h.update(fh.read())
    for p in (os.path.join(VERIF, 'driver', 'descend.txt'), DRIVER):
        if os.path.exists(p):
            with open(p, 'rb') as fh:
                h.update(fh.read())
    return h.hexdigest()[:20]

def sysroot() -> str:
    return subprocess.check_output(['rustc', '+nightly', '--print', 'sysroot'], text=True).strip()

def generate(cfg: str, out_dir: str):
    c = CONFIGS[cfg]
    tgt = tempfile.mkdtemp(prefix='verif-tgt-')
    env = dict(os.environ)
    env['LD_LIBRARY_PATH'] = os.path.join(sysroot(), 'lib') + ':' + env.get('LD_LIBRARY_PATH', '')
    env['RUSTFLAGS'] = ('-Zmir-opt-level=0 -Zalways-encode-mir -Awarnings ' + c['rustflags']).strip()
    env['RUSTC_WRAPPER'] = DRIVER
    env['VERIF_FACTS_DIR'] = out_dir
    env['VERIF_DESCEND'] = os.path.join(VERIF, 'driver', 'descend.txt')
    env['CARGO_TARGET_DIR'] = tgt
    env['CARGO_NET_OFFLINE'] = 'true'
    os.makedirs(out_dir, exist_ok=True)
    try:
        p = subprocess.run(['cargo', '+nightly', 'check', '--offline', '--lib'] + c['cargo'],
                           cwd=REPO, env=env, capture_output=True, text=True)
        if p.returncode != 0:
            raise RuntimeError('cargo check failed for build config %s:\n%s' % (cfg, p.stderr[-4000:]))
        for crate in ('yuvxyb', 'yuvxyb_math'):
            if not os.path.exists(os.path.join(out_dir, crate + '.json')):
                raise RuntimeError('driver did not write facts for %s (%s)' % (crate, cfg))
    finally:
        shutil.rmtree(tgt, ignore_errors=True)

_LOADED = {}

def facts_dir(cfg: str) -> str:
    if not os.path.exists(DRIVER):
        raise RuntimeError('driver not built: run MANIFEST.setup_cmd')
    h = tree_hash()
    d = os.path.join(CACHE, h, cfg)
    if not (os.path.exists(os.path.join(d, 'yuvxyb.json')) and os.path.exists(os.path.join(d, 'yuvxyb_math.json'))):
        tmp = d + '.tmp%d' % os.getpid()
        shutil.rmtree(tmp, ignore_errors=True)
        try:
            generate(cfg, tmp)
        except RuntimeError:
            shutil.rmtree(tmp, ignore_errors=True)
            time.sleep(2)
            generate(cfg, tmp)          # one retry (transient failures under heavy parallel load)
        os.makedirs(os.path.dirname(d), exist_ok=True)
        shutil.rmtree(d, ignore_errors=True)
        os.rename(tmp, d)
        prune_cache(keep=h)
    return d

def prune_cache(keep: str):
    """Keep the cache small: only the current tree hash and the most recent other one."""
    try:
        ents = [e for e in os.listdir(CACHE) if e not in (keep, 'bb') and os.path.isdir(os.path.join(CACHE, e))]
        ents.sort(key=lambda e: os.path.getmtime(os.path.join(CACHE, e)))
        for e in ents[:-2]:
            shutil.rmtree(os.path.join(CACHE, e), ignore_errors=True)
    except FileNotFoundError:
        pass

class Crate:
    def __init__(self, doc):
        self.doc = doc
        self.name = doc['crate']
        self.types = doc['types']
        self.fns = {f['key']: f for f in doc['fns']}
        self.by_def = {}
        for f in doc['fns']:
            self.by_def.setdefault(f['def'], []).append(f)
        self.items = doc['items']
        self.consts = {c['def']: c for c in doc['consts']}
        self.impls = doc['impls']
        self.unsafe_blocks = doc['unsafe_blocks']
        self.cfg = doc['cfg']
        self.overflow_checks = doc['overflow_checks']

    def ty(self, tid):
        return self.types[tid]

def load(cfg: str, crate: str) -> Crate:
    key = (tree_hash(), cfg, crate)
    if key not in _LOADED:
        d = facts_dir(cfg)
        with open(os.path.join(d, crate + '.json')) as fh:
            _LOADED[key] = Crate(json.load(fh))
    return _LOADED[key]
