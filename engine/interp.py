"""Abstract interpreter for the monomorphic MIR dumped by the mirfacts driver.

Pure static analysis: MIR is interpreted over the value model of values.py with
symbolic scalars (expr.E); constants and the finite configuration are propagated
exactly; loops are summarised (one symbolic iteration, universally quantified store
summaries) or, for constant small trip counts, unrolled.  Nothing of /repo is executed.
"""
from __future__ import annotations
import math
from . import expr as X
from .expr import E
from .values import *

APP_DEFS = ('yuvxyb_math::powf', 'yuvxyb_math::expf', 'yuvxyb_math::cbrtf', 'powf', 'expf', 'cbrtf', 'pow_exp::powf', 'pow_exp::expf', 'cbrtf::cbrtf')
MAX_UNROLL = 8
MAX_BLOCK_VISITS = 4000

# ---------------------------------------------------------------------------- state
class State:
    __slots__ = ('heap', 'pc', 'stack', 'loopmode', 'loops', 'nobj', 'borrow_flat', 'notes', 'nopanic')
    def __init__(self):
        self.heap = {}
        self.pc = ()
        self.stack = ()
        self.loopmode = {}
        self.loops = ()       # active loop records (innermost last)
        self.nobj = [1]
        self.borrow_flat = {}
        self.notes = ()
        self.nopanic = frozenset()   # ids of path conditions whose failure certainly ends in a panic (`assert!(c)`): they hold in every execution that returns
    def clone(self):
        s = State.__new__(State)
        s.heap = dict(self.heap)
        s.pc = self.pc
        s.stack = self.stack
        s.loopmode = dict(self.loopmode)
        s.loops = self.loops
        s.nobj = self.nobj
        s.borrow_flat = dict(self.borrow_flat)
        s.notes = self.notes
        s.nopanic = self.nopanic
        return s
    def alloc(self, v=None):
        i = self.nobj[0]
        self.nobj[0] += 1
        self.heap[i] = v
        return i
    def assume(self, c: E):
        if c.is_const:
            if not c.val:
                raise PathEnd('infeasible')
            return
        if c not in self.pc:
            self.pc = self.pc + (c,)

class Frame:
    _n = [0]
    def __init__(self, fn, locals_):
        self.fn = fn
        self.locals = locals_
        Frame._n[0] += 1
        self.id = Frame._n[0]

class LoopRec:
    def __init__(self, key, header, fnkey):
        self.key, self.header, self.fnkey = key, header, fnkey
        self.loads = []          # (obj, idx E, ver)
        self.marks = {}          # obj -> len(stores) at iteration start
        self.pre_pc_len = 0
        self.qvar = None         # (sym, lo, hi)
        self.carried = {}        # local -> dict(pre=, hv=, ends=[(guard, value)])
        self.paths = 0
        self.stores = []         # collected per-iteration stores (obj, Store)
        self.raw_stores = []     # the same before de-flattening (used by the interference check)
        self.iter_desc = None

# ------------------------------------------------------------------------- recorder
class Recorder:
    def __init__(self):
        self.obligations = []     # dicts
        self.panics = []          # dicts
        self.unsafe_ops = []      # dicts
        self.loops = []           # LoopRec
        self.calls = {}           # def -> count   (interpreted)
        self.models_used = {}     # def -> count
        self.events = []          # misc dicts (stage trace etc.)
    def ob(self, **kw):
        self.obligations.append(kw)
    def panic(self, **kw):
        self.panics.append(kw)

# --------------------------------------------------------------------- CFG helpers
def successors(term):
    k = term['k']
    if k == 'goto': return [term['t']]
    if k == 'switch': return [t for _, t in term['targets']] + [term['otherwise']]
    if k in ('call', 'drop', 'assert'):
        return [term['t']] if term.get('t') is not None else []
    return []

def loop_info(fn):
    """Natural loops of a function body (cleanup blocks ignored)."""
    if '_loops' in fn:
        return fn['_loops']
    blocks = fn['blocks']
    n = len(blocks)
    succ = [successors(b['t']) if not b.get('cleanup') else [] for b in blocks]
    # reachable, reverse postorder
    order, seen = [], set()
    def dfs(u):
        stack = [(u, iter(succ[u]))]
        seen.add(u)
        while stack:
            v, it = stack[-1]
            for w in it:
                if w not in seen:
                    seen.add(w)
                    stack.append((w, iter(succ[w])))
                    break
            else:
                order.append(v)
                stack.pop()
    dfs(0)
    rpo = order[::-1]
    idx = {b: i for i, b in enumerate(rpo)}
    preds = {b: [] for b in rpo}
    for b in rpo:
        for s in succ[b]:
            if s in preds:
                preds[s].append(b)
    idom = {rpo[0]: rpo[0]}
    changed = True
    def inter(a, b):
        while a != b:
            while idx[a] > idx[b]: a = idom[a]
            while idx[b] > idx[a]: b = idom[b]
        return a
    while changed:
        changed = False
        for b in rpo[1:]:
            ps = [p for p in preds[b] if p in idom]
            if not ps: continue
            new = ps[0]
            for p in ps[1:]:
                new = inter(p, new)
            if idom.get(b) != new:
                idom[b] = new
                changed = True
    def dominates(a, b):
        while True:
            if a == b: return True
            if b == idom.get(b): return False
            b = idom[b]
    loops = {}
    for b in rpo:
        for s in succ[b]:
            if s in idom and dominates(s, b):     # back edge b -> s
                body = loops.setdefault(s, {'header': s, 'blocks': {s}, 'latches': set()})
                body['latches'].add(b)
                stack = [b]
                while stack:
                    v = stack.pop()
                    if v not in body['blocks']:
                        body['blocks'].add(v)
                        stack.extend(preds[v])
    for h, L in loops.items():
        L['exits'] = {s for b in L['blocks'] for s in succ[b] if s not in L['blocks']}
        assigned, refmut = set(), {}
        for _pass in range(3):
          for b in sorted(L['blocks']):
            for st in blocks[b]['s']:
                if st['k'] in ('assign', 'setdiscr'):
                    assigned.add(st['p']['l']) if not any(pe['k'] == 'deref' for pe in st['p']['proj']) else None
                    if st['k'] == 'assign' and st['r']['k'] == 'ref' and st['r']['mut']:
                        rp = st['r']['p']
                        if not rp['proj']:
                            refmut[st['p']['l']] = rp['l']
                        elif len(rp['proj']) == 1 and rp['proj'][0]['k'] == 'deref' and rp['l'] in refmut:
                            refmut[st['p']['l']] = refmut[rp['l']]      # reborrow &mut *r
            t = blocks[b]['t']
            if t['k'] == 'call':
                if not any(pe['k'] == 'deref' for pe in t['dest']['proj']):
                    assigned.add(t['dest']['l'])
        iters = []
        for b in L['blocks']:
            t = blocks[b]['t']
            if t['k'] == 'call' and 'callee' in t:
                g = t['callee'].get('gdef', '')
                if g == 'std::iter::Iterator::next' and t['args']:
                    a0 = t['args'][0]
                    if a0['k'] in ('move', 'copy') and not a0['p']['proj'] and a0['p']['l'] in refmut:
                        iters.append((refmut[a0['p']['l']], b))
        L['assigned'] = assigned
        L['iters_all'] = iters
        L['refmut'] = refmut
    # the iterator driving a loop is the `next` call of its own body, not of a nested loop
    for h, L in loops.items():
        inner = set()
        for h2, L2 in loops.items():
            if h2 != h and L2['blocks'] < L['blocks']:
                inner |= L2['blocks']
        own = [(l, b) for (l, b) in L['iters_all'] if b not in inner]
        hdr = [(l, b) for (l, b) in own if b == h]
        L['iters'] = hdr or own
    # immediate post-dominators (for if-conversion of local diamonds)
    exit_ = n
    rsucc = {b: list(succ[b]) for b in rpo}
    for b in rpo:
        k = blocks[b]['t']['k']
        if k in ('return',):
            rsucc[b] = rsucc[b] + [exit_]
    rpreds = {b: [] for b in list(rpo) + [exit_]}
    for b in rpo:
        for s in rsucc[b]:
            if s in rpreds: rpreds[s].append(b)
    order2, seen2 = [], set()
    def dfs2(u):
        stack = [(u, iter(rpreds[u]))]
        seen2.add(u)
        while stack:
            v, it_ = stack[-1]
            for w in it_:
                if w not in seen2:
                    seen2.add(w); stack.append((w, iter(rpreds[w]))); break
            else:
                order2.append(v); stack.pop()
    dfs2(exit_)
    rpo2 = order2[::-1]
    idx2 = {b: i for i, b in enumerate(rpo2)}
    ipdom = {exit_: exit_}
    def inter2(a, b):
        while a != b:
            while idx2[a] > idx2[b]: a = ipdom[a]
            while idx2[b] > idx2[a]: b = ipdom[b]
        return a
    ch = True
    while ch:
        ch = False
        for b in rpo2[1:]:
            ps = [p for p in rsucc.get(b, []) if p in ipdom]
            if not ps: continue
            new = ps[0]
            for p in ps[1:]: new = inter2(p, new)
            if ipdom.get(b) != new:
                ipdom[b] = new; ch = True
    fn['_ipdom'] = {b: (d if d != exit_ else None) for b, d in ipdom.items()}
    fn['_noreturn'] = set(rpo) - seen2          # blocks from which no path reaches a return (every continuation panics)
    fn['_loops'] = loops
    return loops

def _conjuncts(c):
    if c.op == 'band':
        return _conjuncts(c.args[0]) + _conjuncts(c.args[1])
    return [c]

def merge_by_conditions(items):
    """items: list of (list of condition E's, value tree) describing a partition of cases.
    Returns one value tree whose scalars are select-trees over the atomic conditions
    (Shannon expansion in order of appearance), or None when shapes differ."""
    vals = [v for _, v in items]
    for v in vals[1:]:
        if not same_shape(vals[0], v):
            return None
    lits = []
    for conds, v in items:
        d = {}; order = []
        for x in conds:
            for a in _conjuncts(x):
                atom, pol = (a.args[0], False) if a.op == 'bnot' else (a, True)
                if atom.op in ('ge', 'gt', 'ne') and not X.is_float(atom.args[0].ty):
                    nm = {'ge': 'lt', 'gt': 'le', 'ne': 'eq'}[atom.op]
                    atom = X.node(nm, atom.args, X.TB); pol = not pol
                d[atom.id] = pol; order.append(atom)
        lits.append((d, order))
    def tree(idxs, used):
        if len(idxs) == 1:
            return ('leaf', idxs[0])
        atom = None
        for i in idxs:
            for a in lits[i][1]:
                if a.id not in used:
                    atom = a; break
            if atom is not None: break
        if atom is None:
            return ('leaf', idxs[0])
        tr = [i for i in idxs if lits[i][0].get(atom.id, True)]
        fl = [i for i in idxs if not lits[i][0].get(atom.id, False)]
        u2 = used | {atom.id}
        if not tr: return tree(fl, u2)
        if not fl: return tree(tr, u2)
        return ('ite', atom, tree(tr, u2), tree(fl, u2))
    tr = tree(list(range(len(items))), frozenset())
    def build(node, vs):
        if node[0] == 'leaf': return vs[node[1]]
        return X.select(node[1], build(node[2], vs), build(node[3], vs))
    def merge(vs):
        v0 = vs[0]
        if isinstance(v0, E): return build(tr, vs)
        if isinstance(v0, Agg): return Agg(v0.kind, v0.tid, [merge([v.fields[i] for v in vs]) for i in range(len(v0.fields))])
        if isinstance(v0, EnumV): return EnumV(v0.tid, v0.variant, [merge([v.fields[i] for v in vs]) for i in range(len(v0.fields))])
        return v0
    return merge(vals)

def same_shape(a, b):
    if isinstance(a, E) and isinstance(b, E):
        return a.ty == b.ty
    if isinstance(a, Agg) and isinstance(b, Agg):
        return a.kind == b.kind and len(a.fields) == len(b.fields) and all(same_shape(x, y) for x, y in zip(a.fields, b.fields))
    if isinstance(a, EnumV) and isinstance(b, EnumV):
        return a.variant == b.variant and len(a.fields) == len(b.fields) and all(same_shape(x, y) for x, y in zip(a.fields, b.fields))
    return a is b

# ---------------------------------------------------------------------- interpreter
class Interp:
    def __init__(self, crate, models, rec=None, mode='kernel'):
        self.crate = crate
        self.models = models
        self.rec = rec or Recorder()
        self.mode = mode
        self.overflow_checks = crate.overflow_checks
        self.depth = 0
        # public scalar helpers kept as applications `app(key, args)` with a separately
        # interpreted body (function summary), see apps.py
        self.apps = APP_DEFS
        self.in_summary = False

    # ---------- types
    def ty(self, tid): return self.crate.types[tid]
    def sty(self, tid):
        t = self.crate.types[tid]
        k = t['k']
        if k == 'int': return X.TI(t['bits'], t['signed'])
        if k == 'float': return X.TF(t['bits'])
        if k == 'bool': return X.TB
        if k == 'char': return X.TI(32, False)
        return None

    def zero_sized(self, tid):
        t = self.ty(tid)
        return t.get('size') == 0

    def havoc(self, tid, name, st=None):
        t = self.ty(tid)
        k = t['k']
        s = self.sty(tid)
        if s is not None:
            if X.is_bool(s): return X.fresh(s, name)
            if X.is_int(s):
                lo, hi = X.int_range(s)
                return X.fresh(s, name, lo, hi)
            return X.fresh(s, name)
        if k == 'tuple':
            return Agg('tuple', tid, [self.havoc(e, f"{name}.{i}") for i, e in enumerate(t['elems'])])
        if k == 'array' and t.get('len') is not None and t['len'] <= 16:
            return Agg('array', tid, [self.havoc(t['elem'], f"{name}[{i}]") for i in range(t['len'])])
        if k == 'adt' and t['adt_kind'] == 'struct':
            return Agg('struct', tid, [self.havoc(f['ty'], f"{name}.{f['name']}") for f in t['variants'][0]['fields']])
        return Unknown(tid, name)

    # ---------- constants
    def const_val(self, tid, v):
        k = v['k']
        t = self.ty(tid)
        if k == 'int':
            s = self.sty(tid)
            if s is None:
                # fieldless enum / newtype encoded as scalar
                return self.scalar_to_adt(tid, int(v['bits']))
            return X.const_bits(s, int(v['bits']))
        if k == 'zst':
            if t['k'] == 'tuple': return Agg('tuple', tid, [])
            if t['k'] == 'adt':
                if t['adt_kind'] == 'enum':
                    return EnumV(tid, 0, [])
                return Agg('struct', tid, [self.const_val(f['ty'], {'k': 'zst'}) for f in t['variants'][0]['fields']])
            if t['k'] == 'closure': return Agg('closure', tid, [])
            if t['k'] == 'fndef': return FnVal(t['callee'])
            if t['k'] == 'array': return Agg('array', tid, [])
            return Agg('tuple', tid, [])
        if k == 'fn':
            return FnVal(v['callee'])
        if k == 'agg':
            if t['k'] == 'array':
                return Agg('array', tid, [self.const_val(t['elem'], e) for e in v['elems']])
            if t['k'] == 'tuple':
                return Agg('tuple', tid, [self.const_val(et, e) for et, e in zip(t['elems'], v['elems'])])
            if t['k'] == 'adt':
                fs = t['variants'][0]['fields']
                return Agg('struct', tid, [self.const_val(f['ty'], e) for f, e in zip(fs, v['elems'])])
            if t['k'] == 'slice':
                return Agg('array', tid, [self.const_val(t['elem'], e) for e in v['elems']])
        if k == 'ptr':
            to = t.get('to')
            inner = v['to']
            if inner['k'] == 'str':
                return Opaque('str', v=inner['v'])
            tt = self.ty(to)
            val = self.const_val(to, inner)
            return Opaque('constptr', v=val, tid=to, alloc=v.get('alloc'))
        if k == 'str':
            return Opaque('str', v=v['v'])
        if k == 'static':
            return Opaque('static', name=v['def'])
        raise Unsupported(f"constant {v}")

    def scalar_to_adt(self, tid, bits):
        t = self.ty(tid)
        if t['k'] == 'adt' and t['adt_kind'] == 'enum':
            for i, var in enumerate(t['variants']):
                if 'discr' in var and int(var['discr']) == bits and not var['fields']:
                    return EnumV(tid, i, [])
        if t['k'] == 'adt' and t['adt_kind'] == 'struct':
            # single scalar field newtype
            fs = [f for f in t['variants'][0]['fields'] if not self.zero_sized(f['ty'])]
            if len(fs) == 1:
                vals = []
                for f in t['variants'][0]['fields']:
                    if f is fs[0]:
                        s = self.sty(f['ty'])
                        vals.append(X.const_bits(s, bits) if s else self.scalar_to_adt(f['ty'], bits))
                    else:
                        vals.append(self.const_val(f['ty'], {'k': 'zst'}))
                return Agg('struct', tid, vals)
        raise Unsupported(f"scalar constant of type {t['s']}")

    # ---------- places
    def resolve(self, st, fr, p):
        obj = fr.locals[p['l']]
        path = ()
        flat = 0
        for pe in p['proj']:
            k = pe['k']
            if k == 'deref':
                v = self.read(st, obj, path)
                if isinstance(v, Ptr):
                    obj, path, flat = v.obj, v.path, v.flat
                elif isinstance(v, Slice):
                    obj, path = v.obj, v.path + (('slice', v),)
                elif isinstance(v, Opaque) and v.kind == 'constptr':
                    obj = st.alloc(v.f['v']); path = ()
                elif isinstance(v, Opaque) and v.kind in ('str', 'static'):
                    obj = st.alloc(v); path = ()
                elif isinstance(v, Opaque) and v.kind == 'box':
                    obj, path = v.f['obj'], ()
                else:
                    raise Unsupported(f"deref of {v!r} in {fr.fn['key']}")
            elif k == 'field':
                path = path + (('f', pe['i']),)
            elif k == 'index':
                iv = self.read(st, fr.locals[pe['l']], ())
                path = path + (('i', iv),)
            elif k == 'cindex':
                if pe['from_end']:
                    raise Unsupported('cindex from_end')
                path = path + (('i', X.const(X.USIZE, pe['off'])),)
            elif k == 'downcast':
                path = path + (('v', pe['v']),)
            else:
                raise Unsupported(f"projection {k}")
        return obj, path, flat

    def read(self, st, obj, path):
        v = st.heap[obj]
        i = 0
        n = len(path)
        while i < n:
            pe = path[i]
            i += 1
            k = pe[0]
            if v is None:
                raise Unsupported('read of uninitialised place')
            if k == 'f':
                if isinstance(v, (Agg, EnumV)):
                    v = v.fields[pe[1]]
                elif isinstance(v, Unknown):
                    raise Unsupported(f"field of unknown {v.why}")
                elif isinstance(v, Opaque):
                    v = self.models.opaque_field(self, st, v, pe[1])
                else:
                    raise Unsupported(f"field of {v!r}")
            elif k == 'v':
                if isinstance(v, EnumV):
                    if v.variant != pe[1]:
                        raise Unsupported('downcast to wrong variant')
                elif isinstance(v, Unknown):
                    raise Unsupported(f"downcast of unknown {v.why}")
            elif k == 'slice':
                sl = pe[1]
                # next element must be an index
                if i < n and path[i][0] == 'i':
                    idx = path[i][1]
                    i += 1
                    v = self.load_elem(st, obj, v, sl, idx)
                else:
                    return Opaque('slice_place', sl=sl)
            elif k == 'i':
                idx = pe[1]
                if isinstance(v, Agg) and v.kind == 'array':
                    if idx.is_const:
                        if not (0 <= idx.val < len(v.fields)):
                            raise Unsupported('constant index out of bounds')
                        v = v.fields[idx.val]
                    else:
                        raise Unsupported('symbolic index into small array')
                elif isinstance(v, Buf):
                    v = self.load_elem(st, obj, v, None, idx)
                else:
                    raise Unsupported(f"index into {v!r}")
        return v

    def load_elem(self, st, obj, container, sl, idx):
        """Element `idx` of slice `sl` (or of the whole container)."""
        if isinstance(container, Agg) and container.kind == 'array':
            start = sl.start if sl is not None else X.const(X.USIZE, 0)
            j = X.binop('add', start, idx)
            if sl is not None and sl.flat:
                raise Unsupported('flat view of small array')
            if j.is_const and 0 <= j.val < len(container.fields):
                return container.fields[j.val]
            raise Unsupported('symbolic index into small array (slice)')
        if not isinstance(container, Buf):
            raise Unsupported(f"element of {container!r}")
        start = sl.start if sl is not None else X.const(X.USIZE, 0)
        flat = sl.flat if sl is not None else 0
        j = X.binop('add', start, idx)
        self.note_access(st, obj, flat)
        ver = len(container.stores)
        for L in st.loops:
            L.loads.append((obj, j, ver, flat))
        if flat:
            et = self.ty(container.elem_tid)
            inner = et['elem']
            return self.mk_load(obj, ver, j, flat, (), inner, container)
        return self.mk_load(obj, ver, j, 0, (), container.elem_tid, container)

    def mk_load(self, obj, ver, idx, flat, sub, tid, buf):
        s = self.sty(tid)
        if s is not None:
            return X.node('load', (obj, ver, idx, flat, sub, buf.name), s)
        t = self.ty(tid)
        if t['k'] == 'array' and t.get('len') is not None:
            return Agg('array', tid, [self.mk_load(obj, ver, idx, flat, sub + (i,), t['elem'], buf) for i in range(t['len'])])
        if t['k'] == 'tuple':
            return Agg('tuple', tid, [self.mk_load(obj, ver, idx, flat, sub + (i,), e, buf) for i, e in enumerate(t['elems'])])
        raise Unsupported(f"load of element type {t['s']}")

    def note_access(self, st, obj, flat):
        """O-raw liveness discipline: while a flattened view of a buffer exists, the
        buffer must not be accessed through its owner; once the owner is used again the
        view is dead."""
        b = st.borrow_flat.get(obj)
        if b is None:
            return
        if flat:
            if b == 'dead':
                self.rec.ob(kind='raw-view-after-owner-use', obj=obj, verdict='REFUTED', stack=st.stack)
        else:
            st.borrow_flat[obj] = 'dead'

    def write(self, st, obj, path, val, site=None):
        st.heap[obj] = self._write(st, obj, st.heap[obj], path, 0, val, site)

    def _write(self, st, obj, cur, path, i, val, site):
        if i == len(path):
            return val
        pe = path[i]
        k = pe[0]
        if k == 'f':
            if isinstance(cur, (Agg, EnumV)):
                return cur.with_field(pe[1], self._write(st, obj, cur.fields[pe[1]], path, i + 1, val, site))
            if cur is None or isinstance(cur, Unknown):
                raise Unsupported('field write into uninitialised/unknown aggregate')
            raise Unsupported(f"field write into {cur!r}")
        if k == 'v':
            if isinstance(cur, EnumV):
                return self._write(st, obj, cur, path, i + 1, val, site)
            raise Unsupported('downcast write')
        if k == 'slice':
            sl = pe[1]
            if i + 1 < len(path) and path[i + 1][0] == 'i':
                idx = path[i + 1][1]
                return self.store_elem(st, obj, cur, sl, idx, path, i + 2, val, site)
            raise Unsupported('write to whole slice')
        if k == 'i':
            idx = pe[1]
            if isinstance(cur, Agg) and cur.kind == 'array':
                if idx.is_const:
                    return cur.with_field(idx.val, self._write(st, obj, cur.fields[idx.val], path, i + 1, val, site))
                raise Unsupported('symbolic index write into small array')
            if isinstance(cur, Buf):
                return self.store_elem(st, obj, cur, None, idx, path, i + 1, val, site)
        raise Unsupported(f"write path {path}")

    def store_elem(self, st, obj, cur, sl, idx, path, i, val, site):
        start = sl.start if sl is not None else X.const(X.USIZE, 0)
        flat = sl.flat if sl is not None else 0
        j = X.binop('add', start, idx)
        if isinstance(cur, Agg) and cur.kind == 'array':
            if j.is_const and 0 <= j.val < len(cur.fields):
                return cur.with_field(j.val, self._write(st, obj, cur.fields[j.val], path, i, val, site))
            raise Unsupported('symbolic index write into small array (slice)')
        if not isinstance(cur, Buf):
            raise Unsupported(f"store into {cur!r}")
        self.note_access(st, obj, flat)
        if i < len(path):
            # partial element update: read-modify-write
            old = self.load_elem(st, obj, cur, sl, idx)
            tmp = st.alloc(old)
            self.write(st, tmp, path[i:], val)
            val = st.heap.pop(tmp)
        s = Store(j, val, (), (), flat, st.pc, site or st.stack)
        return cur.with_store(s)

    # ---------- operands / rvalues
    def operand(self, st, fr, op):
        k = op['k']
        if k in ('copy', 'move'):
            obj, path, flat = self.resolve(st, fr, op['p'])
            v = self.read(st, obj, path)
            if v is None:
                raise Unsupported(f"use of uninitialised local in {fr.fn['key']}")
            return v
        if k == 'const':
            return self.const_val(op['ty'], op['v'])
        if k == 'runtime_checks':
            # cfg!(ub_checks)/overflow check flags: debug-assertion style runtime checks of std
            return X.cbool(False)
        raise Unsupported(f"operand {k}")

    def int_arith(self, st, op, a, b, ty, checked):
        """Integer arithmetic. Symbolic nodes denote mathematical integers; the result is
        kept mathematical when intervals prove it fits the type, otherwise (unchecked
        build) a `wrap` node is produced. Returns (value, overflow_flag E)."""
        r = X.binop(op, a, b, wrap=False)
        lo, hi = X.int_range(ty)
        if r.is_const:
            fits = lo <= r.val <= hi
            return X.const(ty, r.val), X.cbool(not fits)
        from .ranges import int_bounds
        rlo, rhi = int_bounds(r, st.pc)
        if rlo is not None and rhi is not None and lo <= rlo and rhi <= hi:
            return r, X.cbool(False)
        ovf = X.node('outside', (r,), X.TB)
        if checked:
            return r, ovf
        return X.node('wrap', (r,), ty), ovf

    def rvalue(self, st, fr, r, dest_tid):
        k = r['k']
        if k == 'use':
            return self.operand(st, fr, r['a'])
        if k == 'bin':
            a = self.operand(st, fr, r['a'])
            b = self.operand(st, fr, r['b'])
            return self.binary(st, r['op'], a, b, r['ty'], dest_tid)
        if k == 'un':
            a = self.operand(st, fr, r['a'])
            op = r['op']
            if op == 'PtrMetadata':
                if isinstance(a, Slice): return a.len
                if isinstance(a, Opaque) and a.kind == 'slice_place': return a.f['sl'].len
                if isinstance(a, Ptr):
                    v = self.read(st, a.obj, a.path)
                    if isinstance(v, Agg) and v.kind == 'array':
                        return X.const(X.USIZE, len(v.fields))
                    return Agg('tuple', dest_tid, [])
                raise Unsupported(f"PtrMetadata of {a!r}")
            if not isinstance(a, E):
                raise Unsupported(f"unary op on {a!r}")
            if op == 'Not': return X.unop('not', a)
            if op == 'Neg':
                if X.is_int(a.ty):
                    v, _ = self.int_arith(st, 'sub', X.const(a.ty, 0), a, a.ty, False)
                    return v
                return X.unop('neg', a)
            raise Unsupported(f"unop {op}")
        if k == 'ref' or k == 'rawptr':
            obj, path, flat = self.resolve(st, fr, r['p'])
            mut = r.get('mut', False) or r.get('kind') == 'Mut'
            if path and path[-1][0] == 'slice':
                sl = path[-1][1]
                return Slice(sl.obj, sl.path, sl.start, sl.len, mut, sl.flat, sl.origin)
            # reference to an unsized place (whole buffer/array behind a fat pointer)
            return Ptr(obj, path, mut, flat)
        if k == 'cast':
            a = self.operand(st, fr, r['a'])
            return self.cast(st, r['kind'], a, r['from'], r['ty'])
        if k == 'agg':
            ops = [self.operand(st, fr, o) for o in r['ops']]
            kind = r['kind']
            if kind == 'array':
                return Agg('array', dest_tid, ops)
            if kind == 'tuple':
                return Agg('tuple', dest_tid, ops)
            if kind == 'adt':
                t = self.ty(r['ty'])
                if t['adt_kind'] == 'enum':
                    return EnumV(r['ty'], r['variant'], ops)
                if t['adt_kind'] == 'union':
                    raise Unsupported('union aggregate')
                self.rec.events.append(dict(ev='construct', ty=t['def'], fn=fr.fn['key'], stack=st.stack, pc=st.pc, fields=ops))
                return Agg('struct', r['ty'], ops)
            if kind == 'closure':
                return Agg('closure', r['ty'], ops)
            if kind == 'rawptr':
                p, meta = ops
                if isinstance(p, Ptr) and isinstance(meta, E):
                    return Slice(p.obj, p.path[:-1] if p.path and p.path[-1][0] == 'i' else p.path, p.path[-1][1] if p.path and p.path[-1][0] == 'i' else X.const(X.USIZE, 0), meta, r.get('mut', False), p.flat, p.origin)
                return p
            raise Unsupported(f"aggregate {kind}")
        if k == 'discr':
            obj, path, flat = self.resolve(st, fr, r['p'])
            v = self.read(st, obj, path)
            if isinstance(v, EnumV):
                t = self.ty(v.tid)
                d = t['variants'][v.variant].get('discr')
                s = self.sty(dest_tid)
                return X.const(s, int(d) if d is not None else v.variant)
            raise Unsupported(f"discriminant of {v!r} in {fr.fn['key']}")
        if k == 'repeat':
            a = self.operand(st, fr, r['a'])
            cnt = r['count']
            if cnt is None or cnt > 64:
                raise Unsupported('large repeat')
            return Agg('array', dest_tid, [a] * cnt)
        raise Unsupported(f"rvalue {k}")

    def binary(self, st, op, a, b, tid, dest_tid):
        if op == 'Offset':
            if isinstance(a, Ptr) and isinstance(b, E):
                if a.path and a.path[-1][0] == 'i':
                    return Ptr(a.obj, a.path[:-1] + (('i', X.binop('add', a.path[-1][1], b)),), a.mut, a.flat, a.origin)
            raise Unsupported(f'pointer offset on {a!r} by {b!r}')
        if op == 'Cmp':
            raise Unsupported('three-way compare')
        if not (isinstance(a, E) and isinstance(b, E)):
            if op in ('Eq', 'Ne') and isinstance(a, EnumV) and isinstance(b, EnumV):
                return X.cbool((a.variant == b.variant) == (op == 'Eq'))
            raise Unsupported(f"binary {op} on {a!r}, {b!r}")
        low = op.lower()
        s = a.ty
        if X.is_int(s):
            base = low.replace('withoverflow', '').replace('unchecked', '')
            m = {'bitand': 'and', 'bitor': 'or', 'bitxor': 'xor'}.get(base, base)
            if m in ('eq', 'ne', 'lt', 'le', 'gt', 'ge'):
                return X.binop(m, a, b)
            if m in ('shl', 'shr'):
                if b.ty != s and b.is_const:
                    b = X.const(s, b.val)
                if not b.is_const:
                    # shift amount symbolic: keep as node over mathematical ints
                    return X.node('i' + m, (a, b), s)
                if m == 'shr' and not a.is_const:
                    return X.binop('shr', a, b)
                if m == 'shl' and not a.is_const:
                    v, _ = self.int_arith(st, 'mul', a, X.const(s, 1 << b.val), s, False)
                    return v
                return X.binop(m, a, b)
            if m in ('and', 'or', 'xor'):
                return self.bitop(st, m, a, b)
            if m in ('div', 'rem'):
                return X.binop(m, a, b)
            if m in ('add', 'sub', 'mul'):
                with_ovf = 'withoverflow' in low
                v, ovf = self.int_arith(st, m, a, b, s, with_ovf)
                if with_ovf:
                    return Agg('tuple', dest_tid, [v, ovf])
                return v
            raise Unsupported(f"int op {op}")
        if X.is_float(s):
            m = low
            if m in ('eq', 'ne', 'lt', 'le', 'gt', 'ge', 'add', 'sub', 'mul', 'div', 'rem'):
                return X.binop(m, a, b)
            raise Unsupported(f"float op {op}")
        if X.is_bool(s):
            m = {'bitand': 'and', 'bitor': 'or', 'bitxor': 'xor'}.get(low, low)
            return X.binop(m, a, b)
        raise Unsupported(f"binary {op}")

    def bitop(self, st, m, a, b):
        s = a.ty
        if a.is_const and b.is_const:
            return X.binop(m, a, b)
        if m == 'and':
            c, v = (a, b) if a.is_const else (b, a) if b.is_const else (None, None)
            if c is not None:
                bits = s[1]
                cv = c.val & ((1 << bits) - 1)
                # mask 2^n - 1  -> remainder ;  mask ~(2^n - 1) -> floor to multiple
                from .ranges import int_bounds as _ib
                vlo, _vhi = _ib(v, st.pc)
                if cv & (cv + 1) == 0 and vlo is not None and vlo >= 0:
                    n = cv.bit_length()
                    return X.binop('rem', v, X.const(s, 1 << n)) if n < bits else v
                inv = (~cv) & ((1 << bits) - 1)
                if inv & (inv + 1) == 0 and vlo is not None and vlo >= 0:
                    n = inv.bit_length()
                    q = X.binop('shr', v, X.const(s, n))
                    return X.binop('mul', q, X.const(s, 1 << n), wrap=False)
        return X.node('i' + m, (a, b), s)

    def cast(self, st, kind, a, from_tid, to_tid):
        ft, tt = self.ty(from_tid), self.ty(to_tid)
        s_to = self.sty(to_tid)
        if kind in ('IntToInt', 'FloatToInt', 'IntToFloat', 'FloatToFloat'):
            if isinstance(a, EnumV):
                d = self.ty(a.tid)['variants'][a.variant].get('discr')
                return X.const(s_to, int(d))
            if not isinstance(a, E):
                raise Unsupported(f"numeric cast of {a!r}")
            if kind == 'IntToInt' and not a.is_const and X.is_int(a.ty) and X.is_int(s_to):
                from .ranges import int_bounds
                lo, hi = X.int_range(s_to)
                rlo, rhi = int_bounds(a, st.pc)
                if rlo is not None and rhi is not None and lo <= rlo and rhi <= hi:
                    return X.node('icast', (a,), s_to)     # value-preserving
                return X.node('wrap', (a,), s_to)
            return X.cast('num', a, s_to)
        if kind == 'Transmute':
            if isinstance(a, E) and s_to is not None:
                return X.cast('bits', a, s_to)
            return a
        if kind.startswith('PointerCoercion'):
            if 'Unsize' in kind:
                # &[T; N] -> &[T]
                if isinstance(a, Ptr):
                    v = self.read(st, a.obj, a.path)
                    if isinstance(v, Agg) and v.kind == 'array':
                        return Slice(a.obj, a.path, X.const(X.USIZE, 0), X.const(X.USIZE, len(v.fields)), a.mut)
                if isinstance(a, Opaque) and a.kind == 'constptr':
                    v = a.f['v']
                    if isinstance(v, Agg) and v.kind == 'array':
                        o = st.alloc(v)
                        return Slice(o, (), X.const(X.USIZE, 0), X.const(X.USIZE, len(v.fields)), False)
                    return a
                return a
            return a   # MutToConstPointer, ReifyFnPointer, ...
        if kind == 'PtrToPtr':
            if isinstance(a, Ptr):
                return self.ptr_cast(a, from_tid, to_tid)
            return a
        if kind in ('Subtype',):
            return a
        raise Unsupported(f"cast kind {kind}")

    def ptr_cast(self, p, from_tid, to_tid):
        f, t = self.ty(from_tid), self.ty(to_tid)
        if f['k'] in ('ptr', 'ref') and t['k'] in ('ptr', 'ref'):
            fe, te = self.ty(f['to']), self.ty(t['to'])
            if fe['s'] == te['s']:
                return Ptr(p.obj, p.path, t.get('mut', p.mut), p.flat, p.origin)
            if fe['k'] == 'array' and fe.get('len') and self.ty(fe['elem'])['s'] == te['s']:
                org = dict(p.origin or {})
                org.update(cast_from=fe['s'], cast_to=te['s'], n=fe['len'], size_from=fe.get('size'), size_to=te.get('size'),
                           align_from=fe.get('align'), align_to=te.get('align'))
                return Ptr(p.obj, p.path, t.get('mut', p.mut), fe['len'], org)
        raise Unsupported(f"pointer cast {f['s']} -> {t['s']}")

    # ---------- statements
    def dest_tid(self, fr, p):
        if not p['proj']:
            return fr.fn['locals'][p['l']]
        last = p['proj'][-1]
        if last['k'] == 'field':
            return last['ty']
        return None

    def exec_stmt(self, st, fr, s):
        k = s['k']
        if k == 'assign':
            dt = self.dest_tid(fr, s['p'])
            v = self.rvalue(st, fr, s['r'], dt)
            obj, path, flat = self.resolve(st, fr, s['p'])
            self.write(st, obj, path, v, site=(fr.fn['key'], s.get('ln', 0)))
        elif k == 'setdiscr':
            obj, path, flat = self.resolve(st, fr, s['p'])
            cur = self.read(st, obj, path)
            tid = cur.tid if isinstance(cur, (EnumV, Unknown)) else self.dest_tid(fr, s['p'])
            self.write(st, obj, path, EnumV(tid, s['v'], cur.fields if isinstance(cur, EnumV) else ()))
        elif k == 'assume':
            pass
        else:
            raise Unsupported(f"statement {k}")

    # ---------- feasibility
    def decide(self, st, c: E):
        """True / False when the condition is decided under the path condition by the
        cheap tiers (syntactic + intervals), else None."""
        if c.is_const:
            return bool(c.val)
        if c in st.pc:
            return True
        n = X.unop('not', c)
        if n in st.pc:
            return False
        from .ranges import decide_cmp
        return decide_cmp(c, st.pc)

    # ---------- execution
    def call_fn(self, st, key, args, label=None):
        """Interpret function `key` on `args`; returns list of (state, value)."""
        fn = self.crate.fns.get(key)
        if fn is None:
            raise Unsupported(f"no MIR body for {key}")
        self.rec.calls[fn['def']] = self.rec.calls.get(fn['def'], 0) + 1
        locs = {}
        nloc = len(fn['locals'])
        for i in range(nloc):
            locs[i] = st.alloc(None)
        fr = Frame(fn, locs)
        argc = fn['argc']
        if fn.get('spread_arg') is not None and len(args) != argc:
            raise Unsupported('spread arg mismatch')
        if len(args) != argc:
            # closure call shims pass (closure, (args...))
            raise Unsupported(f"arity mismatch calling {key}: {len(args)} vs {argc}")
        for i, a in enumerate(args):
            st.heap[locs[i + 1]] = a
        st.stack = st.stack + ((key, 0),)
        pre_pc = st.pc
        pre_heap_ids = None
        self.depth += 1
        if self.depth > 60:
            raise Unsupported('call depth')
        try:
            outs = self.exec_from(st, fr, 0)
        finally:
            self.depth -= 1
        res = []
        for s, oc in outs:
            if oc[0] != 'ret':
                raise Unsupported('unexpected path outcome')
            v = s.heap[locs[0]]
            if v is None:
                v = Agg('tuple', fn['locals'][0], [])
            for o in locs.values():
                s.heap.pop(o, None)
            s.stack = s.stack[:-1]
            res.append((s, v))
        if len(res) > 1:
            res = self.merge_pure(pre_pc, pre_heap_ids, res)
        return res

    def merge_pure(self, pre_pc, pre_heap, res):
        """If-conversion at function return: outcomes that differ only in their path
        condition and in a scalar-tree return value (no heap effect) are merged into one
        outcome whose scalars are `select` chains.  Keeps pure helper functions (clamp,
        transfer curves, per-pixel kernels) from multiplying paths."""
        base = res[0][0]
        n = len(pre_pc)
        for s, v in res:
            if s.pc[:n] != pre_pc or s.loopmode != base.loopmode or s.loops is not base.loops:
                return res
            if len(s.heap) != len(base.heap):
                return res
            for o, val in s.heap.items():
                if base.heap.get(o, self) is not val:
                    return res
        shape = res[0][1]
        for s, v in res[1:]:
            if not same_shape(shape, v):
                return res
        # Shannon expansion over the atomic branch conditions, in order of appearance,
        # so that the merged scalars mirror the source's if/else structure.
        lits = []
        for s, v in res:
            d = {}
            order = []
            for x in s.pc[n:]:
                for a in _conjuncts(x):
                    atom, pol = (a.args[0], False) if a.op == 'bnot' else (a, True)
                    if atom.op in ('ge', 'gt', 'le', 'lt', 'ne', 'eq') and not X.is_float(atom.args[0].ty):
                        # integer comparisons are negated structurally by unop('not'): canonicalise
                        canon = {'ge': ('lt', False), 'gt': ('le', False), 'ne': ('eq', False)}
                        if atom.op in canon:
                            nm, flip = canon[atom.op]
                            atom = X.node(nm, atom.args, X.TB); pol = not pol
                    d[atom.id] = pol
                    order.append(atom)
            lits.append((d, order))
        if sum(len(o) for _, o in lits) > 200:
            return res
        def tree(idxs, used):
            if len(idxs) == 1:
                return ('leaf', idxs[0])
            atom = None
            for i in idxs:
                for a in lits[i][1]:
                    if a.id not in used:
                        atom = a; break
                if atom is not None:
                    break
            if atom is None:
                return ('leaf', idxs[0])
            tr = [i for i in idxs if lits[i][0].get(atom.id, True)]
            fl = [i for i in idxs if not lits[i][0].get(atom.id, False)]
            u2 = used | {atom.id}
            if not tr: return tree(fl, u2)
            if not fl: return tree(tr, u2)
            return ('ite', atom, tree(tr, u2), tree(fl, u2))
        tr = tree(list(range(len(res))), frozenset())
        def build(node, vals):
            if node[0] == 'leaf':
                return vals[node[1]]
            return X.select(node[1], build(node[2], vals), build(node[3], vals))
        def merge(vals):
            v0 = vals[0]
            if isinstance(v0, E):
                return build(tr, vals)
            if isinstance(v0, Agg):
                return Agg(v0.kind, v0.tid, [merge([v.fields[i] for v in vals]) for i in range(len(v0.fields))])
            if isinstance(v0, EnumV):
                return EnumV(v0.tid, v0.variant, [merge([v.fields[i] for v in vals]) for i in range(len(v0.fields))])
            return v0
        merged = merge([v for _, v in res])
        base.pc = pre_pc
        return [(base, merged)]

    def exec_from(self, st0, fr, bb0, stop_at=None, first=True):
        fn = fr.fn
        blocks = fn['blocks']
        loops = loop_info(fn)
        work = [(st0, bb0, first)]
        results = []
        visits = 0
        while work:
            st, bb, first = work.pop()
            try:
                while True:
                    visits += 1
                    if visits > MAX_BLOCK_VISITS:
                        raise Unsupported(f"block visit budget exceeded in {fn['key']}")
                    if stop_at is not None and bb in stop_at and not first:
                        results.append((st, ('reach', bb)))
                        break
                    if bb in loops:
                        lk = (fr.id, bb)
                        mode = st.loopmode.get(lk)
                        if mode is None:
                            nxt = self.enter_loop(st, fr, loops[bb])
                            if nxt is not None:
                                for s2, b2 in nxt:
                                    work.append((s2, b2, True))
                                break
                        elif mode == 'exit' and not first:
                            raise Unsupported(f"loop re-entered after exhaustion in {fn['key']}")
                        if st.loopmode.get(lk) == 'unroll':
                            # a new iteration of an unrolled loop: loops nested in it start afresh
                            for h2 in loops:
                                if h2 != bb and h2 in loops[bb]['blocks']:
                                    st.loopmode.pop((fr.id, h2), None)
                    first = False
                    blk = blocks[bb]
                    for s in blk['s']:
                        try:
                            self.exec_stmt(st, fr, s)
                        except (IndexError, KeyError, AttributeError, TypeError) as ex:
                            raise RuntimeError(f"internal error in {fn['key']} bb{bb} stmt {s}: {ex!r}") from ex
                        except Unsupported as ex:
                            if ' [in ' not in str(ex):
                                raise Unsupported(f"{ex} [in {fn['key']} line {s.get('ln')}]") from ex
                            raise
                    t = blk['t']
                    k = t['k']
                    if k == 'goto':
                        bb = t['t']
                    elif k == 'return':
                        results.append((st, ('ret',)))
                        break
                    elif k == 'switch':
                        d = self.operand(st, fr, t['d'])
                        if not isinstance(d, E):
                            raise Unsupported(f"switch on {d!r}")
                        pre_pc = st.pc
                        nxt = self.switch(st, d, t)
                        if not nxt:
                            break
                        if len(nxt) > 1:
                            merged = self.if_convert(fr, bb, pre_pc, nxt, stop_at, loops)
                            if merged is not None:
                                kind, payload = merged
                                if kind == 'merged':
                                    st, bb = payload
                                    continue
                                # not mergeable: payload = list of (state, outcome) already executed up to the join
                                for s2, oc in payload:
                                    if oc[0] == 'reach' and (stop_at is None or oc[1] not in stop_at):
                                        work.append((s2, oc[1], False))
                                    else:
                                        results.append((s2, oc))
                                break
                        for s2, b2 in nxt[1:]:
                            work.append((s2, b2, False))
                        st, bb = nxt[0]
                    elif k == 'drop':
                        bb = t['t']
                    elif k == 'assert':
                        c = self.operand(st, fr, t['cond'])
                        if not t['expected']:
                            c = X.unop('not', c)
                        self.do_assert(st, fr, t, c)
                        bb = t['t']
                    elif k == 'call':
                        outs = self.do_call(st, fr, t)
                        if t.get('t') is None:
                            break
                        if not outs:
                            break
                        for s2, v in outs:
                            obj, path, flat = self.resolve(s2, fr, t['dest'])
                            self.write(s2, obj, path, v)
                        for s2, v in outs[1:]:
                            work.append((s2, t['t'], False))
                        st, bb = outs[0][0], t['t']
                    elif k == 'unreachable':
                        raise PathEnd('unreachable')
                    else:
                        raise Unsupported(f"terminator {k} in {fn['key']}")
            except PathEnd:
                continue
        return results

    def if_convert(self, fr, bb, pre_pc, branches, stop_at, loops):
        """Both arms of a conditional are executed up to their join point (the immediate
        post-dominator) and, when they differ only in values, merged into one state whose
        scalars are select-trees over the branch conditions."""
        J = fr.fn.get('_ipdom', {}).get(bb)
        if J is None or len(branches) > 4:
            return None
        if any(bb in L['blocks'] and J not in L['blocks'] for L in loops.values()):
            return None               # the join lies outside a loop the branch is in
        stops = {J} | (set(stop_at) if stop_at else set())
        outs = []
        noret = fr.fn.get('_noreturn', set())
        live = [(s2, tgt) for s2, tgt in branches if tgt not in noret]
        if len(live) == 1 and len(branches) > 1:
            # `if !c { panic!(..) }`: on the arm that continues, c is an assertion, not a branch condition
            s2 = live[0][0]
            s2.nopanic = s2.nopanic | frozenset(c.id for c in s2.pc[len(pre_pc):])
        for s2, tgt in branches:
            if tgt == J:
                outs.append((s2, ('reach', J)))
                continue
            try:
                outs.extend(self.exec_from(s2, fr, tgt, stop_at=stops, first=(tgt in loops and (fr.id, tgt) not in s2.loopmode)))
            except PathEnd:
                pass
        if not outs:
            return ('split', [])
        if len(outs) == 1 and outs[0][1] == ('reach', J):
            return ('merged', (outs[0][0], J))
        if all(oc == ('reach', J) for _, oc in outs) and len(outs) <= 8:
            m = self.merge_states(pre_pc, [s for s, _ in outs])
            if m is not None:
                return ('merged', (m, J))
        return ('split', outs)

    def merge_states(self, pre_pc, states):
        base = states[0]
        n = len(pre_pc)
        for s in states:
            if s.pc[:n] != pre_pc or s.loopmode != base.loopmode or s.loops is not base.loops or s.borrow_flat != base.borrow_flat:
                return None
        conds = [list(s.pc[n:]) for s in states]
        objs = set()
        for s in states: objs |= set(s.heap)
        new_heap = dict(base.heap)
        for o in objs:
            vals = [s.heap.get(o, self) for s in states]
            if all(v is vals[0] for v in vals):
                continue
            if any(v is self for v in vals):
                # object allocated on one arm only (a temporary): keep it, it cannot be referenced after the join
                for v in vals:
                    if v is not self: new_heap[o] = v
                continue
            if any(v is None for v in vals) or any(isinstance(v, (Buf, Ptr, Slice, Opaque, Unknown, FnVal)) for v in vals):
                if all(isinstance(v, (Ptr, Slice, Opaque, Unknown, FnVal)) or v is None for v in vals):
                    # dead temporaries holding references: after the join they are reassigned before use;
                    # mark as unknown so that a use would be reported
                    new_heap[o] = Unknown(None, 'merged reference temporary')
                    continue
                dead_ = lambda v: v is None or (isinstance(v, Unknown) and str(getattr(v, 'why', '')).startswith(('temporary assigned on one arm', 'merged reference temporary')))
                if any(dead_(v) for v in vals) and not any(isinstance(v, (Buf, Ptr, Slice, Opaque, FnVal)) or (isinstance(v, Unknown) and not dead_(v)) for v in vals):
                    # a temporary assigned on one arm only (e.g. the operand of that arm's bounds check) and uninitialised
                    # on the other: MIR assigns temporaries before every use, so it is dead at the join; a use would be reported
                    new_heap[o] = Unknown(None, 'temporary assigned on one arm only')
                    continue
                return None
            mv = merge_by_conditions(list(zip(conds, vals)))
            if mv is None:
                return None
            new_heap[o] = mv
        out = base.clone()
        out.heap = new_heap
        out.pc = pre_pc
        return out

    def switch(self, st, d, t):
        ty = d.ty
        out = []
        if d.is_const:
            v = d.val
            if X.is_bool(ty): v = int(v)
            v &= (1 << 128) - 1 if v >= 0 else (1 << (ty[1] if X.is_int(ty) else 1)) - 1
            for val, tgt in t['targets']:
                iv = int(val)
                if X.is_int(ty) and ty[2]:
                    iv = X.wrap_int(ty, iv)
                    if iv == d.val: return [(st, tgt)]
                elif iv == v:
                    return [(st, tgt)]
            return [(st, t['otherwise'])]
        conds = []
        for val, tgt in t['targets']:
            if X.is_bool(ty):
                c = d if int(val) else X.unop('not', d)
            else:
                c = X.binop('eq', d, X.const(ty, int(val)))
            conds.append((c, tgt))
        others = []
        feas = []
        for c, tgt in conds:
            dec = self.decide(st, c)
            if dec is True:
                return [(st, tgt)]
            if dec is False:
                continue
            feas.append((c, tgt))
        for c, tgt in conds:
            others.append(X.unop('not', c))
        # otherwise branch
        branches = []
        for c, tgt in feas:
            branches.append(([c], tgt))
        if t['otherwise'] is not None:
            branches.append((others, t['otherwise']))
        res = []
        for i, (cs, tgt) in enumerate(branches):
            s2 = st.clone() if i < len(branches) - 1 else st
            try:
                ok = True
                for c in cs:
                    dec = self.decide(s2, c)
                    if dec is False:
                        ok = False
                        break
                    s2.assume(c)
                if ok:
                    # the otherwise target may be an `unreachable` block: harmless
                    res.append((s2, tgt))
            except PathEnd:
                pass
        return res

    def do_assert(self, st, fr, t, c):
        if c.is_const:
            if c.val:
                return
            self.rec.panic(kind='assert', msg=t['msg'], fn=fr.fn['key'], ln=t.get('ln', 0), pc=st.pc, stack=st.stack, definite=True)
            raise PathEnd('assert')
        dec = self.decide(st, c)
        if dec is True:
            return
        ops = []
        try:
            ops = [self.operand(st, fr, o) for o in t.get('ops', [])]
        except Unsupported:
            pass
        self.rec.panic(kind='assert', msg=t['msg'], fn=fr.fn['key'], ln=t.get('ln', 0), pc=st.pc, stack=st.stack,
                       cond=c, ops=ops, definite=(dec is False))
        if dec is False:
            raise PathEnd('assert')
        st.assume(c)
        st.nopanic = st.nopanic | frozenset((c.id,))          # the failure of c panics: c is an assertion, not a branch condition

    def do_call(self, st, fr, t):
        args = [self.operand(st, fr, a) for a in t['args']]
        if 'callee' not in t:
            f = self.operand(st, fr, t['fnptr'])
            if isinstance(f, FnVal):
                callee = f.callee
            else:
                raise Unsupported('indirect call through unknown function pointer')
        else:
            callee = t['callee']
        dest_tid = self.dest_tid(fr, t['dest'])
        site = (fr.fn['key'], t.get('ln', 0))
        st.stack = st.stack[:-1] + ((fr.fn['key'], t.get('ln', 0)),)
        return self.invoke(st, callee, args, dest_tid, site)

    def invoke(self, st, callee, args, dest_tid, site):
        if callee.get('kind') == 'unresolved':
            raise Unsupported(f"unresolved call {callee.get('gdef')}")
        if callee.get('def') in self.apps and not self.in_summary and all(isinstance(a, E) for a in args) and callee.get('key') in self.crate.fns:
            from .apps import summary
            formals, body, rec = summary(self, callee['key'])
            self.rec.obligations.extend(o for o in rec.obligations if o not in self.rec.obligations)
            for pn in rec.panics:
                if pn not in self.rec.panics: self.rec.panics.append(pn)
            for u in rec.unsafe_ops:
                if u not in self.rec.unsafe_ops: self.rec.unsafe_ops.append(u)
            self.rec.models_used['app:' + callee['def']] = self.rec.models_used.get('app:' + callee['def'], 0) + 1
            if all(a.is_const for a in args):
                from .apps import expand_apps
                return [(st, expand_apps(X.node('app', (callee['key'],) + tuple(args), body.ty), self.crate))]
            return [(st, X.node('app', (callee['key'],) + tuple(args), body.ty))]
        m = self.models.lookup(callee)
        if m is not None:
            name = callee.get('def') or callee.get('gdef')
            self.rec.models_used[name] = self.rec.models_used.get(name, 0) + 1
            outs = m(self, st, callee, args, dest_tid, site)
            return outs
        if callee.get('ctor'):
            t = self.ty(dest_tid)
            if t['k'] == 'adt' and t['adt_kind'] == 'enum':
                # find variant by ctor name
                name = callee['def'].split('::')[-1]
                for i, v in enumerate(t['variants']):
                    if v['name'] == name:
                        return [(st, EnumV(dest_tid, i, args))]
            return [(st, Agg('struct', dest_tid, args))]
        key = callee.get('key')
        if callee.get('body') and key in self.crate.fns:
            fn = self.crate.fns[key]
            # closure / fn-item call shims: (callee, (args,)) with spread
            return self.call_fn(st, key, self.adapt_args(fn, args, callee))
        raise Unsupported(f"unmodelled external function {callee.get('def') or callee.get('gdef')} [{key}]")

    FN_TRAIT_CALLS = ('std::ops::FnOnce::call_once', 'std::ops::FnMut::call_mut', 'std::ops::Fn::call')

    def adapt_args(self, fn, args, callee=None):
        """rust-call ABI: Fn*::call*(f, (a, b, ...)) reaches a closure body taking
        (self, a, b, ...) or a fn item taking (a, b, ...)."""
        if callee is not None and callee.get('gdef') in self.FN_TRAIT_CALLS and callee.get('kind') == 'item':
            tup = args[1]
            if not (isinstance(tup, Agg) and tup.kind == 'tuple'):
                raise Unsupported('rust-call without argument tuple')
            if fn.get('closure'):
                return [args[0]] + list(tup.fields)
            return list(tup.fields)
        return args

    # ---------- loops
    def enter_loop(self, st, fr, L):
        """Called when control reaches a loop header for the first time on this path.
        Returns None to let execution proceed normally (unrolling), or a list of
        (state, block) continuations after summarisation."""
        fn = fr.fn
        lk = (fr.id, L['header'])
        ind = None
        if not L['iters']:
            ind = self.induction(st, fr, L)          # `while i < n { ..; i += 1 }`
            itl = None
            desc = ind['desc']
        else:
            if len({l for l, _ in L['iters']}) != 1:
                raise Unsupported(f"loop with several iterators in {fn['key']}")
            itl = L['iters'][0][0]
            it0 = st.heap[fr.locals[itl]]
            desc = self.models.iter_describe(self, st, it0)
            if desc is None:
                raise Unsupported(f"unrecognised iterator value {it0!r} in {fn['key']}")
        n = desc['n']
        if n.is_const and n.val <= MAX_UNROLL:
            st.loopmode[lk] = 'unroll'
            return None
        # ---- summarise
        rec = LoopRec(lk, L['header'], fn['key'])
        rec.iter_desc = desc
        self.rec.loops.append(rec)
        k = X.fresh(X.USIZE, 'k', 0, None, loop=fn['key'])
        rec.qvar = (k, X.const(X.USIZE, 0), n)
        from .resolve import register_range, deflatten_store
        register_range(k, rec.qvar[1], n)
        hv = {}
        for l in sorted(L['assigned']):
            if l == itl or l == 0 or (ind is not None and l == ind['i']):
                continue
            pre = st.heap[fr.locals[l]]
            name = fn['names'].get(str(l), f"_{l}")
            hv[l] = (pre, self.havoc(fn['locals'][l], f"{name}@loop"))
        body = st.clone()
        for l, (pre, h) in hv.items():
            body.heap[fr.locals[l]] = h
        body.assume(X.binop('lt', k, n))
        if ind is None:
            body.heap[fr.locals[itl]] = Opaque('iter_mid', desc=desc, k=k, yielded=False)
        else:
            ik = X.binop('add', ind['i0'], k, wrap=False) if not (ind['i0'].is_const and ind['i0'].val == 0) else k
            body.heap[fr.locals[ind['i']]] = ik
            body.assume(X.binop('lt', ik, ind['n']))          # the loop condition holds in the iterations that are summarised
        body.loopmode[lk] = 'iterate'
        body.loops = body.loops + (rec,)
        rec.pre_pc_len = len(st.pc)
        for o, v in body.heap.items():
            if isinstance(v, Buf):
                rec.marks[o] = len(v.stores)
        body_start = dict(body.heap)
        # (an exit that cannot reach a return is a failed assertion: it is executed to its recorded panic, it is not a `break`)
        live_exits = L['exits'] - fn.get('_noreturn', set())
        outs = self.exec_from(body, fr, L['header'], stop_at={L['header']} | live_exits, first=True)
        collected = []
        early = [(s, oc) for s, oc in outs if oc[0] == 'reach' and oc[1] in live_exits]
        if any(oc[0] == 'ret' for s, oc in outs):
            raise Unsupported(f"return from inside a summarised loop in {fn['key']}")
        outs = [(s, oc) for s, oc in outs if not (oc[0] == 'reach' and oc[1] in live_exits)]
        for s, oc in outs:
            rec.paths += 1
            if ind is not None:
                endv = s.heap.get(fr.locals[ind['i']])
                want = X.binop('add', ik, X.const(ik.ty, 1), wrap=False)
                if endv is not want:
                    raise Unsupported(f"loop counter of {fn['key']} is not advanced by exactly one per iteration ({endv})")
                pi, pn = ind['probe'](s)
                if pi != ind['i'] or pn is not ind['n']:          # the bound read at the top of the next iteration is the same value
                    raise Unsupported(f"the bound of the counted loop in {fn['key']} changes between iterations")
            guard = s.pc[rec.pre_pc_len:]
            for o, v in s.heap.items():
                if isinstance(v, Buf) and o in rec.marks:
                    for stv in v.stores[rec.marks[o]:]:
                        collected.append((o, stv, s.pc))
            for l, (pre, h) in hv.items():
                endv = s.heap.get(fr.locals[l])
                rec.carried.setdefault(l, dict(pre=pre, hv=h, name=fn['names'].get(str(l), f"_{l}"), ends=[]))['ends'].append((guard, endv))
        # ---- exit state
        ex = st.clone()
        for l, (pre, h) in hv.items():
            ex.heap[fr.locals[l]] = h
        if ind is None:
            ex.heap[fr.locals[itl]] = Opaque('iter_done', desc=desc)
        else:
            iend = ind['iend']
            ex.heap[fr.locals[ind['i']]] = iend
            c_end = X.binop('lt', iend, ind['n'])
            if not (c_end.is_const and not c_end.val):
                ex.assume(X.unop('not', c_end))
        ex.loopmode[lk] = 'exit'
        self.summarise_stores(rec, st, ex, collected, {s.pc: s.nopanic for s, oc in outs})
        self.check_interference(rec, ex)
        conts = []
        if early:
            # a SEARCH loop: some iteration may leave the loop (break / return).  Supported when the iterations that
            # continue have no effect at all; the loop then is  `if exists k: G(k) { leave } else { fall through }`.
            local_objs = {fr.locals[l] for l in L['assigned']} | ({fr.locals[itl]} if itl is not None else set())
            touched = any(o not in local_objs and s_.heap.get(o, self) is not v for s_, oc_ in outs for o, v in body_start.items())
            if collected or touched:
                raise Unsupported(f"early exit from a loop whose other iterations have effects in {fn['key']}")
            fresh_ids = {k.id}
            last = desc.get('last') or {}
            for nm in ('x', 'y'):
                if nm in last: fresh_ids.add(last[nm].id)
            def depends(v, depth=0):
                if isinstance(v, E):
                    return any(n.id in fresh_ids for n in X.walk(v))
                if isinstance(v, (Agg, EnumV)):
                    return any(depends(f, depth + 1) for f in v.fields)
                return False
            for s, oc in early:
                start = desc.get('last_pc_len', rec.pre_pc_len)      # conditions established while producing the item are not part of the test
                guard = [c for c in s.pc[start:] if not (c.op == 'lt' and c.args[0].id in fresh_ids)]
                if not guard:
                    raise Unsupported('unconditional early exit from a summarised loop')
                pred = guard[0]
                for c in guard[1:]:
                    pred = X.binop('and', pred, c)
                res = X.fresh(X.TB, 'exists')
                ev = dict(ev='exists', sym=res, pred=pred, site=(fn['key'], L['header']), pc=tuple(guard))
                ev.update({kk: vv for kk, vv in last.items()})
                self.rec.events.append(ev)
                es = s.clone()
                es.pc = st.pc
                es.loops = st.loops
                es.loopmode = dict(st.loopmode); es.loopmode[lk] = 'exit'
                # the state that leaves must not carry anything that depends on the witness iteration
                for o, v in list(es.heap.items()):
                    if o in st.heap and st.heap[o] is v:
                        continue
                    if depends(v):
                        if o in st.heap:
                            # a loop-assigned local still holding the witness iteration's value: keep it as an unknown
                            loc = [l for l in hv if fr.locals[l] == o]
                            if not loc:
                                raise Unsupported('early exit carries a value that depends on the iteration')
                            es.heap[o] = hv[loc[0]][1]
                        else:
                            es.heap.pop(o)
                try:
                    es.assume(res)
                    conts.append((es, oc[1]))
                except PathEnd:
                    pass
                try:
                    ex.assume(X.unop('not', res))
                except PathEnd:
                    return conts
        if rec.paths == 0:
            # every path of the body ends in a (recorded) panic: the code after the loop is
            # reached only when the loop does not iterate at all
            try:
                ex.assume(X.binop('eq', n, X.const(n.ty, 0)))
                if self.decide(ex, X.binop('eq', n, X.const(n.ty, 0))) is False:
                    return conts
            except PathEnd:
                return conts
        return conts + [(ex, L['header'])]

    def induction(self, st, fr, L):
        """counted loop  `while i < n { ..; i += 1 }`  (no iterator).  The blocks from the header to the first branch
        are interpreted once with every loop-assigned integer local replaced by a marker symbol; the branch condition
        must then read  marker_i < N  with N free of markers (the bound may be recomputed in the header, e.g. `v.len()`),
        its false side must leave the loop.  That every iteration adds exactly one to i is checked afterwards on the
        symbolic iteration itself.  Returns the description of the equivalent range."""
        fn = fr.fn
        blocks = fn['blocks']
        bad = Unsupported(f"loop without a recognised iterator in {fn['key']} (bb{L['header']})")
        # straight-line chain header -> ... -> first switch
        bsw = L['header']
        seen = set()
        while blocks[bsw]['t']['k'] != 'switch':
            t = blocks[bsw]['t']
            nxt = successors(t)
            if t['k'] not in ('goto', 'call', 'assert', 'drop') or len(nxt) != 1 or bsw in seen or nxt[0] not in L['blocks']:
                raise bad
            seen.add(bsw); bsw = nxt[0]
        t = blocks[bsw]['t']
        tgt0 = [tt for v, tt in t['targets'] if str(v) == '0']
        if not tgt0 or tgt0[0] in L['blocks'] or t['otherwise'] not in L['blocks'] or len(t['targets']) != 1:
            raise bad
        def probe_bound(st_):
            probe = st_.clone()
            markers = {}
            for l in L['assigned']:
                v = probe.heap.get(fr.locals[l])
                if isinstance(v, E) and X.is_int(v.ty):
                    m = X.fresh(v.ty, 'ind')
                    markers[m.id] = l
                    probe.heap[fr.locals[l]] = m
            snap = (len(self.rec.obligations), len(self.rec.panics), len(self.rec.unsafe_ops), len(self.rec.events), len(self.rec.loops))
            probe.loopmode = dict(probe.loopmode); probe.loopmode[(fr.id, L['header'])] = 'iterate'
            try:
                outs = self.exec_from(probe, fr, L['header'], stop_at={tgt0[0], t['otherwise']}, first=True)
            finally:
                del self.rec.obligations[snap[0]:]; del self.rec.panics[snap[1]:]; del self.rec.unsafe_ops[snap[2]:]; del self.rec.events[snap[3]:]; del self.rec.loops[snap[4]:]
            cond = None
            for s_, oc in outs:
                if oc[0] == 'reach' and oc[1] == t['otherwise'] and len(s_.pc) > len(st_.pc):
                    cond = s_.pc[-1]
            if cond is None or cond.op not in ('lt', 'gt'):
                raise bad
            A, B = cond.args if cond.op == 'lt' else (cond.args[1], cond.args[0])
            if A.id not in markers or any(n_.id in markers for n_ in X.walk(B)):
                raise bad
            return markers[A.id], B
        i, B = probe_bound(st)
        i0 = st.heap[fr.locals[i]]
        nv = B
        if not (isinstance(i0, E) and X.is_int(i0.ty)):
            raise bad
        if nv.ty != i0.ty:
            raise bad
        if i0.is_const and i0.val == 0:
            cnt, iend = nv, nv
        elif i0.is_const and nv.is_const:
            cnt = X.const(nv.ty, max(0, nv.val - i0.val)); iend = X.const(nv.ty, max(nv.val, i0.val))
        else:
            d = X.binop('sub', nv, i0, wrap=False)
            cnt = X.node('imax', (d, X.const(nv.ty, 0)), nv.ty)
            iend = X.node('imax', (nv, i0), nv.ty)
        desc = dict(kind='range', n=cnt, elem=lambda st2, kk, i0=i0: X.binop('add', i0, kk, wrap=False), start=i0, end=nv)
        return dict(i=i, i0=i0, n=nv, iend=iend, desc=desc, probe=probe_bound)

    def summarise_stores(self, rec, st, ex, collected, nopanic={}):
        """turn the stores made during one symbolic iteration into quantified store summaries of the exit state.
        `nopanic`: per path of the iteration, the conditions it asserts (their failure panics): in an execution that
        returns they held in every iteration, so they do not make a store conditional."""
        from .resolve import deflatten_store
        # dedupe stores (same Store object reached on several paths after it was made)
        seen = set()
        collected.sort(key=lambda x: x[1].seq)
        uniq = []
        for o, stv, pc in collected:
            if stv.seq not in seen:
                seen.add(stv.seq); uniq.append((o, stv, pc))
        # stores to the same element made on different control paths of one iteration are
        # one store whose value is a select-tree over the branch conditions (if the paths
        # partition the iteration: every path of the body performs such a store)
        groups = {}
        for o, stv, pc in uniq:
            if not stv.qvars:
                groups.setdefault((o, stv.index.id, stv.flat, stv.site), []).append((o, stv, pc))
        merged_away = set()
        extra = []
        for gk, items in groups.items():
            if len(items) > 1 and len(items) == rec.paths:
                common = None
                for o, stv, pc in items:
                    g = stv.pc[rec.pre_pc_len:]
                    common = g if common is None else tuple(x for x in common if x in g)
                mv = merge_by_conditions([([x for x in stv.pc[rec.pre_pc_len:] if x not in common], stv.value) for o, stv, pc in items])
                if mv is not None:
                    o, first, pc = items[0]
                    ns = Store(first.index, mv, (), (), first.flat, st.pc + tuple(common), first.site)
                    for _, stv, _ in items: merged_away.add(stv.seq)
                    extra.append((o, ns, pc))
        uniq = [x for x in uniq if x[1].seq not in merged_away] + extra
        uniq.sort(key=lambda x: x[1].seq)
        for o, stv, pc in uniq:
            np_ = nopanic.get(pc, ())
            g = tuple(c for c in stv.pc[rec.pre_pc_len:] if c.id not in np_) + stv.guard
            new = Store(stv.index, stv.value, g, stv.qvars + (rec.qvar,), stv.flat, ex.pc, stv.site)
            rec.raw_stores.append((o, new))
            if new.flat:
                d = deflatten_store(self, ex.heap[o], new, rec.qvar)
                if d is not None:
                    new = d
            rec.stores.append((o, new))
            ex.heap[o] = ex.heap[o].with_store(new)

    def check_interference(self, rec, ex):
        """A buffer that is both loaded and stored in a summarised loop must be accessed
        in place: every load index equals the store index of the same iteration and the
        store index is the iteration variable itself (+ constant base)."""
        written = {}
        for o, s in rec.raw_stores:
            written.setdefault(o, []).append(s)
        k = rec.qvar[0]
        for (o, idx, ver, flat) in rec.loads:
            if o not in written:
                continue
            for s in written[o]:
                inner_q = s.qvars[:-1]
                if inner_q:
                    raise Unsupported('nested-loop store into a buffer that is also loaded')
                if s.index is not idx or not self.is_iter_index(idx, k):
                    raise Unsupported(f"loop-carried memory dependence on buffer obj{o}: load {idx} vs store {s.index}")

    @staticmethod
    def is_iter_index(idx, k):
        if idx is k:
            return True
        if idx.op == 'iadd' and ((idx.args[0] is k and idx.args[1].is_const) or (idx.args[1] is k and idx.args[0].is_const)):
            return True
        return False
