"""Rigorous a-priori error analysis of float expression DAGs.

abstract value of a node  =  exact real polynomial P over atoms (rational coefficients)
                           + absolute error bound  err  (|computed - P(atoms)| <= err)
                           + enclosing interval [lo, hi] of the computed value.

Atoms are input samples / pixels (with declared ranges) and the results of non-polynomial
operations (clamp, min/max, round, transcendental calls), for which a definition is kept
so that callers can reason about them separately.  All arithmetic is exact (Fractions);
every IEEE operation contributes its rounding error  u*|result| + eta.
"""
from __future__ import annotations
from fractions import Fraction as Fr
import math
from . import expr as X
from .expr import E
from .values import Unsupported

U = {32: Fr(1, 2 ** 24), 64: Fr(1, 2 ** 53)}
ETA = {32: Fr(1, 2 ** 150), 64: Fr(1, 2 ** 1075)}

def fr(x):
    if isinstance(x, Fr): return x
    if isinstance(x, int): return Fr(x)
    if x != x or x in (math.inf, -math.inf):
        raise Unsupported('non-finite constant in numeric analysis')
    return Fr(x)

class Poly:
    """sparse polynomial: {monomial: coef}, monomial = sorted tuple of atom ids"""
    __slots__ = ('t',)
    def __init__(self, t=None):
        self.t = {m: c for m, c in (t or {}).items() if c != 0}
    @staticmethod
    def const(c): return Poly({(): fr(c)})
    @staticmethod
    def atom(a): return Poly({(a,): Fr(1)})
    def __add__(self, o):
        t = dict(self.t)
        for m, c in o.t.items():
            t[m] = t.get(m, 0) + c
        return Poly(t)
    def scale(self, c):
        c = fr(c)
        return Poly({m: v * c for m, v in self.t.items()})
    def __sub__(self, o): return self + o.scale(-1)
    def __mul__(self, o):
        t = {}
        for m1, c1 in self.t.items():
            for m2, c2 in o.t.items():
                m = tuple(sorted(m1 + m2))
                t[m] = t.get(m, 0) + c1 * c2
        return Poly(t)
    def is_const(self): return all(m == () for m in self.t)
    def constant(self): return self.t.get((), Fr(0))
    def degree(self): return max((len(m) for m in self.t), default=0)
    def coef(self, *atoms): return self.t.get(tuple(sorted(atoms)), Fr(0))
    def atoms(self): return {a for m in self.t for a in m}
    def __eq__(self, o): return isinstance(o, Poly) and self.t == o.t
    def __repr__(self):
        return ' + '.join(f"{float(c):.9g}" + ''.join(f"*a{a}" for a in m) for m, c in sorted(self.t.items())) or '0'

class AbsF:
    __slots__ = ('p', 'err', 'lo', 'hi')
    def __init__(self, p, err, lo, hi):
        self.p, self.err, self.lo, self.hi = p, fr(err), fr(lo), fr(hi)
    @property
    def mag(self): return max(abs(self.lo), abs(self.hi))
    def __repr__(self):
        return f"AbsF({self.p} ± {float(self.err):.3g} in [{float(self.lo):.9g},{float(self.hi):.9g}])"

class Analyzer:
    def __init__(self, atom_range=None):
        self.cache = {}
        self.atom_info = {}        # atom id -> dict(kind=, node=, lo=, hi=, ...)
        self.atom_range = atom_range or (lambda node: None)
        self.elide_clamp = True

    # -- intervals of polynomials (naive interval arithmetic on monomials)
    def prange(self, p: Poly):
        lo = hi = Fr(0)
        for m, c in p.t.items():
            mlo, mhi = Fr(1), Fr(1)
            # group equal atoms (even powers are non-negative)
            i = 0
            while i < len(m):
                j = i
                while j < len(m) and m[j] == m[i]: j += 1
                a = self.atom_info[m[i]]
                alo, ahi = a['lo'], a['hi']
                k = j - i
                cands = [alo ** k, ahi ** k]
                plo, phi = min(cands), max(cands)
                if k % 2 == 0 and alo < 0 < ahi: plo = Fr(0)
                prods = [mlo * plo, mlo * phi, mhi * plo, mhi * phi]
                mlo, mhi = min(prods), max(prods)
                i = j
            a, b = c * mlo, c * mhi
            lo += min(a, b); hi += max(a, b)
        return lo, hi

    def new_atom(self, node, lo, hi, **info):
        aid = node.id
        self.atom_info[aid] = dict(node=node, lo=fr(lo), hi=fr(hi), **info)
        return AbsF(Poly.atom(aid), 0, lo, hi)

    def mk(self, p, err, bits=None, rounded=False):
        lo, hi = self.prange(p)
        lo -= err; hi += err
        if rounded:
            m = max(abs(lo), abs(hi))
            r = U[bits] * m + ETA[bits]
            err = err + r
            lo -= r; hi += r
        return AbsF(p, err, lo, hi)

    def ev(self, e: E) -> AbsF:
        r = self.cache.get(e.id)
        if r is None:
            r = self._ev(e)
            self.cache[e.id] = r
        return r

    def _ev(self, e: E) -> AbsF:
        op = e.op
        ty = e.ty
        if op == 'const':
            if X.is_bool(ty):
                v = Fr(int(e.val))
            else:
                v = fr(e.val)
            return AbsF(Poly.const(v), 0, v, v)
        if op in ('sym', 'load'):
            rng = self.atom_range(e)
            if rng is None:
                if X.is_int(ty):
                    from .ranges import int_bounds
                    rng = int_bounds(e)
                else:
                    raise Unsupported(f"no range for float atom {e}")
            return self.new_atom(e, rng[0], rng[1], kind='input')
        bits = ty[1] if X.is_float(ty) else None
        if op in ('fadd', 'fsub'):
            a, b = self.ev(e.args[0]), self.ev(e.args[1])
            p = a.p + b.p if op == 'fadd' else a.p - b.p
            return self.mk(p, a.err + b.err, bits, True)
        if op == 'fmul':
            a, b = self.ev(e.args[0]), self.ev(e.args[1])
            if a.p.degree() + b.p.degree() > 6:
                return self.opaque(e, *self.imul((a.lo, a.hi), (b.lo, b.hi)), kind='product')
            err = a.mag * b.err + b.mag * a.err + a.err * b.err
            return self.mk(a.p * b.p, err, bits, True)
        if op == 'fneg':
            a = self.ev(e.args[0])
            return AbsF(a.p.scale(-1), a.err, -a.hi, -a.lo)
        if op == 'fma':
            a, b, c = (self.ev(x) for x in e.args)
            if a.p.degree() + b.p.degree() > 6:
                raise Unsupported('fma degree')
            err = a.mag * b.err + b.mag * a.err + a.err * b.err + c.err
            return self.mk(a.p * b.p + c.p, err, bits, True)
        if op == 'fdiv':
            a, b = self.ev(e.args[0]), self.ev(e.args[1])
            if b.p.is_const() and b.err == 0 and b.p.constant() != 0:
                c = 1 / b.p.constant()
                return self.mk(a.p.scale(c), a.err * abs(c), bits, True)
            return self.quotient(e, a, b, bits)
        if op == 'cast':
            src = e.args[0]
            a = self.ev(src)
            if X.is_float(ty):
                if X.is_int(src.ty) or X.is_bool(src.ty):
                    exact = a.mag <= 2 ** (24 if bits == 32 else 53)
                    return self.mk(a.p, a.err, bits, not exact)
                if src.ty[1] <= bits:
                    return a
                return self.mk(a.p, a.err, bits, True)
            if X.is_int(ty) and X.is_float(src.ty):
                tlo, thi = X.int_range(ty)
                lo = max(Fr(tlo), Fr(math.floor(a.lo)) if a.lo < 0 else Fr(math.floor(a.lo)))
                lo = max(Fr(tlo), Fr(math.trunc(a.lo)))
                hi = min(Fr(thi), Fr(math.trunc(a.hi)))
                if lo > hi: lo, hi = min(lo, hi), max(lo, hi)
                return self.new_atom(e, lo, hi, kind='ftoi', arg=a)
            if X.is_int(ty):
                return a
        if op in ('icast', 'wrap'):
            a = self.ev(e.args[0])
            if op == 'wrap':
                tlo, thi = X.int_range(ty)
                if a.lo < tlo or a.hi > thi:
                    return self.new_atom(e, tlo, thi, kind='wrap', arg=a)
            return a
        if op in ('iadd', 'isub', 'imul'):
            a, b = self.ev(e.args[0]), self.ev(e.args[1])
            p = a.p + b.p if op == 'iadd' else a.p - b.p if op == 'isub' else a.p * b.p
            return self.mk(p, 0)
        if op == 'select':
            cl = self.as_clamp(e)
            if cl is not None:
                v, lo, hi = cl
                a = self.ev(v)
                if self.elide_clamp and a.lo >= lo and a.hi <= hi:
                    return a
                return self.new_atom(e, max(a.lo, lo) if a.lo <= hi else hi, min(a.hi, hi) if a.hi >= lo else lo,
                                     kind='clamp', arg=a, clo=lo, chi=hi, argnode=v)
            c, x, y = e.args
            a, b = self.ev(x), self.ev(y)
            if a.p == b.p:
                return AbsF(a.p, max(a.err, b.err), min(a.lo, b.lo), max(a.hi, b.hi))
            return self.new_atom(e, min(a.lo, b.lo), max(a.hi, b.hi), kind='select', cond=c, a=a, b=b)
        if op.startswith('call:'):
            return self.call(e, op[5:])
        if op == 'app':
            # application of a math helper: an atom; its range is taken from the ideal function
            # (formula mode, assumptions A-cbrt / A-elem), its arguments are kept for the caller
            from .apps import app_name
            name = app_name(e)
            args = [self.ev(x) for x in e.args[1:]]
            a = args[0]
            if name == 'cbrtf':
                f = lambda v: math.copysign(abs(float(v)) ** (1.0 / 3.0), float(v))
                lo, hi = fr(f(a.lo)) * (1 - Fr(1, 10 ** 6)) - Fr(1, 10 ** 9), fr(f(a.hi)) * (1 + Fr(1, 10 ** 6)) + Fr(1, 10 ** 9)
                if a.lo < 0: lo = fr(f(a.lo)) * (1 + Fr(1, 10 ** 6)) - Fr(1, 10 ** 9)
                return self.new_atom(e, lo, hi, kind='app', name=name, args=args, argnodes=e.args[1:])
            raise Unsupported(f"application of {name} in the affine/error analysis")
        if op == 'cast:bits':
            raise Unsupported('bit reinterpretation in numeric analysis')
        if op in ('ishr', 'ishl', 'idiv', 'irem', 'iand', 'ior', 'imin', 'imax'):
            from .ranges import int_bounds
            lo, hi = int_bounds(e)
            return self.new_atom(e, lo, hi, kind='intop')
        raise Unsupported(f"numeric analysis of {op}")

    @staticmethod
    def imul(a, b):
        ps = [a[0] * b[0], a[0] * b[1], a[1] * b[0], a[1] * b[1]]
        return min(ps), max(ps)

    def opaque(self, e, lo, hi, **info):
        return self.new_atom(e, lo, hi, **info)

    def quotient(self, e, a, b, bits):
        blo, bhi = b.lo, b.hi
        if blo <= 0 <= bhi:
            raise Unsupported('division by an interval containing zero')
        cands = [a.lo / blo, a.lo / bhi, a.hi / blo, a.hi / bhi]
        lo, hi = min(cands), max(cands)
        m = max(abs(lo), abs(hi))
        r = U[bits] * m + ETA[bits]
        return self.new_atom(e, lo - r, hi + r, kind='quotient', num=a, den=b)

    def as_clamp(self, e):
        """select(lt(v,lo), lo, select(gt(v,hi), hi, v)) with constant bounds == clamp"""
        c1, a1, r1 = e.args
        if c1.op == 'lt' and a1.is_const and c1.args[1] is a1 and r1.op == 'select':
            v = c1.args[0]
            c2, a2, r2 = r1.args
            if c2.op == 'gt' and c2.args[0] is v and a2.is_const and c2.args[1] is a2 and r2 is v:
                return v, fr(a1.val), fr(a2.val)
        return None

    def call(self, e, name):
        args = [self.ev(x) for x in e.args]
        a = args[0]
        bits = e.ty[1]
        if name == 'libm_cbrt':
            # the cube root helper of the --no-default-features build IS this call: same atom as an application of cbrtf
            f = lambda v: math.copysign(abs(float(v)) ** (1.0 / 3.0), float(v))
            if a.p.is_const() and a.err == 0:
                # a constant argument: the value is the cube root within one ulp (A-libm), not folded with the host's libm
                v = fr(f(a.p.constant()))
                e_ = abs(v) * (Fr(1, 2 ** 23) + Fr(1, 10 ** 12))
                return AbsF(Poly.const(v), e_, v - e_, v + e_)
            lo, hi = fr(f(a.lo)) * (1 - Fr(1, 10 ** 6)) - Fr(1, 10 ** 9), fr(f(a.hi)) * (1 + Fr(1, 10 ** 6)) + Fr(1, 10 ** 9)
            if a.lo < 0: lo = fr(f(a.lo)) * (1 + Fr(1, 10 ** 6)) - Fr(1, 10 ** 9)
            return self.new_atom(e, lo, hi, kind='app', name='cbrtf', args=args, argnodes=e.args)
        if name == 'abs':
            if a.lo >= 0: return a
            if a.hi <= 0: return AbsF(a.p.scale(-1), a.err, -a.hi, -a.lo)
            return self.new_atom(e, 0, a.mag, kind='abs', arg=a)
        if name in ('max', 'min'):
            b = args[1]
            if name == 'max':
                if a.lo >= b.hi: return a
                if b.lo >= a.hi: return b
                return self.new_atom(e, max(a.lo, b.lo), max(a.hi, b.hi), kind='max', a=a, b=b)
            if a.hi <= b.lo: return a
            if b.hi <= a.lo: return b
            return self.new_atom(e, min(a.lo, b.lo), min(a.hi, b.hi), kind='min', a=a, b=b)
        if name == 'clamp':
            lo, hi = args[1], args[2]
            if not (lo.p.is_const() and hi.p.is_const()):
                raise Unsupported('clamp with non-constant bounds')
            l, h = lo.p.constant(), hi.p.constant()
            if a.lo >= l and a.hi <= h: return a
            return self.new_atom(e, max(a.lo, l), min(a.hi, h), kind='clamp', arg=a, clo=l, chi=h, argnode=e.args[0])
        if name == 'round':
            return self.new_atom(e, Fr(math.floor(a.lo)), Fr(math.ceil(a.hi)), kind='round', arg=a)
        if name == 'floor':
            return self.new_atom(e, Fr(math.floor(a.lo)), Fr(math.floor(a.hi)), kind='floor', arg=a)
        if name == 'sqrt':
            if a.lo < 0:
                raise Unsupported('sqrt of possibly negative value')
            lo = Fr(math.sqrt(float(a.lo))) * (1 - Fr(1, 2 ** 40)); hi = Fr(math.sqrt(float(a.hi))) * (1 + Fr(1, 2 ** 40))
            return self.new_atom(e, lo, hi, kind='sqrt', arg=a)
        if name == 'copysign':
            return self.new_atom(e, -a.mag, a.mag, kind='copysign', arg=a)
        raise Unsupported(f"numeric analysis of call {name}")

# --------------------------------------------------------------------- peel helpers
def peel_int_clamp(e):
    """Recognise  clamp(x, lo, hi) on integers as produced by num_traits::clamp
    (select(lt(x,lo), lo, select(gt(x,hi), hi, x)))."""
    if e.op == 'select':
        c1, a1, r1 = e.args
        if c1.op == 'lt' and c1.args[1] is a1 and r1.op == 'select':
            v = c1.args[0]
            c2, a2, r2 = r1.args
            if c2.op == 'gt' and c2.args[0] is v and c2.args[1] is a2 and r2 is v:
                return v, a1, a2
    return None
