"""Float range + NaN-flag analysis (interval domain with may-NaN), used for the
precondition of unchecked float->int conversions (C07 O-float, C13, C18)."""
from __future__ import annotations
import math
from . import expr as X

INF = math.inf
TOP = (-INF, INF, True)

def frange(e, cache=None, atom=None):
    """(lo, hi, may_nan).  `atom(node)` may supply ranges for input atoms."""
    if cache is None:
        cache = {}
    if atom is None:
        atom = _DYN_ATOM[0]
    saved = _DYN_ATOM[0]
    _DYN_ATOM[0] = atom
    try:
        return _frange(e, cache, atom)
    finally:
        _DYN_ATOM[0] = saved

_DYN_ATOM = [None]

def _frange(e, cache, atom):
    def mul(a, b):
        ps = []
        for x in (a[0], a[1]):
            for y in (b[0], b[1]):
                if (x == 0 and abs(y) == INF) or (y == 0 and abs(x) == INF):
                    ps.append(0.0)
                else:
                    ps.append(x * y)
        return min(ps), max(ps)
    def rec(n):
        r = cache.get(n.id)
        if r is not None:
            return r
        op = n.op
        if op == 'const':
            if X.is_float(n.ty):
                v = n.val
                r = TOP if v != v else (v, v, False)
            else:
                v = float(int(n.val))
                r = (v, v, False)
        elif op in ('sym', 'load'):
            r = atom(n) if atom else None
            if r is None:
                if X.is_float(n.ty):
                    r = TOP
                else:
                    from .ranges import int_bounds
                    lo, hi = int_bounds(n)
                    r = (float(lo), float(hi), False)
        elif op == 'fsub' and n.args[1].op == 'call:floor' and n.args[1].args[0] is n.args[0]:
            a = rec(n.args[0])
            bad = a[2] or abs(a[0]) == INF or abs(a[1]) == INF
            if not bad and math.floor(a[0]) == math.floor(a[1]) and abs(a[0]) < 2 ** 22:
                fl = math.floor(a[0])
                r = (max(0.0, round_down(a[0] - fl)), min(1.0, round_up(a[1] - fl)), False)
            else:
                r = (0.0, 1.0, bad)                        # x - floor(x) in [0, 1] for finite x
        elif op in ('fadd', 'fsub'):
            a, b = rec(n.args[0]), rec(n.args[1])
            if op == 'fsub': b = (-b[1], -b[0], b[2])
            nan = a[2] or b[2] or (a[1] == INF and b[0] == -INF) or (a[0] == -INF and b[1] == INF)
            lo, hi = a[0] + b[0] if not (abs(a[0]) == INF and abs(b[0]) == INF and a[0] != b[0]) else -INF, \
                     a[1] + b[1] if not (abs(a[1]) == INF and abs(b[1]) == INF and a[1] != b[1]) else INF
            r = (round_down(lo), round_up(hi), nan)
        elif op == 'fmul':
            a, b = rec(n.args[0]), rec(n.args[1])
            nan = a[2] or b[2] or ((a[0] <= 0 <= a[1]) and (abs(b[0]) == INF or abs(b[1]) == INF)) or ((b[0] <= 0 <= b[1]) and (abs(a[0]) == INF or abs(a[1]) == INF))
            lo, hi = mul(a, b)
            r = (round_down(lo), round_up(hi), nan)
        elif op == 'fma':
            a, b, c = rec(n.args[0]), rec(n.args[1]), rec(n.args[2])
            lo, hi = mul(a, b)
            nanm = a[2] or b[2] or ((a[0] <= 0 <= a[1]) and (abs(b[0]) == INF or abs(b[1]) == INF)) or ((b[0] <= 0 <= b[1]) and (abs(a[0]) == INF or abs(a[1]) == INF))
            nan = nanm or c[2] or (hi == INF and c[0] == -INF) or (lo == -INF and c[1] == INF)
            r = (round_down(lo + c[0]) if not math.isnan(lo + c[0]) else -INF, round_up(hi + c[1]) if not math.isnan(hi + c[1]) else INF, nan)
        elif op == 'fneg':
            a = rec(n.args[0]); r = (-a[1], -a[0], a[2])
        elif op == 'frem':
            a, b = rec(n.args[0]), rec(n.args[1])
            m = max(abs(b[0]), abs(b[1]))
            r = (-m, m, a[2] or b[2] or abs(a[0]) == INF or abs(a[1]) == INF or (b[0] <= 0 <= b[1]))
        elif op == 'fdiv' and n.args[0].op == 'fsub' and n.args[1].op == 'fsub' and _minmax_leaves(n.args[1].args[0], 'call:max') is not None \
                and _minmax_leaves(n.args[1].args[0], 'call:max') == _minmax_leaves(n.args[1].args[1], 'call:min') \
                and {n.args[0].args[0].id, n.args[0].args[1].id} <= _minmax_leaves(n.args[1].args[0], 'call:max'):
            # fl(a - b) / fl(max(S) - min(S)) with a, b in S: |a - b| <= max - min and rounding is monotone, so the quotient is in
            # [-1, 1]; anything else (overflow to inf / inf, 0 / 0, NaN operands) is NaN
            # (the NaN flag is the generic one: no NaN when the operands are finite and the divisor is known to be non-zero)
            a, b = rec(n.args[0]), rec(n.args[1])
            nan = True
            if (b[0] > 0 or b[1] < 0) and not (a[2] or b[2]) and not ((abs(a[0]) == INF or abs(a[1]) == INF) and (abs(b[0]) == INF or abs(b[1]) == INF)):
                nan = False
            r = (-1.0, 1.0, nan)
        elif op == 'fdiv':
            a, b = rec(n.args[0]), rec(n.args[1])
            if b[0] > 0 or b[1] < 0:
                cands = [x / y for x in (a[0], a[1]) for y in (b[0], b[1]) if not (abs(x) == INF and abs(y) == INF)]
                nan = a[2] or b[2] or ((abs(a[0]) == INF or abs(a[1]) == INF) and (abs(b[0]) == INF or abs(b[1]) == INF))
                r = (round_down(min(cands)), round_up(max(cands)), nan) if cands else TOP
            else:
                r = TOP
        elif op == 'call:clamp':       # f32::clamp: NaN propagates
            a, lo, hi = rec(n.args[0]), rec(n.args[1]), rec(n.args[2])
            r = (min(max(a[0], lo[0]), hi[1]), max(min(a[1], hi[1]), lo[0]), a[2] or lo[2] or hi[2])
        elif op == 'call:max':         # f32::max returns the non-NaN operand
            a, b = rec(n.args[0]), rec(n.args[1])
            lo_both, hi_both = max(a[0], b[0]), max(a[1], b[1])
            lo, hi = lo_both, hi_both
            if a[2]: lo, hi = min(lo, b[0]), max(hi, b[1])      # a NaN -> b
            if b[2]: lo, hi = min(lo, a[0]), max(hi, a[1])      # b NaN -> a
            r = (lo, hi, a[2] and b[2])
        elif op == 'call:min':
            a, b = rec(n.args[0]), rec(n.args[1])
            lo, hi = min(a[0], b[0]), min(a[1], b[1])
            if a[2]: lo, hi = min(lo, b[0]), max(hi, b[1])
            if b[2]: lo, hi = min(lo, a[0]), max(hi, a[1])
            r = (lo, hi, a[2] and b[2])
        elif op == 'call:copysign':
            a, b = rec(n.args[0]), rec(n.args[1])
            m = max(abs(a[0]), abs(a[1]))
            r = (-m, m, a[2])
        elif op == 'call:abs':
            a = rec(n.args[0])
            lo = 0.0 if a[0] <= 0 <= a[1] else min(abs(a[0]), abs(a[1]))
            r = (lo, max(abs(a[0]), abs(a[1])), a[2])
        elif op in ('call:floor', 'call:round', 'call:trunc', 'call:ceil'):
            a = rec(n.args[0])
            fl = {'call:floor': (math.floor, math.floor), 'call:round': (math.floor, math.ceil),
                  'call:trunc': (math.floor, math.ceil), 'call:ceil': (math.ceil, math.ceil)}[op]
            r = (float(fl[0](a[0])) if abs(a[0]) != INF else a[0], float(fl[1](a[1])) if abs(a[1]) != INF else a[1], a[2])
        elif op == 'call:sqrt':
            a = rec(n.args[0])
            r = (math.sqrt(max(a[0], 0.0)) * (1 - 1e-7) if a[0] != INF else INF, math.sqrt(a[1]) * (1 + 1e-7) if 0 <= a[1] != INF else INF, a[2] or a[0] < 0)
        elif op == 'cast':
            a = rec(n.args[0])
            if X.is_float(n.ty):
                if X.is_float(n.args[0].ty) and n.args[0].ty[1] <= n.ty[1]:
                    r = a
                else:
                    mx = 3.4028234663852886e38 if n.ty[1] == 32 else 1.7976931348623157e308
                    lo, hi = round_down(a[0]), round_up(a[1])
                    if lo < -mx: lo = -INF
                    if hi > mx: hi = INF
                    r = (lo, hi, a[2])
            else:
                lo, hi = X.int_range(n.ty)
                r = (max(float(lo), a[0]) if a[0] == a[0] else float(lo), min(float(hi), a[1]), False)
        elif op == 'cast:bits' and X.is_float(n.ty):
            from .ranges import int_bounds
            lo, hi = int_bounds(n.args[0])
            top_finite = 0x7f7fffff if n.ty[1] == 32 else 0x7fefffffffffffff
            infbits = top_finite + 1
            if lo is not None and hi is not None and 0 <= lo and hi <= infbits:
                r = (X.bitsf(n.ty, lo), X.bitsf(n.ty, hi), False)
            else:
                r = TOP
        elif op == 'app':
            r = app_range(n, rec, atom) if APP_HOOK[0] is None else APP_HOOK[0](n, rec)
        elif op in ('icast', 'wrap'):
            from .ranges import int_bounds
            lo, hi = int_bounds(n)
            r = (float(lo), float(hi), False)
        elif op == 'select':
            c = n.args[0]
            ra, rb = refine_by_cond(c, rec)
            def branch(node, alts):
                if alts is None:
                    return None                      # branch infeasible
                out = None
                for ov in alts:
                    if not ov:
                        r1 = rec(node)
                    else:
                        # fresh cache holding only the refinements in force (outer ones included)
                        outer = cache.get('__ov__', {})
                        merged = dict(outer)
                        feasible = True
                        for k_, v_ in ov.items():
                            if k_ in merged:
                                l_, h_ = max(merged[k_][0], v_[0]), min(merged[k_][1], v_[1])
                                if l_ > h_: feasible = False; break
                                merged[k_] = (l_, h_, merged[k_][2] and v_[2])
                            else:
                                merged[k_] = v_
                        if not feasible:
                            continue
                        sub = dict(merged); sub['__ov__'] = merged
                        r1 = _frange(node, sub, atom)
                    out = r1 if out is None else (min(out[0], r1[0]), max(out[1], r1[1]), out[2] or r1[2])
                return out
            a, b = branch(n.args[1], ra), branch(n.args[2], rb)
            if a is None and b is None: r = TOP
            elif a is None: r = b
            elif b is None: r = a
            else: r = (min(a[0], b[0]), max(a[1], b[1]), a[2] or b[2])
        elif op.startswith('call:libm_'):
            r = libm_range(op[10:], [rec(x) for x in n.args])
        elif X.is_int(n.ty):
            from .ranges import int_bounds
            lo, hi = int_bounds(n)
            r = (float(lo) if lo is not None else -INF, float(hi) if hi is not None else INF, False)
        else:
            r = TOP
        if X.is_float(n.ty) and n.ty[1] == 32 and r is not TOP and op in ('fadd', 'fsub', 'fmul', 'fma', 'fdiv'):
            # binary32 overflow: results beyond the largest finite value round to infinity
            MAXF = 3.4028235677973366e38          # 2^128 * (1 - 2^-25): rounding boundary
            lo, hi, nan_ = r
            if lo > MAXF: lo = INF
            if hi < -MAXF: hi = -INF
            if hi > MAXF: hi = INF
            if lo < -MAXF: lo = -INF
            r = (lo, hi, nan_)
        cache[n.id] = r
        return r
    return rec(e)

def truth(c, cache=None, atom=None):
    """(may_be_true, may_be_false) of a boolean expression by interval + may-NaN evaluation of its comparisons
    (non-relational: each comparison on its own).  (True, True) = nothing known."""
    if cache is None:
        cache = {}
    def t(c):
        if c.op == 'const':
            return (bool(c.val), not bool(c.val))
        if c.op in ('bnot', 'not'):
            a, b = t(c.args[0]); return (b, a)
        if c.op in ('band', 'and'):
            a, b = t(c.args[0]), t(c.args[1]); return (a[0] and b[0], a[1] or b[1])
        if c.op in ('bor', 'or'):
            a, b = t(c.args[0]), t(c.args[1]); return (a[0] or b[0], a[1] and b[1])
        if c.op in ('lt', 'le', 'gt', 'ge', 'eq', 'ne') and len(c.args) == 2 and all(X.is_float(x.ty) or X.is_int(x.ty) for x in c.args):
            op = c.op
            na, nb = c.args
            if op in ('gt', 'ge'):
                na, nb = nb, na; op = {'gt': 'lt', 'ge': 'le'}[op]
            if op == 'lt' and _minmax_leaves(na, 'call:max') is not None and _minmax_leaves(na, 'call:max') == _minmax_leaves(nb, 'call:min'):
                # max(S) < min(S) over the same operands never holds (f32::max / min skip NaN operands; all NaN: the comparison is false)
                return (False, True)
            a, b = frange(na, cache, atom), frange(nb, cache, atom)
            nan = a[2] or b[2]
            if op == 'lt': return (a[0] < b[1], a[1] >= b[0] or nan)
            if op == 'le': return (a[0] <= b[1], a[1] > b[0] or nan)
            overlap = a[0] <= b[1] and b[0] <= a[1]
            single = a[0] == a[1] == b[0] == b[1]
            if op == 'eq': return (overlap, not single or nan)
            return (not single or nan, overlap)
        return (True, True)
    return t(c)

def _minmax_leaves(n, op):
    """ids of the operands of a nest of f32::max (or min) calls with at least two operands, else None"""
    if n.op != op: return None
    out = set()
    def go(m):
        if m.op == op: go(m.args[0]); go(m.args[1])
        else: out.add(m.id)
    go(n)
    return frozenset(out)

def pc_feasible(pc, atom=None):
    """False only when some conjunct of the path condition can never hold (for any argument, NaN included)."""
    cache = {}
    # conjuncts of the form "x is not NaN" ( !(x != x)  or  x == x ) clear the NaN flag of x for the other conjuncts
    for c in pc:
        x = None
        if c.op in ('bnot', 'not') and c.args[0].op == 'ne' and c.args[0].args[0] is c.args[0].args[1]: x = c.args[0].args[0]
        elif c.op == 'eq' and c.args[0] is c.args[1]: x = c.args[0]
        if x is not None and X.is_float(x.ty):
            lo, hi, _ = frange(x, cache, atom)
            cache[x.id] = (lo, hi, False)
    return all(truth(c, cache, atom)[0] for c in pc)

# round-to-nearest: |fl(x) - x| <= 2^-24 |x| (binary32; binary64 is covered a fortiori);
# 2^-23.5 leaves room for the analyser's own double arithmetic
def round_down(x):
    if x != x or abs(x) == INF: return x
    return x - abs(x) * 8.5e-8
def round_up(x):
    if x != x or abs(x) == INF: return x
    return x + abs(x) * 8.5e-8

APP_HOOK = [None]
_APP_CACHE = {}
CRATE = [None]

def app_range(n, rec, atom):
    """range of an application node: the helper body analysed on the argument ranges, with
    adaptive (binade-wise) splitting of the single non-constant argument"""
    crate = CRATE[0]
    if crate is None:
        return TOP
    key = n.args[0]
    formals, body, _ = crate._apps[key]
    args = n.args[1:]
    rs = [rec(a) for a in args]
    var = [i for i, r in enumerate(rs) if r[0] != r[1] or r[2]]
    ck = (key, tuple((round(r[0], 12) if abs(r[0]) != INF else r[0], round(r[1], 12) if abs(r[1]) != INF else r[1], r[2]) for r in rs))
    if ck in _APP_CACHE:
        return _APP_CACHE[ck]
    pivots = find_pivots(body)
    def ev(ranges):
        def at(node):
            for f, r in zip(formals, ranges):
                if node is f:
                    return r
            return None
        return frange(body, None, at)
    if len(var) != 1 or rs[var[0]][2]:
        out = ev(rs)
    else:
        i = var[0]
        lo, hi, _ = rs[i]
        pieces = split_binades(lo, hi)
        res = []
        for (a, b) in pieces:
            res.append(refine(ev, rs, i, a, b, 0))
        out = (min(r[0] for r in res), max(r[1] for r in res), any(r[2] for r in res))
    _APP_CACHE[ck] = out
    return out

def refine(ev, rs, i, a, b, depth):
    r = ev([x if j != i else (a, b, False) for j, x in enumerate(rs)])
    wide = (r[1] - r[0]) > max(1e-2, 0.05 * max(abs(r[0]), abs(r[1]))) if (abs(r[0]) != INF and abs(r[1]) != INF) else True
    if (r[2] or wide) and depth < 5 and b > a:
        m = (a + b) / 2
        if m in (a, b):
            return r
        r1 = refine(ev, rs, i, a, m, depth + 1); r2 = refine(ev, rs, i, m, b, depth + 1)
        return (min(r1[0], r2[0]), max(r1[1], r2[1]), r1[2] or r2[2])
    return r

def split_binades(lo, hi):
    """cover [lo, hi] by zero, and by binade intervals [2^k, 2^(k+1)] on each side"""
    import math
    if abs(lo) == INF or abs(hi) == INF:
        return [(lo, hi)]
    pts = set([lo, hi])
    if lo <= 0 <= hi: pts.add(0.0)
    for sign in (1, -1):
        for k in range(-150, 129):
            v = sign * 2.0 ** k
            if lo < v < hi: pts.add(v)
    ps = sorted(pts)
    out = []
    import numpy as np
    for a, b in zip(ps, ps[1:]):
        # open at the binade boundary where the exponent field changes (the boundary points are
        # covered as singletons below); predecessors/successors taken in binary32
        a2 = float(np.nextafter(np.float32(a), np.float32(np.inf))) if a < 0 else a
        b2 = float(np.nextafter(np.float32(b), np.float32(-np.inf))) if b > 0 else b
        if a2 <= b2:
            out.append((a2, b2))
    for p in ps:
        out.append((p, p))
    return out

def refine_by_cond(c, rec):
    """Alternatives of cache overrides for the then / else branch of a select.
    Each side is a list of override dicts (their union covers the branch), [{}] = no
    refinement, None = infeasible.  Handles comparisons of a float node with a constant,
    |node| comparisons (two-sided alternatives), negation, and or/and of such conditions;
    a refined node `x -/+ const` is propagated one step back to x."""
    def simple(c):
        """-> (true_alts, false_alts)"""
        if c.op == 'bnot':
            t_, f_ = simple(c.args[0]); return f_, t_
        if c.op == 'bor':
            t1, f1 = simple(c.args[0]); t2, f2 = simple(c.args[1])
            return _union(t1, t2), _conj(f1, f2)
        if c.op == 'band':
            t1, f1 = simple(c.args[0]); t2, f2 = simple(c.args[1])
            return _conj(t1, t2), _union(f1, f2)
        if c.op not in ('lt', 'le', 'gt', 'ge') or not X.is_float(c.args[0].ty):
            return [{}], [{}]
        a, b = c.args
        op = c.op
        if a.is_const and not b.is_const:
            a, b = b, a
            op = {'lt': 'gt', 'le': 'ge', 'gt': 'lt', 'ge': 'le'}[op]
        if not b.is_const or a.is_const:
            return [{}], [{}]
        k = b.val
        def rng(node, l, h, keep_nan):
            lo, hi, nan = rec(node)
            l, h = max(lo, l), min(hi, h)
            if l > h:
                return None
            d = {node.id: (l, h, nan and keep_nan)}
            # one step of backward propagation through  x - c  /  x + c
            if node.op in ('fsub', 'fadd') and node.args[1].is_const and not node.args[0].is_const:
                cst = node.args[1].val if node.op == 'fsub' else -node.args[1].val
                xlo, xhi, xnan = rec(node.args[0])
                # node = fl(x -/+ c): |node - (x -/+ c)| <= 2^-23 * |node|
                xl, xh = max(xlo, l + cst - abs(l) * 8.5e-8), min(xhi, h + cst + abs(h) * 8.5e-8)
                if xl <= xh:
                    d[node.args[0].id] = (xl, xh, xnan and keep_nan)
            return d
        def alts(*ds):
            ds = [d for d in ds if d is not None]
            return ds if ds else None
        if a.op == 'call:abs':
            x = a.args[0]
            if op in ('lt', 'le'):      # |x| < k
                return alts(rng(x, -k, k, False)), alts(rng(x, k, INF, True), rng(x, -INF, -k, True))
            return alts(rng(x, k, INF, False), rng(x, -INF, -k, False)), alts(rng(x, -k, k, True))
        if op in ('lt', 'le'):
            return alts(rng(a, -INF, k, False)), alts(rng(a, k, INF, True))
        return alts(rng(a, k, INF, False)), alts(rng(a, -INF, k, True))
    return simple(c)

def _union(a, b):
    if a is None: return b
    if b is None: return a
    return a + b

def _conj(a, b):
    if a is None or b is None:
        return None
    out = []
    for x in a:
        for y in b:
            d = dict(x)
            ok = True
            for k_, v in y.items():
                if k_ in d:
                    l, h = max(d[k_][0], v[0]), min(d[k_][1], v[1])
                    if l > h: ok = False; break
                    d[k_] = (l, h, d[k_][2] and v[2])
                else:
                    d[k_] = v
            if ok: out.append(d)
    return out or None

def libm_range(name, a):
    import math
    x = a[0]
    lo, hi, nan = x
    def mono(f, lo, hi):
        return (round_down(f(lo)), round_up(f(hi)))
    try:
        if name in ('ln', 'log10', 'log2'):
            f = {'ln': math.log, 'log10': math.log10, 'log2': math.log2}[name]
            if hi < 0: return TOP
            l = -INF if lo <= 0 else f(lo)
            h = -INF if hi <= 0 else (INF if hi == INF else f(hi))
            return (round_down(l), round_up(h), nan or lo < 0)
        if name == 'exp':
            l = 0.0 if lo == -INF else (math.exp(lo) if lo < 700 else INF)
            h = INF if hi > 700 else math.exp(hi)
            return (round_down(l), round_up(h), nan)
        if name == 'cbrt':
            f = lambda v: math.copysign(abs(v) ** (1 / 3), v) if abs(v) != INF else v
            return (round_down(f(lo)), round_up(f(hi)), nan)
        if name == 'powf':
            y = a[1]
            if lo >= 0 and y[0] == y[1] and not y[2]:
                e = y[0]
                f = lambda v: (v ** e if v != INF else (INF if e > 0 else 0.0)) if not (v == 0 and e < 0) else INF
                c = sorted([f(lo), f(hi)])
                return (round_down(c[0]), round_up(c[1]), nan)
    except (OverflowError, ValueError):
        pass
    return TOP

def find_pivots(body):
    """float nodes P feeding a float->int truncation as  trunc(P - c)  or  trunc(P): the
    truncation is discontinuous in P, so P's range is split at the jump points and the
    rest of the expression evaluated per piece (disjunctive refinement)."""
    piv = []
    seen = set()
    for n in X.walk(body):
        if n.op == 'ftoi_unchecked' or (n.op == 'cast' and X.is_int(n.ty) and n.args and X.is_float(n.args[0].ty)):
            a = n.args[0]
            c = 0.0
            if a.op == 'fsub' and a.args[1].is_const:
                c = a.args[1].val; a = a.args[0]
            elif a.op == 'fadd' and a.args[1].is_const:
                c = -a.args[1].val; a = a.args[0]
            if a.id not in seen and not a.is_const:
                seen.add(a.id); piv.append((a, c))
    return piv      # walk is post-order: inner pivots come first

def eval_with_pivots(body, pivots, at, max_pieces=600):
    import math
    import numpy as np
    def go(i, overrides):
        if i == len(pivots):
            return _frange(body, dict(overrides), at)
        P, c = pivots[i]
        lo, hi, nan = _frange(P, dict(overrides), at)
        if nan or abs(lo) == INF or abs(hi) == INF or hi - lo > max_pieces:
            return go(i + 1, overrides)
        k0 = math.floor(lo - c); k1 = math.floor(hi - c)
        res = []
        for k in range(k0, k1 + 1):
            a = max(lo, k + c)
            b = min(hi, float(np.nextafter(np.float32(k + 1 + c), np.float32(-np.inf))))
            if a > b:
                continue
            ov = dict(overrides); ov[P.id] = (a, b, False)
            res.append(go(i + 1, ov))
        if not res:
            return go(i + 1, overrides)
        return (min(r[0] for r in res), max(r[1] for r in res), any(r[2] for r in res))
    return go(0, {})
