"""Float range + NaN-flag analysis (interval domain with may-NaN), used for the
precondition of unchecked float->int conversions (C07 O-float, C13, C18)."""
from __future__ import annotations
import math
from . import expr as X

INF = math.inf
TOP = (-INF, INF, True)

def frange(e, cache=None, atom=None):
    """(lo, hi, may_nan).  `atom(node)` may supply ranges for input atoms."""
    if cache is None:
        cache = {}
    def mul(a, b):
        ps = []
        for x in (a[0], a[1]):
            for y in (b[0], b[1]):
                if (x == 0 and abs(y) == INF) or (y == 0 and abs(x) == INF):
                    ps.append(0.0)
                else:
                    ps.append(x * y)
        return min(ps), max(ps)
    def rec(n):
        r = cache.get(n.id)
        if r is not None:
            return r
        op = n.op
        if op == 'const':
            if X.is_float(n.ty):
                v = n.val
                r = TOP if v != v else (v, v, False)
            else:
                v = float(int(n.val))
                r = (v, v, False)
        elif op in ('sym', 'load'):
            r = atom(n) if atom else None
            if r is None:
                if X.is_float(n.ty):
                    r = TOP
                else:
                    from .ranges import int_bounds
                    lo, hi = int_bounds(n)
                    r = (float(lo), float(hi), False)
        elif op in ('fadd', 'fsub'):
            a, b = rec(n.args[0]), rec(n.args[1])
            if op == 'fsub': b = (-b[1], -b[0], b[2])
            nan = a[2] or b[2] or (a[1] == INF and b[0] == -INF) or (a[0] == -INF and b[1] == INF)
            lo, hi = a[0] + b[0] if not (abs(a[0]) == INF and abs(b[0]) == INF and a[0] != b[0]) else -INF, \
                     a[1] + b[1] if not (abs(a[1]) == INF and abs(b[1]) == INF and a[1] != b[1]) else INF
            r = (round_down(lo), round_up(hi), nan)
        elif op == 'fmul':
            a, b = rec(n.args[0]), rec(n.args[1])
            nan = a[2] or b[2] or ((a[0] <= 0 <= a[1]) and (abs(b[0]) == INF or abs(b[1]) == INF)) or ((b[0] <= 0 <= b[1]) and (abs(a[0]) == INF or abs(a[1]) == INF))
            lo, hi = mul(a, b)
            r = (round_down(lo), round_up(hi), nan)
        elif op == 'fma':
            a, b, c = rec(n.args[0]), rec(n.args[1]), rec(n.args[2])
            lo, hi = mul(a, b)
            nanm = a[2] or b[2] or ((a[0] <= 0 <= a[1]) and (abs(b[0]) == INF or abs(b[1]) == INF)) or ((b[0] <= 0 <= b[1]) and (abs(a[0]) == INF or abs(a[1]) == INF))
            nan = nanm or c[2] or (hi == INF and c[0] == -INF) or (lo == -INF and c[1] == INF)
            r = (round_down(lo + c[0]) if not math.isnan(lo + c[0]) else -INF, round_up(hi + c[1]) if not math.isnan(hi + c[1]) else INF, nan)
        elif op == 'fneg':
            a = rec(n.args[0]); r = (-a[1], -a[0], a[2])
        elif op == 'fdiv':
            a, b = rec(n.args[0]), rec(n.args[1])
            if b[0] > 0 or b[1] < 0:
                cands = [x / y for x in (a[0], a[1]) for y in (b[0], b[1]) if not (abs(x) == INF and abs(y) == INF)]
                nan = a[2] or b[2] or ((abs(a[0]) == INF or abs(a[1]) == INF) and (abs(b[0]) == INF or abs(b[1]) == INF))
                r = (round_down(min(cands)), round_up(max(cands)), nan) if cands else TOP
            else:
                r = TOP
        elif op == 'call:clamp':       # f32::clamp: NaN propagates
            a, lo, hi = rec(n.args[0]), rec(n.args[1]), rec(n.args[2])
            r = (min(max(a[0], lo[0]), hi[1]), max(min(a[1], hi[1]), lo[0]), a[2] or lo[2] or hi[2])
        elif op == 'call:max':         # f32::max returns the non-NaN operand
            a, b = rec(n.args[0]), rec(n.args[1])
            lo_both, hi_both = max(a[0], b[0]), max(a[1], b[1])
            lo, hi = lo_both, hi_both
            if a[2]: lo, hi = min(lo, b[0]), max(hi, b[1])      # a NaN -> b
            if b[2]: lo, hi = min(lo, a[0]), max(hi, a[1])      # b NaN -> a
            r = (lo, hi, a[2] and b[2])
        elif op == 'call:min':
            a, b = rec(n.args[0]), rec(n.args[1])
            lo, hi = min(a[0], b[0]), min(a[1], b[1])
            if a[2]: lo, hi = min(lo, b[0]), max(hi, b[1])
            if b[2]: lo, hi = min(lo, a[0]), max(hi, a[1])
            r = (lo, hi, a[2] and b[2])
        elif op == 'call:abs':
            a = rec(n.args[0])
            lo = 0.0 if a[0] <= 0 <= a[1] else min(abs(a[0]), abs(a[1]))
            r = (lo, max(abs(a[0]), abs(a[1])), a[2])
        elif op in ('call:floor', 'call:round'):
            a = rec(n.args[0])
            r = (math.floor(a[0]) if abs(a[0]) != INF else a[0], math.ceil(a[1]) if abs(a[1]) != INF else a[1], a[2])
        elif op == 'call:sqrt':
            a = rec(n.args[0])
            r = (math.sqrt(max(a[0], 0.0)) * (1 - 1e-7) if a[0] != INF else INF, math.sqrt(a[1]) * (1 + 1e-7) if 0 <= a[1] != INF else INF, a[2] or a[0] < 0)
        elif op == 'cast':
            a = rec(n.args[0])
            if X.is_float(n.ty):
                r = (round_down(a[0]), round_up(a[1]), a[2])
            else:
                lo, hi = X.int_range(n.ty)
                r = (max(float(lo), a[0]) if a[0] == a[0] else float(lo), min(float(hi), a[1]), False)
        elif op in ('icast', 'wrap'):
            from .ranges import int_bounds
            lo, hi = int_bounds(n)
            r = (float(lo), float(hi), False)
        elif op == 'select':
            a, b = rec(n.args[1]), rec(n.args[2])
            r = (min(a[0], b[0]), max(a[1], b[1]), a[2] or b[2])
        elif X.is_int(n.ty):
            from .ranges import int_bounds
            lo, hi = int_bounds(n)
            r = (float(lo) if lo is not None else -INF, float(hi) if hi is not None else INF, False)
        else:
            r = TOP
        cache[n.id] = r
        return r
    return rec(e)

def round_down(x):
    if x != x or abs(x) == INF: return x
    return x - abs(x) * 2.0 ** -22 - 1e-300
def round_up(x):
    if x != x or abs(x) == INF: return x
    return x + abs(x) * 2.0 ** -22 + 1e-300
