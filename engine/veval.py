"""Vectorised evaluation of integer / boolean expressions over numpy arrays: used to
compare an *extracted* decision function (path conditions of a constructor) with a
specification predicate exhaustively on a finite domain.  Evaluates the extracted
expressions, never the crate."""
from __future__ import annotations
import numpy as np
from . import expr as X
from .values import Unsupported

def veval(e, env, cache=None):
    if cache is None:
        cache = {}
    def rec(n):
        r = cache.get(n.id)
        if r is not None:
            return r
        op = n.op
        if op == 'const':
            r = np.int64(int(n.val)) if not X.is_bool(n.ty) else np.bool_(n.val)
        elif op == 'sym':
            if n.args[0] not in env:
                raise Unsupported(f"no value for symbol {n.args[0]}")
            r = env[n.args[0]]
        elif op in ('iadd', 'isub', 'imul'):
            a, b = rec(n.args[0]), rec(n.args[1])
            r = a + b if op == 'iadd' else a - b if op == 'isub' else a * b
        elif op == 'irem':
            a, b = rec(n.args[0]), rec(n.args[1])
            r = np.where(b != 0, a % np.where(b == 0, 1, b), 0)
        elif op == 'idiv':
            a, b = rec(n.args[0]), rec(n.args[1])
            r = np.where(b != 0, a // np.where(b == 0, 1, b), 0)
        elif op == 'ishr':
            r = rec(n.args[0]) >> rec(n.args[1])
        elif op == 'ishl':
            r = rec(n.args[0]) << rec(n.args[1])
        elif op == 'iand':
            r = rec(n.args[0]) & rec(n.args[1])
        elif op == 'ior':
            r = rec(n.args[0]) | rec(n.args[1])
        elif op in ('imin', 'imax'):
            r = (np.minimum if op == 'imin' else np.maximum)(rec(n.args[0]), rec(n.args[1]))
        elif op in ('icast',):
            r = rec(n.args[0])
        elif op in ('wrap', 'cast'):
            a = rec(n.args[0])
            if X.is_int(n.ty):
                bits, signed = n.ty[1], n.ty[2]
                if bits >= 63:
                    r = a
                else:
                    r = a & ((1 << bits) - 1)
                    if signed:
                        r = np.where(r >= (1 << (bits - 1)), r - (1 << bits), r)
            else:
                raise Unsupported('float cast in integer evaluation')
        elif op in ('eq', 'ne', 'lt', 'le', 'gt', 'ge'):
            a, b = rec(n.args[0]), rec(n.args[1])
            r = {'eq': a == b, 'ne': a != b, 'lt': a < b, 'le': a <= b, 'gt': a > b, 'ge': a >= b}[op]
        elif op == 'band':
            r = rec(n.args[0]) & rec(n.args[1])
        elif op == 'bor':
            r = rec(n.args[0]) | rec(n.args[1])
        elif op == 'bnot':
            r = ~rec(n.args[0])
        elif op == 'outside':
            a = rec(n.args[0])
            lo, hi = X.int_range(n.args[0].ty)
            r = (a < max(lo, -(1 << 62))) | (a > min(hi, (1 << 62)))
        elif op == 'select':
            r = np.where(rec(n.args[0]), rec(n.args[1]), rec(n.args[2]))
        else:
            raise Unsupported(f"vectorised evaluation of {op}")
        cache[n.id] = r
        return r
    return rec(e)

def veval_pc(pc, env, cache=None):
    cache = {} if cache is None else cache
    out = np.bool_(True)
    for c in pc:
        out = out & veval(c, env, cache)
    return out
