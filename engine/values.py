"""Value model of the MIR abstract interpreter (see DESIGN.md section 2.3)."""
from __future__ import annotations
from . import expr as X
from .expr import E

class Unsupported(Exception):
    """An unmodelled construct was met: every obligation depending on it is UNDECIDED."""

class PathEnd(Exception):
    """Internal: current path terminates (panic / unreachable)."""

class Agg:
    __slots__ = ('kind', 'tid', 'fields')
    def __init__(self, kind, tid, fields):
        self.kind, self.tid, self.fields = kind, tid, tuple(fields)
    def __repr__(self):
        return f"{self.kind}{list(self.fields)!r}"
    def with_field(self, i, v):
        f = list(self.fields); f[i] = v
        return Agg(self.kind, self.tid, f)

class EnumV:
    __slots__ = ('tid', 'variant', 'fields')
    def __init__(self, tid, variant, fields=()):
        self.tid, self.variant, self.fields = tid, variant, tuple(fields)
    def __repr__(self):
        return f"Enum#{self.variant}{list(self.fields)!r}"
    def with_field(self, i, v):
        f = list(self.fields); f[i] = v
        return EnumV(self.tid, self.variant, f)

class Ptr:
    """Thin reference / raw pointer to the place (obj, path)."""
    __slots__ = ('obj', 'path', 'mut', 'flat', 'origin')
    def __init__(self, obj, path=(), mut=False, flat=0, origin=None):
        self.obj, self.path, self.mut, self.flat, self.origin = obj, tuple(path), mut, flat, origin
    def __repr__(self):
        return f"&{'mut ' if self.mut else ''}obj{self.obj}{list(self.path)}" + (f"/flat{self.flat}" if self.flat else '')

class Slice:
    """Fat pointer: elements [start, start+len) of the buffer/array at (obj, path).
    flat=n means the region is a reinterpretation of [[T; n]] as [T] (from_raw_parts)."""
    __slots__ = ('obj', 'path', 'start', 'len', 'mut', 'flat', 'origin')
    def __init__(self, obj, path, start, length, mut=False, flat=0, origin=None):
        self.obj, self.path, self.start, self.len, self.mut, self.flat, self.origin = obj, tuple(path), start, length, mut, flat, origin
    def __repr__(self):
        return f"&[obj{self.obj}{list(self.path)}; {self.start}..+{self.len}]" + (f"/flat{self.flat}" if self.flat else '')

class Opaque:
    """Model-defined value (iterators, Vec handles, external containers)."""
    __slots__ = ('kind', 'f')
    def __init__(self, kind, **f):
        self.kind, self.f = kind, f
    def __repr__(self):
        return f"<{self.kind} {self.f}>"
    def replace(self, **kw):
        d = dict(self.f); d.update(kw)
        return Opaque(self.kind, **d)

class Unknown:
    __slots__ = ('tid', 'why')
    def __init__(self, tid, why=''):
        self.tid, self.why = tid, why
    def __repr__(self):
        return f"?<{self.why}>"

class FnVal:
    __slots__ = ('callee',)
    def __init__(self, callee):
        self.callee = callee
    def __repr__(self):
        return f"fn {self.callee.get('key', self.callee.get('gdef'))}"

class Store:
    __slots__ = ('index', 'value', 'guard', 'qvars', 'flat', 'pc', 'site', 'seq')
    _seq = [0]
    def __init__(self, index, value, guard, qvars, flat, pc, site):
        self.index, self.value, self.guard, self.qvars, self.flat, self.pc, self.site = index, value, tuple(guard), tuple(qvars), flat, pc, site
        Store._seq[0] += 1
        self.seq = Store._seq[0]
    def __repr__(self):
        q = ','.join(f"{s}∈[{lo},{hi})" for s, lo, hi in self.qvars)
        return f"Store[{self.index}]{'/flat%d' % self.flat if self.flat else ''} := {self.value!r} if {list(self.guard)} forall {q}"

class Buf:
    """Dynamically sized buffer (Vec storage, plane data): symbolic length, a uniform
    initial element (None = caller-supplied unknown content) and an ordered list of
    (possibly universally quantified) store summaries."""
    __slots__ = ('elem_tid', 'len', 'init', 'name', 'stores', 'copy')
    def __init__(self, elem_tid, length, init, name, stores=(), copy=False):
        self.elem_tid, self.len, self.init, self.name, self.stores = elem_tid, length, init, name, tuple(stores)
        self.copy = copy           # a separate allocation holding a copy of the named buffer's contents (Vec::clone, to_vec)
    def with_store(self, s):
        return Buf(self.elem_tid, self.len, self.init, self.name, self.stores + (s,), self.copy)
    def copied(self):
        return Buf(self.elem_tid, self.len, self.init, self.name, self.stores, True)
    def __repr__(self):
        return f"Buf<{self.name} len={self.len} stores={len(self.stores)}>"

def map_scalars(v, fn):
    """Apply fn to every scalar leaf (E) of a value tree."""
    if isinstance(v, E):
        return fn(v)
    if isinstance(v, Agg):
        return Agg(v.kind, v.tid, [map_scalars(x, fn) for x in v.fields])
    if isinstance(v, EnumV):
        return EnumV(v.tid, v.variant, [map_scalars(x, fn) for x in v.fields])
    return v

def scalars(v, out=None):
    if out is None:
        out = []
    if isinstance(v, E):
        out.append(v)
    elif isinstance(v, (Agg, EnumV)):
        for x in v.fields:
            scalars(x, out)
    return out
