#!/usr/bin/env python3
"""CLI of the static verification framework:  verif.py check C<nn> --tier quick|thorough"""
import argparse, importlib, os, sys, traceback
sys.path.insert(0, os.path.dirname(os.path.abspath(__file__)))
sys.setrecursionlimit(20000)

def main():
    ap = argparse.ArgumentParser()
    sub = ap.add_subparsers(dest='cmd', required=True)
    c = sub.add_parser('check'); c.add_argument('pid'); c.add_argument('--tier', default=os.environ.get('VERIF_TIER', 'quick'))
    r = sub.add_parser('replay'); r.add_argument('path')
    a = ap.parse_args()
    if a.cmd == 'replay':
        import json
        rep = json.load(open(a.path))
        print(json.dumps(rep, indent=1)[:4000])
        a.pid, a.tier = rep['property'], rep.get('tier', 'quick')
    mod = importlib.import_module('checks.' + a.pid.lower())
    try:
        rc = mod.run(a.tier)
    except Exception as ex:
        # the analysis itself broke on this tree (an input shape it was not written for): not a pass.
        # Reported like an undecided obligation so that the interface contract (exit 1 + VIOLATION line) holds.
        traceback.print_exc()
        import json, re
        out_root = os.environ.get('VERIF_OUT_DIR', os.path.dirname(os.path.abspath(__file__)))
        rep_dir = os.path.join(out_root, 'reports', a.pid)
        os.makedirs(rep_dir, exist_ok=True)
        path = os.path.join(rep_dir, 'internal_error.json')
        with open(path, 'w') as fh:
            json.dump(dict(property=a.pid, key=f"{a.pid}/internal-error", verdict='UNDECIDED', tier=a.tier,
                           text=f"the check could not analyse this tree: {type(ex).__name__}: {ex}", detail=dict(traceback=traceback.format_exc()[-3000:])), fh, indent=1)
        print(f"  undecided (a proof that no longer goes through is not a pass): {a.pid}/internal-error: {type(ex).__name__}: {str(ex)[:200]}")
        print(f"VIOLATION property={a.pid} replay={os.path.relpath(path, out_root)}")
        rc = 1
    sys.exit(rc)

if __name__ == '__main__':
    main()
