#!/usr/bin/env python3
"""CLI of the static verification framework:  verif.py check C<nn> --tier quick|thorough"""
import argparse, importlib, os, sys, traceback
sys.path.insert(0, os.path.dirname(os.path.abspath(__file__)))
sys.setrecursionlimit(20000)

def main():
    ap = argparse.ArgumentParser()
    sub = ap.add_subparsers(dest='cmd', required=True)
    c = sub.add_parser('check'); c.add_argument('pid'); c.add_argument('--tier', default=os.environ.get('VERIF_TIER', 'quick'))
    r = sub.add_parser('replay'); r.add_argument('path')
    a = ap.parse_args()
    if a.cmd == 'replay':
        import json
        rep = json.load(open(a.path))
        print(json.dumps(rep, indent=1)[:4000])
        a.pid, a.tier = rep['property'], rep.get('tier', 'quick')
    mod = importlib.import_module('checks.' + a.pid.lower())
    try:
        rc = mod.run(a.tier)
    except Exception:
        traceback.print_exc()
        print(f"  internal error in check {a.pid}: treated as a failed check")
        rc = 2
    sys.exit(rc)

if __name__ == '__main__':
    main()
