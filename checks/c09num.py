"""C09 - numeric budget of YUV -> XYB -> YUV (building blocks).

The round trip of a decoded pixel x0 (gamma-domain RGB of the configuration) is
    M(x0) = G( Kp( L(x0) ) ),   Kp = P^-1 o O^-1 o O o P   (linear light, through XYB),
L / G the configuration's transfer curve pair, P its primaries transform to BT.709.
 * middle_kernel(): Kp as one expression in the linear-light pixel (kernels extracted from MIR and
   composed by substitution; P and P^-1 are the conversions with the Linear transfer).
 * local_bound(): |Kp(x) - x| on a BOX of linear-light pixels - the C05 argument (the output is a
   cubic polynomial in the three cube-root atoms; c_i^3 = mix_i turns its pure cubes into an exact
   affine defect, everything else is bounded) evaluated with the magnitudes of that box, so that
   the bound shrinks with the pixel (near black the defect is ~1e-9, not the global 1e-5)."""
from __future__ import annotations
import itertools
from fractions import Fraction as Fr
from engine.values import Unsupported
from engine.fbound import Analyzer
from .common import *
from .c09 import vec_kernel, compose, pix_atoms
from .xyb import roundtrip_kernel, strip_clamp0, ULP_CBRT
from engine import realerr
from engine.ival import I

def middle_kernel(ctx, p):
    it, val, _ = roundtrip_kernel(ctx)                                        # LinearRgb -> Xyb -> LinearRgb, atoms linearrgb.data
    kP, _, _ = vec_kernel(ctx, 'Rgb->LinearRgb', 'u16', 'BT709', 'Linear', p)     # x2 = P x1, atoms rgb.data
    kPi, _, _ = vec_kernel(ctx, 'LinearRgb->Rgb', 'u16', 'BT709', 'Linear', p)    # y1 = P^-1 y2, atoms lrgb.data
    mid = compose(val, 'linearrgb.data', kP)
    full = compose(kPi, 'lrgb.data', mid)
    at = pix_atoms(full, 'rgb.data')
    if sorted(at) != [0, 1, 2]:
        raise Unsupported('middle kernel does not read the three components of its pixel')
    return full, [at[0], at[1], at[2]]

def local_bound(val, atoms, box, detail=None, H=None):
    """[bound_0, bound_1, bound_2] (Fractions) with |Kp(x)_k - x_k| <= bound_k for every x in the box
    (box: three (lo, hi) pairs); uses A-cbrt (cbrtf within 1 ulp, decided by C18)"""
    if H is not None and H.cbrt_rel is None:
        raise Unsupported(H.fail.get('cbrtf') or 'cbrtf accuracy not certified')
    rng = {a.id: (Fr(lo), Fr(hi)) for a, (lo, hi) in zip(atoms, box)}
    an = Analyzer(atom_range=lambda n: rng.get(n.id) if X.is_float(n.ty) else None)
    outs = [an.ev(e) for e in val.fields]
    apps = {}
    for a in outs:
        for aid in a.p.atoms():
            info = an.atom_info[aid]
            if info.get('kind') == 'input':
                continue
            if info.get('kind') != 'app' or info.get('name') != 'cbrtf':
                raise Unsupported(f"round-trip kernel atom of kind {info.get('kind')}")
            apps[aid] = info
    if len(apps) != 3:
        raise Unsupported(f"round-trip kernel has {len(apps)} cube roots")
    mix = {}
    for aid, info in apps.items():
        v, clamped = strip_clamp0(info['argnodes'][0])
        a = an.ev(v)
        if a.p.degree() > 1:
            raise Unsupported('opsin mix not affine')
        if a.lo <= 0:
            raise Unsupported('opsin mix may be clamped on this box')
        mix[aid] = dict(coef=[a.p.coef(x.id) for x in atoms], const=a.p.constant(), err=a.err, hi=a.hi)
    ids = sorted(apps)
    corners = list(itertools.product(*[(Fr(lo), Fr(hi)) for lo, hi in box]))
    res = []
    parts = []
    for k in range(3):
        a = outs[k]
        W = {i: a.p.coef(i, i, i) for i in ids}
        residue = Fr(0)
        lin_direct = [Fr(0)] * 3
        cst = a.p.constant()
        for m, c in a.p.t.items():
            if m == () or (len(m) == 3 and m[0] == m[1] == m[2] and m[0] in W):
                continue
            if len(m) == 1 and m[0] in rng:            # (a direct affine dependence on the pixel, if any)
                lin_direct[[x.id for x in atoms].index(m[0])] += c
                continue
            mag = Fr(1)
            for x in m:
                mag *= max(abs(an.atom_info[x]['lo']), abs(an.atom_info[x]['hi']))
            residue += abs(c) * mag
        lin = [sum(W[i] * mix[i]['coef'][j] for i in ids) + lin_direct[j] - (1 if j == k else 0) for j in range(3)]
        c0 = sum(W[i] * mix[i]['const'] for i in ids) + cst
        dmax = max(abs(c0 + sum(l * x for l, x in zip(lin, c))) for c in corners)
        e_cube = sum(abs(W[i]) * (mix[i]['err'] + mix[i]['hi'] * (3 * ULP_CBRT + 4 * ULP_CBRT * ULP_CBRT)) for i in ids)
        apriori = e_cube + a.err
        run = None
        if H is not None:
            # computed - ideal of the same expression by interval running-error analysis (signed, local magnitudes, certified cbrtf):
            # usually half of the a-priori first-order bound
            try:
                env = {x.id: I(float(lo), float(hi)) for x, (lo, hi) in zip(atoms, box)}
                V, E, R = realerr.errprop(val.fields[k], env, H)
                run = Fr(E.mag) * (1 + Fr(1, 10 ** 9))
            except (Unsupported, ZeroDivisionError, OverflowError):
                run = None
        rnd_ = min(apriori, run) if run is not None else apriori
        res.append(dmax + residue + rnd_)
        parts.append(dict(defect=float(dmax), cube=float(e_cube), residue=float(residue), rounding=float(a.err), running=(float(run) if run is not None else None)))
    if detail is not None:
        detail.extend(parts)
    return res

# ------------------------------------------------------------------------------------------------
# the budget in code units, for every (matrix, range) at once

from engine import realerr
from engine.ival import I, evaluate, sup_abs_diff, INF
from .c16 import curve_kernel

def code_rows():
    """[(label, [(scale * row_j)_j for the three planes])] at 8 bit - the tightest depth: the budget
    floor(max(1, 0.015 (2^n - 1))) + 1/2 relative to the code scale is smallest for n = 8 (3.5/219 vs 7.5/438, 15.5/876, ...)"""
    out = []
    for m in STD_MATRICES:
        F = ideal_forward(m)
        for full in (False, True):
            rows = []
            for pl in range(3):
                black, rng = ideal_norm(8, full, pl > 0)
                rows.append([float(F[pl][j] * rng) for j in range(3)])
            D = ideal_inverse(m)
            et = [float(sum(abs(D[j][pl]) / ideal_norm(8, full, pl > 0)[1] for pl in range(3)) / 2) * 1.0001 for j in range(3)]
            # joint constraints on a decoded in-gamut sample x0 = rgb + Dinv * diag(1/norm) * rho, rgb in [0,1]^3, |rho_pl| <= 1/2:
            # for every direction w,  w . x0 <= sum_i max(w_i, 0) + 1/2 sum_pl |sum_j w_j Dinv[j][pl]| / norm_pl
            # (the three components are not perturbed independently: the corner boxes of the widened cube are mostly empty)
            cons = []
            for w in itertools.product((-1, 0, 1), repeat=3):
                if not any(w): continue
                b = sum(max(wi, 0) for wi in w) + sum(abs(sum(w[j] * D[j][pl] for j in range(3))) / ideal_norm(8, full, pl > 0)[1] for pl in range(3)) / 2
                cons.append((w, float(b) * 1.0001 + 2e-6))        # 2e-6: the binary32 rounding of the decoder (C01: 7.7e-7 per component)
            out.append((f"{m}/{'full' if full else 'limited'}", rows, et, cons))
    return out

def eta():
    """decoded in-gamut samples lie in [-eta, 1 + eta]^3: x0 = rgb' + Dinv * rho, |rho_pl| <= 1/2 code (8 bit)"""
    e = Fr(0)
    for m in STD_MATRICES:
        D = ideal_inverse(m)
        for full in (False, True):
            for j in range(3):
                s = sum(abs(D[j][pl]) / ideal_norm(8, full, pl > 0)[1] for pl in range(3)) / 2
                e = max(e, s)
    return float(e) * 1.0001

BUDGET_CODES = 3 + 0.5 - 0.045      # 8 bit: floor(3.825) = 3 codes; the re-encoded value may be 3.5 away before rounding; 0.045: C08's decode/encode bound (0.04 codes pre-rounding) + C02's 1e-6 * 2^n + margin

class Pipeline:
    """M(x0) - x0 for one (transfer, primaries) pair, assembled from one-dimensional facts about the curve pair and the
    three-dimensional local bound of the linear-light round trip:
        x1c = L_c(x0)            = X1 + E_L            X1 = L_i(x0) ideal, E_L from errprop (exact input)
        x~  = Kp_c(x1c)          = x1c + e1            |e1| <= local_bound(box of x1c)
        y0  = G_c(x~)            = G_i(x~) + E_G       |E_G| <= sup over the domain of G's implementation error
        G_i(x~) - G_i(X1)        in  +-omega           modulus of continuity of the ideal G for |x~ - X1| <= |E_L| + |e1|
        G_i(X1) - x0             =  delta_T(x0)        formula-level defect of the pair
    omega = min(range width of G_i on the hull, Lipschitz bound * e + 2 * delta_f); the second form needs G_i to be
    within delta_f of a continuous function (C03's formula-level bound), which caps its jumps at the junctions."""
    def __init__(self, ctx, H, t, p, tier='quick'):
        from . import c03
        self.ctx, self.H, self.t, self.p = ctx, H, t, p
        self.L, self.Lx = curve_kernel(ctx, t, 'to_linear')
        self.G, self.Gx = curve_kernel(ctx, t, 'to_gamma')
        self.mid, self.atoms = middle_kernel(ctx, p)
        self.eta = eta()
        self.rows = code_rows()
        self.cacheL = {}
        self.last = ''
        comp = X.substitute(self.G, {self.Gx.id: self.L})
        self.comp = comp
        key = c03.canon(comp)
        # the curve pair alone, implementation level, on [0, 1 + eta]:  |G_c(L_c(x)) - x| <= RT   (C10's quantity)
        f = lambda iv: evaluate(comp, {self.Lx.id: iv})
        (up_, lo_, arg, n), hit = c03._disk('c09-pair', f"{key}|{self.eta!r}|{c03.spec_hash()}", lambda: sup_abs_diff(f, lambda iv: iv, 0.0, 1.0 + self.eta, 1.5e-4, max_boxes=60000))
        self.delta_T = up_
        e_rt = realerr.sup_error(comp, self.Lx, H, 0.0, 1.0 + self.eta, 2.5e-4, max_boxes=4000)[0]
        self.RT = up_ + e_rt
        # G alone: implementation error with exact input, and distance of the ideal kernel from the continuous defining formula
        xmax = self.lin_max()
        self.E_G = realerr.sup_error(self.G, self.Gx, H, 0.0, xmax, 3e-4, max_boxes=3000)[0]
        spec_ = c03.load_spec()
        g = spec_[t][1]
        fG = lambda iv: evaluate(self.G, {self.Gx.id: iv})
        (upf, lof, argf, nf), hit = c03._disk('c09-gformula', f"{c03.canon(self.G)}|{c03.spec_hash()}|{t}", lambda: sup_abs_diff(fG, g, 0.0, 1.0, 1e-4, max_boxes=60000))
        self.delta_f = upf
        # does the curve do anything but clip for negative samples? (odd curves like xvYCC are as steep at -0 as at +0)
        Vn = evaluate(self.L, {self.Lx.id: I(-self.eta, -1e-6)})
        self.neg_matters = not (Vn.lo == 0.0 and Vn.hi == 0.0)

    def lin_max(self):
        V = evaluate(self.L, {self.Lx.id: I(1.0, 1.0 + self.eta)})
        return V.hi * 1.001 + 1e-3

    def EL(self, lo, hi, depth=0):
        """(V, E, R) of the to_linear kernel on [lo, hi]; wide intervals are evaluated piecewise (the error model of
        powf is local: on a wide box it is dominated by the width, not by the error)"""
        k = (lo, hi)
        r = self.cacheL.get(k)
        if r is None:
            try:
                r = realerr.errprop(self.L, {self.Lx.id: I(lo, hi)}, self.H)
                bad = r[1].mag > max(3e-4, 2e-3 * r[0].mag)
            except (Unsupported, ZeroDivisionError, OverflowError):
                if depth >= 14: raise
                r, bad = None, True
            if bad and depth < 14 and hi - lo > 1e-9:
                m = 0.0 if lo < 0.0 < hi else (lo + hi) / 2
                a, b = self.EL(lo, m, depth + 1), self.EL(m, hi, depth + 1)
                r = (a[0].hull(b[0]), a[1].hull(b[1]), a[2].hull(b[2]))
            self.cacheL[k] = r
        return r

    def omega(self, X1, e):
        """enclosure of G_i(x~) - G_i(X1) for X1 in the box and |x~ - X1| <= e"""
        from engine.ival import evaluate_d
        lo, hi = X1.lo - e, X1.hi + e
        Vg, Dg = evaluate_d(self.G, self.Gx, I(lo, hi))
        G1 = evaluate(self.G, {self.Gx.id: X1})
        lip = Dg.mag
        b2 = lip * e + 2 * self.delta_f if (lip == lip and lip != INF) else INF
        return I(max(-b2, Vg.lo - G1.hi), min(b2, Vg.hi - G1.lo))

    def delta(self, box):
        """M(x0) - x0 = [G_c(x1c + e1) - G_c(x1c)] + [G_c(L_c(x0)) - x0]; the first bracket is within
        omega(x1c, e1) + 2 E_G of zero, the second is the curve pair alone (RT for x0 >= 0, evaluated directly for x0 < 0)"""
        X1 = [self.EL(lo, hi) for lo, hi in box]
        b1 = [(Fr(R.lo), Fr(R.hi)) for (V, E, R) in X1]
        e1 = [float(b) * (1 + 1e-9) for b in local_bound(self.mid, self.atoms, b1, H=self.H)]
        out = []
        for i, (lo, hi) in enumerate(box):
            V, E, R = X1[i]
            if lo < 0.0:
                neg = I(lo, min(hi, 0.0))
                Vc, Ec, Rc = realerr.errprop(self.comp, {self.Lx.id: neg}, self.H)
                dneg = (Vc - neg) + Ec
                dnegT = evaluate(self.comp, {self.Lx.id: neg}) - neg
            # (a) around the computed curve pair: [G_c(x1c + e1) - G_c(x1c)] + [G_c(L_c(x0)) - x0]
            wa = self.omega(R, e1[i])
            dTa = realerr.sym(self.RT) if lo >= 0.0 else (dneg if hi <= 0.0 else dneg.hull(realerr.sym(self.RT)))
            A = dTa + realerr.sym(2 * self.E_G) + wa
            # (b) around the ideal curve pair: [G_i(x~) - G_i(X1)] + E_G + [G_i(L_i(x0)) - x0], |x~ - X1| <= |E_L| + e1
            wb = self.omega(V, E.mag + e1[i])
            dTb = realerr.sym(self.delta_T) if lo >= 0.0 else (dnegT if hi <= 0.0 else dnegT.hull(realerr.sym(self.delta_T)))
            B = dTb + realerr.sym(self.E_G) + wb
            out.append(realerr.meet(A, B))        # both enclose M(x0)_i - x0_i
        return out

    def worst(self, box):
        """max over (matrix, range, plane) of |scale * row . Delta| / budget, and the per-component contributions"""
        try:
            D = self.delta(box)
        except (Unsupported, ZeroDivisionError, OverflowError) as ex:
            self.last = str(ex)
            return INF, [INF, INF, INF]
        w = 0.0
        for label, rows, et, cons in self.rows:
            # decoded in-gamut samples of THIS matrix/range lie in prod_j [-et_j, 1 + et_j]: boxes outside are not its business
            if any(bx_hi < -et[j] or bx_lo > 1 + et[j] for j, (bx_lo, bx_hi) in enumerate(box)):
                continue
            # ... and satisfy the joint constraints: a box on which some w . x exceeds its bound everywhere holds none of them
            if any(sum((box[j][0] if w[j] > 0 else box[j][1]) * w[j] for j in range(3)) > b for w, b in cons):
                continue
            # a component that is negative on the whole box is clipped to 0 by the curve (unless the curve is odd): M_i does not
            # depend on it and Delta_i = M_i - x0_i.  THIS matrix/range has x0_i >= -et_i, so for it sup Delta_i is smaller by the
            # part of the box below -et_i (the enclosures of Delta_i all end in "- x0_i", so their upper end is sup M_i - lo_i)
            Dl = list(D)
            if not self.neg_matters:
                for i, (bx_lo, bx_hi) in enumerate(box):
                    if bx_hi <= 0.0 and bx_lo < -et[i]:
                        hi_ = D[i].hi - ((-et[i]) - bx_lo)
                        Dl[i] = I(min(D[i].lo, hi_), hi_)
            for row in rows:
                acc = I(0.0, 0.0)
                for c, d in zip(row, Dl):
                    acc = acc + I(c, c) * d           # signed: the offsets of clipped negative samples largely cancel in the chroma rows
                w = max(w, acc.mag)
        return w / BUDGET_CODES, [d.mag for d in D]

def budget_bb(pl: Pipeline, max_boxes=3000):
    """branch and bound of Pipeline.worst over [-eta, 1+eta]^3; returns (upper bound of the ratio, boxes, worst box)"""
    import heapq, itertools
    cnt = itertools.count()
    box0 = [(-pl.eta, 1.0 + pl.eta)] * 3
    w0, c0 = pl.worst(box0)
    heap = [(-w0, next(cnt), box0, c0)]
    n = 0
    done = 0.0; wbox = None
    while heap and n < max_boxes:
        nb, _, bx, contrib = heap[0]
        if -nb <= 1.0:
            break
        heapq.heappop(heap); n += 1
        widths = [hi - lo for lo, hi in bx]
        # split the side that is widest relative to where it sits (near zero the curves are steep: geometric refinement)
        score = [widths[i] / (2e-3 + abs(bx[i][0] + bx[i][1]) / 2) * (1.0 if (bx[i][1] > 0 or pl.neg_matters) else 1e-3) for i in range(3)]
        j = max(range(3), key=lambda i: score[i])
        if widths[j] < 1e-9:
            done = max(done, -nb); wbox = bx; continue
        lo, hi = bx[j]
        if lo < 0.0 < hi: m = 0.0
        elif lo == 0.0 and hi > 1e-7: m = hi / 16
        elif hi == 0.0 and lo < -1e-7: m = lo / 16
        else: m = (lo + hi) / 2
        for part in ((lo, m), (m, hi)):
            nbx = list(bx); nbx[j] = part
            w, c = pl.worst(nbx)
            heapq.heappush(heap, (-w, next(cnt), nbx, c))
    top = -heap[0][0] if heap else 0.0
    if heap and top > done: wbox = heap[0][2]
    return max(done, top), n, wbox

# ------------------------------------------------------------------------------------------------
# which (transfer, primaries) pairs are known NOT to close on the reference tree, with the reason (DESIGN.md 8.9)

BT1886_FAMILY = ('BT1886', 'ST170M', 'ST240M', 'BT2020Ten', 'BT2020Twelve')
NOT_CLOSING_P = ('ST170M', 'ST240M')

def not_closing(t, p):
    if t == 'BT470BG':
        return 'gamma 2.8: a worst-case linear-light error of 1e-5 in a near-zero component of a saturated colour (a-priori rounding through the inverse opsin matrix) becomes 0.016 after x^(1/2.8); bound 1.5-1.7 x budget'
    if t == 'XVYCC':
        return 'odd extension: a slightly negative linear component may be perturbed to a positive one, where the curve has infinite slope; the bound closed only marginally (0.9999 x budget after 7700 boxes) on one version of the analyser and not within 9000 boxes on the next: not claimed'
    if t in BT1886_FAMILY and p in NOT_CLOSING_P:
        return 'bound 1.015 x budget: worst-case rounding through the inverse opsin and primaries matrices for a saturated colour with one near-black component and one clipped negative component'
    return None

def _work(args):
    t, p, max_boxes = args
    import time
    t0 = time.time()
    try:
        ctx = Ctx('K1'); H = realerr.Helpers(Ctx('K1', 'yuvxyb_math'))
        pl = Pipeline(ctx, H, t, p)
        r = budget_bb(pl, max_boxes=max_boxes)
        return (t, p, r[0], r[1], str(r[2]), time.time() - t0, pl.last, dict(RT=pl.RT, E_G=pl.E_G, delta_T=pl.delta_T))
    except (Unsupported, ZeroDivisionError, OverflowError, ValueError) as ex:
        return (t, p, float('inf'), 0, '', time.time() - t0, f"{type(ex).__name__}: {ex}"[:300], {})

def numeric_budget(ck, tier, curves, prims):
    """one obligation per (transfer, primaries) pair expected to close: max over matrices / ranges / planes of the
    re-encoded change, in codes at 8 bit, stays below 3.455 for every decoded in-gamut pixel"""
    if tier == 'quick':
        pairs = [('BT1886', 'BT709'), ('SRGB', 'BT2020'), ('HybridLogGamma', 'BT2020'), ('Logarithmic100', 'P3DCI'), ('BT470M', 'BT470M')]
    else:
        pairs = [(t, p) for t in curves if t != 'Linear' for p in prims if p != 'ST428' and not_closing(t, p) is None]
    jobs = [(t, p, 2500 if tier == 'quick' else 9000) for t, p in pairs]
    import multiprocessing as mp
    with mp.Pool(min(8, len(jobs))) as pool:
        results = pool.map(_work, jobs, chunksize=1)
    table = {}
    for (t, p, ratio, n, box, secs, msg, info) in results:
        key = f"C09/budget/{t}/{p}"
        ck.count('budget_pairs')
        ck.count('budget_boxes', n)
        table[f"{t}/{p}"] = dict(ratio=ratio, boxes=n, **info)
        if ratio <= 1.0:
            ck.ob(key, 'PROVED', f"every sample changes by at most 3 codes at 8 bit (pre-rounding change <= {ratio * BUDGET_CODES:.3g} <= {BUDGET_CODES} for all 7 matrices x 2 ranges; deeper depths are looser): {n} boxes over the decoded in-gamut cube")
        else:
            ck.ob(key, 'UNDECIDED', f"bound {ratio:.3f} x budget after {n} boxes, worst box {box}" + (f" ({msg})" if msg else ''))
    ck.note('budget_table', table)
    ck.note('budget_not_decided', {f"{t}/{p}": not_closing(t, p) for t in curves if t != 'Linear' for p in prims if p != 'ST428' and not_closing(t, p)} if tier != 'quick' else 'see thorough tier / DESIGN.md 8.9')
    ck.floor('budget_pairs', len(pairs))
