"""C03 - transfer characteristics follow their defining curves, and the dispatch clauses
(Linear = bit-exact identity, aliases share one kernel).

Each scalar curve function is extracted from MIR as a closed piecewise expression with
yuvxyb_math::{powf, expf} kept as applications.  Two bounds are added:
 (1) formula level: the expression read with the ideal functions against the standard's
     formula on [0,1], by interval branch and bound;
 (2) implementation level: sup over [0,1] of |computed - ideal| by paired interval error
     propagation (engine/realerr.py): binary32 rounding of every operation, libm within 1 ulp,
     and the certified local error of the polynomial powf/expf (engine/approx.py).
(1) + (2) < budget proves the clause for every f32 in [0,1] (DESIGN.md section 8.8)."""
from __future__ import annotations
import importlib.util, os, sys
from engine.check import Check
from engine.values import Unsupported
from engine.ival import I, evaluate, sup_abs_diff
from engine import realerr
from .common import *
from .c14 import STD_CURVES, canon
from .c16 import curve_kernel

def _disk(kind, keystr, compute):
    """memo of a pure computation (a branch-and-bound result is a function of the expression text, the reference
    formula source and the parameters only) under .cache/bb/ - the kernels themselves are re-extracted on every run"""
    import hashlib, json
    root = os.path.join(os.environ.get('VERIF_OUT_DIR', VERIF_DIR), '.cache', 'bb')
    h = hashlib.sha256((kind + '|' + keystr).encode()).hexdigest()[:32]
    path = os.path.join(root, h + '.json')
    if os.environ.get('VERIF_NO_BB_CACHE') != '1' and os.path.exists(path):
        try:
            d = json.load(open(path))
            if d.get('key') == kind + '|' + keystr:
                return tuple(d['value']), True
        except Exception:
            pass
    v = compute()
    try:
        os.makedirs(root, exist_ok=True)
        tmp = path + '.tmp%d' % os.getpid()
        json.dump(dict(key=kind + '|' + keystr, value=list(v)), open(tmp, 'w'))
        os.replace(tmp, path)
    except Exception:
        pass
    return v, False

VERIF_DIR = os.path.dirname(os.path.dirname(os.path.abspath(__file__)))
_SPEC_SRC = [None]
def spec_hash():
    import hashlib
    if _SPEC_SRC[0] is None:
        _SPEC_SRC[0] = hashlib.sha256(open(os.path.join(SPEC, 'transfer_spec.py'), 'rb').read() + open(os.path.join(VERIF_DIR, 'engine', 'ival.py'), 'rb').read()).hexdigest()[:16]
    return _SPEC_SRC[0]

def load_spec():
    p = os.path.join(SPEC, 'transfer_spec.py')
    s = importlib.util.spec_from_file_location('transfer_spec', p)
    m = importlib.util.module_from_spec(s); s.loader.exec_module(m)
    return m.SPEC

ALIASES = ['BT1886', 'ST170M', 'ST240M', 'BT2020Ten', 'BT2020Twelve']

def budget(t, direction):
    return 5.7e-4 if (t == 'PerceptualQuantizer' and direction == 'to_gamma') else 2.5e-4

def analyse(ck, tier, build='K1', prefix='C03', budget_fn=budget, witness=True, clauses=True, not_closing=None):
    """per-curve obligations for one build configuration; returns {curve/direction: dict(formula, implementation, total, budget)}"""
    spec_ = load_spec()
    ctx = Ctx(build)
    kernels = {}
    bb_cache = {}
    err_cache = {}
    budgets = {}
    H = realerr.Helpers(Ctx(build, 'yuvxyb_math'))
    ck.note(f'helper_kind/{build}', dict(H.kind))
    tag = '' if build == 'K1' and prefix == 'C03' else f"/{build}"
    for t in STD_CURVES:
        for di, direction in enumerate(('to_linear', 'to_gamma')):
            base = f"{prefix}/{t}/{direction}{tag}"
            try:
                e, x = curve_kernel(ctx, t, direction)
                kernels[(t, direction)] = (e, x)
                ck.count('curves')
                if t == 'Linear':
                    ck.ob(base + '/identity', 'PROVED' if e is x else 'REFUTED', 'Linear returns its argument unchanged (no arithmetic on the path)' if e is x else f"Linear computes {X.show(e, 4)}")
                    continue
                f = lambda iv, e=e, x=x: evaluate(e, {x.id: iv})
                g = spec_[t][di]
                bud = budget_fn(t, direction)
                # (2) implementation level first: it fixes how much room the formula level has
                ekey = canon(e)
                if ekey not in err_cache:
                    try:
                        err_cache[ekey] = realerr.sup_error(e, x, H, 0.0, 1.0, 0.56 * bud, max_boxes=3000 if tier == 'quick' else 12000)
                    except Unsupported as ex:
                        err_cache[ekey] = (float('inf'), 0, None, str(ex))
                e_up, e_n, e_box, e_msg = err_cache[ekey]
                ck.count('error_boxes', e_n)
                room = bud - e_up
                thr = 0.2 * bud if room <= 0 else (min(0.2 * bud, 0.8 * room) if bud >= 2e-4 else 0.6 * room)
                lo = 0.0
                ckey = (canon(e), id(g), thr)
                if ckey not in bb_cache:
                    mb = (60000 if thr > 4e-5 else 400000) if tier == 'quick' else 1000000
                    # cache key: the kernel text, the reference formula (spec source hash + curve/direction), threshold rounded UP to 2 digits
                    thr_k = float(f"{thr:.2g}") if float(f"{thr:.2g}") <= thr else thr
                    bb_cache[ckey], hit = _disk('formula', f"{canon(e)}|{spec_hash()}|{t}|{di}|{thr_k!r}|{mb}", lambda: sup_abs_diff(f, g, lo, 1.0, thr_k, max_boxes=mb))
                    ck.count('bb_cache_hits', 1 if hit else 0)
                upper, lower, arg, n = bb_cache[ckey]
                ck.count('boxes', n)
                if upper <= thr or upper + e_up < bud:
                    ck.ob(base, 'PROVED', f"sup over [0,1] of |curve - defining formula| <= {upper:.3g} at formula level (search target {thr:.3g})")
                elif lower > 2 * bud:
                    ck.ob(base, 'REFUTED', f"the closed form of {t} {direction} differs from the defining formula by >= {lower:.3g} at x = {arg!r} (budget {bud}); no admissible approximation error can repair that")
                else:
                    ck.ob(base, 'UNDECIDED', f"formula-level deviation between {lower:.3g} and {upper:.3g} (x = {arg!r}); budget {bud}")
                total = upper + e_up
                if total < bud:
                    ck.ob(base + '/budget', 'PROVED', f"|computed - defining formula| <= {upper:.3g} (formula level) + {e_up:.3g} (rounding, libm, certified powf/expf error; {e_n} boxes) = {total:.4g} < {bud} for every x in [0,1]")
                elif not_closing and f"{t}/{direction}" in not_closing:
                    ck.note(f"budget_not_decided/{build}/{t}/{direction}", f"bound {total:.4g} vs budget {bud}: {not_closing[f'{t}/{direction}']}")
                else:
                    ck.ob(base + '/budget', 'UNDECIDED', f"bound {upper:.3g} + {e_up:.3g} = {total:.4g} does not stay below the budget {bud}" + (f" ({e_msg})" if e_msg else '') + (f"; worst box {e_box}" if e_box else ''))
                budgets[f"{t}/{direction}"] = dict(formula=upper, implementation=e_up, total=total, budget=bud)
                ck.sample(dict(curve=t, direction=direction, upper=upper, lower=lower, boxes=n))
                if witness:
                    # counter-example search on the REAL kernel (helper bodies expanded and constant-folded):
                    # can only refute - no accuracy claim is derived from it
                    w = real_witness(ctx, e, x, g, bud, 129 if tier == 'quick' else 1025)
                    if w:
                        ck.ob(base + '/real-kernel-witness', 'REFUTED', f"with the real powf/expf bodies folded, {t} {direction}({w[0]!r}) = {w[1]!r}, the defining formula gives {w[2]!r}: off by {abs(w[1] - w[2]):.3g} > {bud}")
            except Unsupported as ex:
                ck.ob(base, 'UNDECIDED', f"analysis lost: {ex}")
    if clauses:
        # aliases: identical kernels (same callee => bit-identical results)
        for direction in ('to_linear', 'to_gamma'):
            ks = {t: canon(kernels[(t, direction)][0]) for t in ALIASES if (t, direction) in kernels}
            same = len(set(ks.values())) == 1 and len(ks) == len(ALIASES)
            ck.ob(f"{prefix}/aliases/{direction}{tag}", 'PROVED' if same else 'REFUTED',
                  'BT1886, ST170M, ST240M, BT2020Ten, BT2020Twelve have the identical kernel expression' if same else f"aliases of BT.1886 differ: { {t: hash(v) % 1000 for t, v in ks.items()} }")
    ck.note(f'budgets/{build}', budgets)
    return budgets

def libm_build(ck, tier, b1):
    """the same clause for the --no-default-features build (K3): the kernels must be the same expressions as in
    the default build (so the formula-level bound carries over) and the implementation error is recomputed with
    that build's helper bodies (the libm calls, A-libm)"""
    try:
        c1, c3 = Ctx('K1'), Ctx('K3')
        H3 = realerr.Helpers(Ctx('K3', 'yuvxyb_math'))
        ck.note('helper_kind/K3', dict(H3.kind))
        seen = {}
        for t in STD_CURVES:
            for d in ('to_linear', 'to_gamma'):
                if t == 'Linear' or f"{t}/{d}" not in b1: continue
                key = f"C03/{t}/{d}/libm-build"
                e1, x1 = curve_kernel(c1, t, d); e3, x3 = curve_kernel(c3, t, d)
                ck.count('libm_build_kernels')
                if canon(e1) != canon(e3):
                    ck.ob(key, 'UNDECIDED', 'the kernel of the --no-default-features build is a different expression: the formula-level bound of the default build does not carry over (see C20)'); continue
                bud = budget(t, d)
                k = canon(e3)
                if k not in seen:
                    try:
                        seen[k] = realerr.sup_error(e3, x3, H3, 0.0, 1.0, 0.4 * bud, max_boxes=2000)
                    except Unsupported as ex:
                        seen[k] = (float('inf'), 0, None, str(ex))
                e_up, n, box, msg = seen[k]
                total = b1[f"{t}/{d}"]['formula'] + e_up
                ck.ob(key, 'PROVED' if total < bud else 'UNDECIDED',
                      f"--no-default-features build: same kernel expression, implementation error <= {e_up:.3g}: total {total:.4g} < {bud}" if total < bud else
                      f"--no-default-features build: bound {total:.4g} not below {bud}" + (f" ({msg})" if msg else ''))
    except Unsupported as ex:
        ck.ob('C03/libm-build', 'UNDECIDED', f"analysis lost: {ex}")

def run(tier):
    ck = Check('C03', tier, 'proof', 'closed-form extraction of each curve from MIR + interval branch and bound against the standard formula (formula level) + paired interval error propagation with certified powf/expf error (implementation level); match-table rules for Linear and the aliases')
    b1 = analyse(ck, tier, 'K1')
    libm_build(ck, tier, b1)
    ck.floor('curves', 28)
    ck.floor('error_boxes', 100)
    ck.floor('libm_build_kernels', 26)
    ck.assumptions += ['A-libm: f32 ln / log10 of the target libm within 1 ulp; sqrt correctly rounded', 'host libm within 1 ulp (interval evaluation widened by 8 ulps)', 'xvYCC on [0,1] is the BT.1886 pair',
                       'default build (K1: fastmath, no FMA); the FMA and libm builds are covered by C20']
    return ck.finish()

def real_witness(ctx, e, x, g, bud, npts):
    from engine.simplify import fold
    pts = [i / (npts - 1) for i in range(npts)]
    for v in pts:
        v32 = X.fround(X.F32, v)
        r = fold(e, {x.id: X.const(x.ty, v32)}, ctx.crate)
        if not r.is_const:
            return None
        ref = g(I(v32, v32))
        d = max(abs(r.val - ref.lo), abs(r.val - ref.hi)) if r.val == r.val else float('inf')
        lo_d = min(abs(r.val - ref.lo), abs(r.val - ref.hi)) if r.val == r.val else float('inf')
        if lo_d > bud:
            return (v32, r.val, (ref.lo + ref.hi) / 2)
    return None
