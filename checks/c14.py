"""C14 - support and error contract over every metadata combination.

Config-mode abstract interpretation: every conversion entry point is interpreted on MIR
for every fully specified (matrix, primaries, transfer) triple with the pixel data and
the image geometry abstract.  The outcome (Ok / Err(variant) / panic) is then a function
of the triple alone and is compared with the contract: errors name an offending field,
support is symmetric, single-stage pairs agree on the error, the standard sets always
succeed, and YUV<->RGB with a standard matrix is independent of transfer / primaries
(the resolved per-pixel kernels are identical expressions)."""
from __future__ import annotations
import multiprocessing as mp, os, re
from engine.check import Check
from engine.values import Unsupported
from .common import *
from .conv import *

STD_CURVES = ['BT1886', 'ST170M', 'ST240M', 'BT2020Ten', 'BT2020Twelve', 'BT470M', 'BT470BG', 'SRGB', 'XVYCC',
              'Logarithmic100', 'Logarithmic316', 'PerceptualQuantizer', 'HybridLogGamma', 'Linear']
STD_PRIMS = ['BT709', 'BT470M', 'BT470BG', 'ST170M', 'ST240M', 'Film', 'BT2020', 'ST428', 'P3DCI', 'P3Display', 'Tech3213']
FIELD_OF_ERR = {'UnsupportedMatrixCoefficients': 'm', 'UnspecifiedMatrixCoefficients': 'm',
                'UnsupportedColorPrimaries': 'p', 'UnspecifiedColorPrimaries': 'p',
                'UnsupportedTransferCharacteristic': 't', 'UnspecifiedTransferCharacteristic': 't'}
_CTX = {}

def canon(v):
    """Structural fingerprint of a value with fresh-symbol counters renamed."""
    def full(x):
        if isinstance(x, X.E): return X.show(x, depth=80)
        if isinstance(x, (list, tuple)): return '[' + ', '.join(full(y) for y in x) + ']'
        if isinstance(x, (Agg, EnumV)): return type(x).__name__ + '[' + ', '.join(full(y) for y in x.fields) + ']'
        return repr(x)
    s = full(v)
    names = {}
    def ren(mo):
        return names.setdefault(mo.group(0), f"#{len(names)}")
    return re.sub(r'#\d+', ren, s)

def outcome(job):
    conv, T, m, t, p = job
    ctx = _CTX['ctx']
    try:
        it, outs = run_conversion(ctx, conv, T, m, t, p, bd=(8 if T == 'u8' else 10))
    except Unsupported as ex:
        return job, ('Undecided', str(ex)[:300]), None
    pan = []
    for pn in it.rec.panics:
        if pn.get('definite') and not pn.get('pc'):
            pan.append(f"{pn.get('msg')} in {pn.get('fn')}:{pn.get('ln')}")
    if pan and not outs:
        return job, ('Panic', pan[0]), None
    kinds = set()
    kern = None
    for s, v in outs:
        if is_ok(ctx.crate, v):
            kinds.add(('Ok',))
            if conv == 'Yuv->Rgb':
                obj, buf = vec_buf(s, field(ctx.crate, v.fields[0], 'data'))
                k, val, R = element_kernel(it, s, obj)
                kern = canon(val)
            elif conv == 'Rgb->Yuv':
                from engine.resolve import Resolver
                R = Resolver(it, s)
                kern = canon([R.resolve(b.stores[0].value) if len(b.stores) == 1 else None for (_, _, _, b) in yuv_planes(ctx, s, v.fields[0])])
        elif not isinstance(v, EnumV):
            kinds.add(('Ok',))            # an infallible conversion (plain value, not a Result)
        else:
            kinds.add(('Err', err_name(ctx.crate, v)))
    if len(kinds) != 1:
        return job, ('Undecided', f"outcome depends on more than the metadata: {sorted(kinds)}"), None
    return job, kinds.pop(), kern

def run(tier):
    ck = Check('C14', tier, 'proof', 'abstract interpretation of MIR over the finite metadata space (pixel data and geometry abstract), exhaustive')
    ctx = Ctx('K1')
    _CTX['ctx'] = ctx
    MCs = [v for v in ctx.variants(ctx.MC) if v != 'Unspecified']
    CPs = [v for v in ctx.variants(ctx.CP) if v != 'Unspecified']
    TCs = [v for v in ctx.variants(ctx.TC) if v != 'Unspecified']
    ck.note('enum_sizes', [len(MCs), len(CPs), len(TCs)])
    if (len(MCs), len(CPs), len(TCs)) != (14, 13, 18):
        ck.ob('C14/enum-sizes', 'UNDECIDED', f"metadata enums have {len(MCs)}x{len(CPs)}x{len(TCs)} specified values, the property speaks of 14x13x18")
    convs = [c for c in CONVERSIONS if c in {x for pr in PAIRS for x in pr}] if tier == 'quick' else list(CONVERSIONS)     # all ten fallible conversions in the quick tier too (it differs by u16 only and the infallible ones)
    Ts = ['u16'] if tier == 'quick' else ['u16', 'u8']
    jobs = []
    for conv in convs:
        uses_T = '{T}' in CONVERSIONS[conv][0]
        uses_m = 'Yuv' in conv
        for T in (Ts if uses_T else ['u16']):
            for m in (MCs if uses_m else ['BT709']):
                for t in TCs:
                    for p in CPs:
                        jobs.append((conv, T, m, t, p))
    with mp.get_context('fork').Pool(min(16, os.cpu_count() or 4)) as pool:
        results = pool.map(outcome, jobs, chunksize=64)
    table = {}
    kernels = {}
    for job, oc, kern in results:
        table[job] = oc
        if kern is not None:
            kernels[job] = kern
    ck.note('runs', len(jobs))
    ck.count('triples_x_conversions', len(jobs))
    std_m = set(STD_MATRICES); std_t = set(STD_CURVES); std_p = set(STD_PRIMS)
    def val(job, f): return {'m': job[2], 't': job[3], 'p': job[4]}[f]
    def in_std(job, f): return val(job, f) in {'m': std_m, 't': std_t, 'p': std_p}[f]
    # (a) no panic, (b) error names an offending field, (d) standard sets succeed
    bad = {}
    for job, oc in table.items():
        conv, T, m, t, p = job
        key = f"C14/outcome/{conv}/{T}"
        if oc[0] == 'Undecided':
            bad.setdefault((key + '/undecided', 'UNDECIDED'), []).append((job, oc[1]))
        elif oc[0] == 'Panic':
            bad.setdefault((key + '/panic', 'REFUTED'), []).append((job, oc[1]))
        elif oc[0] == 'Err':
            f = FIELD_OF_ERR.get(oc[1])
            uses_m = 'Yuv' in conv
            if f is None or oc[1].startswith('Unspecified'):
                bad.setdefault((key + '/error-kind', 'REFUTED'), []).append((job, f"{oc[1]} for fully specified metadata"))
            elif (in_std(job, f) and not (f == 'p' and uses_m and m not in std_m)) or (f == 'm' and not uses_m):
                # (a primaries error is legitimate for a non-standard matrix whose coefficients
                #  the YUV stage has to derive from the primaries: ST 428 has no chromaticities)
                bad.setdefault((key + '/error-field', 'REFUTED'), []).append((job, f"{oc[1]} although {f}={val(job, f)} is a supported value"))
            if (not uses_m or m in std_m) and t in std_t and p in std_p:
                bad.setdefault((key + '/standard-fails', 'REFUTED'), []).append((job, f"{oc[1]} for a standard configuration"))
    for conv in convs:
        for T in Ts:
            for suffix in ('/undecided', '/panic', '/error-kind', '/error-field', '/standard-fails'):
                key = f"C14/outcome/{conv}/{T}{suffix}"
                hit = [v for (k, verdict), v in bad.items() if k == key]
                if not any(j[0] == conv and j[1] == T for j in table):
                    continue
                if hit:
                    verdict = [vd for (k, vd) in bad if k == key][0]
                    job, why = hit[0][0]
                    ck.ob(key, verdict, f"{len(hit[0])} triples, e.g. matrix={job[2]} transfer={job[3]} primaries={job[4]}: {why}")
                else:
                    ck.ob(key, 'PROVED', 'no such outcome over all triples')
    # (c) symmetry / same error for single-stage pairs
    for fwd, rev in PAIRS:
        if fwd not in convs or rev not in convs:
            continue
        for T in Ts:
            asym, differr = [], []
            n = 0
            for job, oc in table.items():
                if job[0] != fwd or job[1] != T:
                    continue
                rj = (rev, job[1] if '{T}' in CONVERSIONS[rev][0] else 'u16') + job[2:]
                if rj not in table:
                    rj = (rev, 'u16') + job[2:]
                ro = table.get(rj)
                if ro is None:
                    continue
                n += 1
                if (oc[0] == 'Ok') != (ro[0] == 'Ok'):
                    asym.append((job, oc, ro))
                elif oc[0] == 'Err' and oc != ro:
                    single_field = (fwd == 'Yuv->Rgb') or (fwd == 'Rgb->LinearRgb' and ((job[3] in std_t) != (job[4] in std_p)))
                    if single_field:
                        differr.append((job, oc, ro))
            if n == 0:
                continue
            key = f"C14/symmetry/{fwd}/{T}"
            if asym:
                j, a, b = asym[0]
                ck.ob(key, 'REFUTED', f"{len(asym)} triples where {fwd} and {rev} disagree on support, e.g. matrix={j[2]} transfer={j[3]} primaries={j[4]}: {a} vs {b}")
            else:
                ck.ob(key, 'PROVED', f"{n} triples: forward succeeds iff reverse succeeds")
            if fwd in ('Yuv->Rgb', 'Rgb->LinearRgb'):
                key = f"C14/same-error/{fwd}/{T}"
                if differr:
                    j, a, b = differr[0]
                    ck.ob(key, 'REFUTED', f"{len(differr)} triples where the single-stage pair fails with different errors, e.g. matrix={j[2]} transfer={j[3]} primaries={j[4]}: {a} vs {b}")
                else:
                    ck.ob(key, 'PROVED', 'single-stage pair reports the same error')
    # (e) independence from unused metadata
    for conv in ('Yuv->Rgb', 'Rgb->Yuv'):
        if conv not in convs: continue
        for T in Ts:
            for m in STD_MATRICES:
                ks = {(j[3], j[4]): k for j, k in kernels.items() if j[0] == conv and j[1] == T and j[2] == m}
                key = f"C14/independence/{conv}/{T}/{m}"
                oks = [j for j in table if j[0] == conv and j[1] == T and j[2] == m and table[j][0] == 'Ok']
                if len(ks) != len(TCs) * len(CPs) or len(oks) != len(ks):
                    ck.ob(key, 'REFUTED' if len(oks) != len(TCs) * len(CPs) else 'UNDECIDED',
                          f"{conv} with the standard matrix {m} succeeds for {len(oks)} of {len(TCs) * len(CPs)} (transfer, primaries) pairs")
                    continue
                distinct = {}
                for tp, k in ks.items():
                    distinct.setdefault(k, []).append(tp)
                if len(distinct) == 1:
                    ck.ob(key, 'PROVED', f"identical per-pixel kernel for all {len(ks)} (transfer, primaries) pairs")
                else:
                    groups = sorted(distinct.values(), key=len)
                    ck.ob(key, 'REFUTED', f"the per-pixel kernel of {conv} with matrix {m} depends on transfer/primaries: e.g. {groups[0][0]} differs from {groups[-1][0]}")
    ck.floor('triples_x_conversions', 3276 * 6 + 234 * 4 if tier == 'quick' else 3276 * 2 * 5 + 234 * 4)
    ck.sample({str(k): v for k, v in list(table.items())[:6]})
    ck.assumptions += ['outcomes are computed with pixel data and geometry abstract; panics whose condition depends on pixel data or geometry are decided by C13/C07']
    return ck.finish()
