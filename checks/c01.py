"""C01 - YUV->RGB decoding equals the H.273 definition (DESIGN.md section 3, C01).

Static decision: the decode entry point `impl TryFrom<&Yuv<T>> for Rgb` is interpreted on
MIR for every configuration with the pixel data abstract; the store summary of the output
buffer is resolved into a closed per-pixel kernel over the three plane samples; its exact
real polynomial (coefficients are the f32 constants the code computes, bit-exactly) is
compared with the H.273 affine form in rational arithmetic, and every rounding is bounded
a priori.  The bound covers every code triple of the configuration at once."""
from __future__ import annotations
from fractions import Fraction as Fr
from engine.check import Check
from engine.interp import State
from engine.values import Unsupported
from .common import *
from .conv import drop_empty_image_outcomes

BUDGET = Fr(3, 10 ** 6)

def decode_kernel(ctx, T, cfgv):
    it = ctx.interp()
    st = State()
    yptr, _ = ctx.sym_yuv(it, st, T, cfgv)
    key = ctx.entry('<rgb::Rgb as std::convert::TryFrom<&yuv::Yuv<%s>>>::try_from' % T)
    outs = drop_empty_image_outcomes(ctx, it.call_fn(st, key, [yptr]))
    return it, outs

def analyse_component(e, T, bd, full):
    """-> dict(m=[coef per plane], dnorm=[..], err, clamps ok?)"""
    an = Analyzer()
    an.elide_clamp = False
    a = an.ev(e)
    if a.p.degree() > 1:
        raise Unsupported('decode kernel is not affine in the clamped samples')
    m = [Fr(0)] * 3
    dnorm = [None] * 3
    clamp_ok = [None] * 3
    seen = set()
    for aid in a.p.atoms():
        info = an.atom_info[aid]
        if info.get('kind') != 'clamp':
            raise Unsupported(f"decode kernel atom of kind {info.get('kind')}")
        arg = info['arg']
        ats = list(arg.p.atoms())
        if len(ats) != 1 or arg.p.degree() != 1:
            raise Unsupported('normalisation is not affine in one sample')
        node = an.atom_info[ats[0]]['node']
        j = plane_of(node)
        if j is None or j in seen:
            raise Unsupported('kernel input is not one sample of each plane')
        seen.add(j)
        m[j] = a.p.coef(aid)
        chroma = j > 0
        black, rng = ideal_norm(bd, full, chroma)
        s, o = arg.p.coef(ats[0]), arg.p.constant()
        smax = sample_max(T, bd)
        d0 = abs(o + black / rng)
        d1 = abs((s - 1 / rng) * smax + o + black / rng)
        dnorm[j] = max(d0, d1) + arg.err
        lo, hi = (Fr(x) for x in H273['clamp']['chroma' if chroma else 'luma'])
        clamp_ok[j] = (info['clo'] == lo and info['chi'] == hi)
    if a.p.constant() != 0:
        raise Unsupported('decode kernel has a constant term')
    return dict(m=m, dnorm=dnorm, err=a.err, clamp_ok=clamp_ok, planes=seen)

def run(tier):
    ck = Check('C01', tier, 'proof', 'abstract interpretation of MIR (finite-configuration constant propagation + affine forms with a-priori rounding bounds)')
    builds = ('K1',) if tier == 'quick' else ('K1', 'K2')
    analyse(ck, tier, builds)
    return ck.finish()

def analyse(ck, tier, builds, prefix=''):
    ctxs = {b: Ctx(b) for b in builds}
    worst = Fr(0)
    for b, m, full, bd, T in configs(tier, builds):
        ctx = ctxs[b]
        base = f"C01/decode/{m}/{'full' if full else 'limited'}/{bd}/{T}/{b}"
        set_plane_ranges(T, bd)
        try:
            it, outs = decode_kernel(ctx, T, ctx.yuv_config(m=m, bd=bd, full=full))
            if len(outs) != 1 or not is_ok(ctx.crate, outs[0][1]):
                ck.ob(base, 'REFUTED', 'decoding a standard-matrix image does not return exactly one Ok outcome' + describe_panics(it), outcomes=[repr(v) for _, v in outs])
                continue
            st, res = outs[0]
            rgb = res.fields[0]
            obj, buf = vec_buf(st, field(ctx.crate, rgb, 'data'))
            k, val, R = element_kernel(it, st, obj)
            ck.count('kernels_interpreted')
            Minv = ideal_inverse(m)
            xmax = [Fr(1), Fr(1, 2), Fr(1, 2)]
            for c in range(3):
                key = f"{base}/comp{c}"
                r = analyse_component(val.fields[c], T, bd, full)
                if r['planes'] != {0, 1, 2} and not all(r['m'][j] == 0 for j in {0, 1, 2} - r['planes']):
                    pass
                if not all(x is not False for x in r['clamp_ok']):
                    ck.ob(key, 'REFUTED', f"normalised samples are clamped to a range other than H.273's ([0,1] luma, [-1/2,1/2] chroma): {r['clamp_ok']}")
                    continue
                dn = [d if d is not None else Fr(0) for d in r['dnorm']]
                coefdev = [abs(r['m'][j] - Minv[c][j]) for j in range(3)]
                B = sum(coefdev[j] * xmax[j] for j in range(3)) + sum(abs(r['m'][j]) * dn[j] for j in range(3)) + r['err']
                # lower bound: the corner of the clamped-sample box maximising the coefficient deviation
                L = sum(coefdev[j] * xmax[j] for j in (1, 2)) + coefdev[0] * 1 - (sum(abs(r['m'][j]) * dn[j] for j in range(3)) + r['err'])
                # a corner where all deviations add up need not exist with equal signs for luma (X0 in [0,1]); use max single term
                L = max(coefdev[j] * xmax[j] for j in range(3)) - (sum(abs(r['m'][j]) * dn[j] for j in range(3)) + r['err'])
                worst = max(worst, B)
                if B <= BUDGET:
                    ck.ob(key, 'PROVED', f"bound {float(B):.3e} <= 3e-6")
                elif L > BUDGET:
                    j = max(range(3), key=lambda j: coefdev[j] * xmax[j])
                    ck.ob(key, 'REFUTED', f"coefficient of plane {j} in output component {c} is {float(r['m'][j]):.9g}, H.273 gives {float(Minv[c][j]):.9g}: "
                          f"error >= {float(L):.3e} > 3e-6 at the nominal extreme code of that plane", coef=[float(x) for x in r['m']], ideal=[float(x) for x in Minv[c]])
                else:
                    ck.ob(key, 'UNDECIDED', f"computed bound {float(B):.3e} exceeds 3e-6 but no definite counter-example", coef=[float(x) for x in r['m']])
                if c == 0 and bd in (8, 10) and T == 'u16':
                    ck.sample(dict(config=base, component=c, coef=[float(x) for x in r['m']], ideal=[float(x) for x in Minv[c]], norm_dev=[float(x) for x in dn], bound=float(B)))
        except Unsupported as ex:
            ck.ob(base, 'UNDECIDED', f"analysis lost: {ex}")
    ck.note('worst_bound', float(worst))
    ck.floor('kernels_interpreted', 7 * 2 * 10 * len(builds))
    ck.assumptions += ['visible u16 samples of an accepted Yuv are <= 2^n-1 (constructor check, C12)',
                       'A-geom: dimensions, strides and buffer lengths below 2^28']
    return None
