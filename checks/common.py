"""Pieces shared by the numeric YUV<->RGB checks (C01, C02, C08, C16)."""
from __future__ import annotations
from fractions import Fraction as Fr
from engine import expr as X
from engine.harness import *
from engine.fbound import Analyzer, Poly, AbsF, fr

H273 = spec('h273')
STD_MATRICES = H273['standard_matrices']

def ideal_forward(m):
    """Exact RGB->YUV matrix (rows Y, U=Cb/Cg, V=Cr/Co) from H.273."""
    if m == 'YCgCo':
        return [[Fr(x) for x in row] for row in H273['ycgco_forward']]
    kr, kb = (Fr(x) for x in H273['kr_kb'][m])
    kg = 1 - kr - kb
    return [[kr, kg, kb],
            [-kr / (2 * (1 - kb)), -kg / (2 * (1 - kb)), Fr(1, 2)],
            [Fr(1, 2), -kg / (2 * (1 - kr)), -kb / (2 * (1 - kr))]]

def ideal_inverse(m):
    """Exact YUV->RGB matrix (columns Y, U, V) from H.273: R=Y+2(1-Kr)Cr, B=Y+2(1-Kb)Cb,
    G=(Y-Kr R-Kb B)/Kg; YCgCo: R=Y-Cg+Co, G=Y+Cg, B=Y-Cg-Co."""
    if m == 'YCgCo':
        return [[Fr(1), Fr(-1), Fr(1)], [Fr(1), Fr(1), Fr(0)], [Fr(1), Fr(-1), Fr(-1)]]
    kr, kb = (Fr(x) for x in H273['kr_kb'][m])
    kg = 1 - kr - kb
    return [[Fr(1), Fr(0), 2 * (1 - kr)],
            [Fr(1), -2 * kb * (1 - kb) / kg, -2 * kr * (1 - kr) / kg],
            [Fr(1), 2 * (1 - kb), Fr(0)]]

def ideal_norm(bd, full, chroma):
    """(black, range): normalised = (code - black) / range"""
    k = 1 << (bd - 8)
    if full:
        return (Fr(1 << (bd - 1)) if chroma else Fr(0)), Fr((1 << bd) - 1)
    r = H273['range']['limited']
    return (Fr(r['chroma_zero'] * k) if chroma else Fr(r['luma_black'] * k)), Fr((r['chroma_scale'] if chroma else r['luma_scale']) * k)

def sample_max(T, bd):
    return 255 if T == 'u8' else (1 << bd) - 1

def set_plane_ranges(T, bd, name='yuv'):
    """Visible samples of an accepted Yuv are <= 2^n-1 (u16 storage: the constructor's
    range check, decided by C12; u8: by type)."""
    for j in range(3):
        X.SYM_INFO[('load', f'{name}.data.planes[{j}].data.data')] = dict(lo=0, hi=sample_max(T, bd))

def plane_of(node):
    """Plane index of an input-sample load atom."""
    if node.op == 'load':
        nm = node.args[5]
        for j in range(3):
            if nm.endswith(f'planes[{j}].data.data'):
                return j
    return None

def configs(tier, builds=('K1',)):
    depths = tuple(range(8, 17))         # every depth in both tiers: a depth is a concrete configuration value, a change that bites at 12 or 14 bit only must not wait for the thorough tier
    for b in builds:
        for m in STD_MATRICES:
            for full in (False, True):
                for bd in depths:
                    yield b, m, full, bd, 'u16'
                yield b, m, full, 8, 'u8'

def describe_panics(it, only_definite=True):
    out = []
    for p in it.rec.panics:
        if only_definite and not p.get('definite'):
            continue
        s = f"{p.get('msg')} in {p.get('fn')} (line {p.get('ln')})"
        if s not in out:
            out.append(s)
    return ('; definite panic: ' + '; '.join(out[:4])) if out else ''

def sym_rgb(ctx, it, st, name='rgb', transfer='BT1886', primaries='BT709'):
    rgb_t = find_type(ctx.crate, 'rgb::Rgb')
    w = X.sym(X.USIZE, f'{name}.width', 0, GEOM_MAX)
    h = X.sym(X.USIZE, f'{name}.height', 0, GEOM_MAX)
    vec, w, h = ctx.sym_pixels(it, st, f'{name}.data', w, h)
    rgb = symbolic(it, st, rgb_t, name, overrides={f'{name}.data': vec,
                   f'{name}.transfer': mk_enum(ctx.crate, ctx.TC, transfer),
                   f'{name}.primaries': mk_enum(ctx.crate, ctx.CP, primaries)})
    return rgb, w, h

def encode(ctx, T, cfgv, name='rgb'):
    """Interpret impl TryFrom<(&Rgb, YuvConfig)> for Yuv<T>; returns (it, outs, rgb, w, h)."""
    it = ctx.interp()
    st = State()
    rgb, w, h = sym_rgb(ctx, it, st, name)
    ptr = Ptr(st.alloc(rgb), ())
    tup = find_type(ctx.crate, '(&rgb::Rgb, yuv::YuvConfig)')
    key = ctx.entry('<yuv::Yuv<%s> as std::convert::TryFrom<(&rgb::Rgb, yuv::YuvConfig)>>::try_from' % T)
    from .conv import drop_empty_image_outcomes
    outs = drop_empty_image_outcomes(ctx, it.call_fn(st, key, [Agg('tuple', tup, [ptr, cfgv])]))
    return it, outs, rgb, w, h

def yuv_planes(ctx, st, yuv):
    """[(plane value, cfg dict name->value, buffer obj, Buf)] of a Yuv value."""
    c = ctx.crate
    frame = field(c, yuv, 'data')
    planes = field(c, frame, 'planes')
    out = []
    for p in planes.fields:
        pd = field(c, p, 'data')
        ab = field(c, pd, 'data')
        cfg = field(c, p, 'cfg')
        names = [f['name'] for f in c.types[cfg.tid]['variants'][0]['fields']]
        out.append((p, dict(zip(names, cfg.fields)), ab.f['buf'], st.heap[ab.f['buf']]))
    return out

def pixel_component(node):
    """(buffer name, component) of a load of an f32 pixel component."""
    if node.op == 'load' and len(node.args[4]) == 1:
        return node.args[5], node.args[4][0]
    return None
from engine.interp import State
