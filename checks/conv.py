"""The conversion entry points of the public API (found by type), with builders for
their symbolic inputs.  Shared by C09, C11, C13, C14, C15."""
from __future__ import annotations
from engine import expr as X
from engine.harness import *
from engine.interp import State

def sym_image(ctx, it, st, tyname, name):
    """Symbolic LinearRgb / Xyb / Hsl (data Vec + width + height)."""
    tid = find_type(ctx.crate, tyname)
    w = X.sym(X.USIZE, f'{name}.width', 0, GEOM_MAX)
    h = X.sym(X.USIZE, f'{name}.height', 0, GEOM_MAX)
    vec, w, h = ctx.sym_pixels(it, st, f'{name}.data', w, h)
    return symbolic(it, st, tid, name, overrides={f'{name}.data': vec}), w, h

def sym_rgb(ctx, it, st, name='rgb', transfer='BT1886', primaries='BT709'):
    rgb_t = find_type(ctx.crate, 'rgb::Rgb')
    w = X.sym(X.USIZE, f'{name}.width', 0, GEOM_MAX)
    h = X.sym(X.USIZE, f'{name}.height', 0, GEOM_MAX)
    vec, w, h = ctx.sym_pixels(it, st, f'{name}.data', w, h)
    rgb = symbolic(it, st, rgb_t, name, overrides={f'{name}.data': vec,
                   f'{name}.transfer': mk_enum(ctx.crate, ctx.TC, transfer),
                   f'{name}.primaries': mk_enum(ctx.crate, ctx.CP, primaries)})
    return rgb, w, h

# name -> (key pattern, builder(ctx, it, st, T, m, t, p, cfgkw) -> args, kind)
def _yuv_in(ctx, it, st, T, m, t, p, kw):
    ptr, y = ctx.sym_yuv(it, st, T, ctx.yuv_config(m=m, t=t, p=p, **kw))
    return [ptr]
def _rgb_in(ctx, it, st, T, m, t, p, kw):
    rgb, w, h = sym_rgb(ctx, it, st, 'rgb', t, p)
    return [rgb]
def _rgbref_cfg(ctx, it, st, T, m, t, p, kw):
    rgb, w, h = sym_rgb(ctx, it, st, 'rgb', t, p)
    tup = find_type(ctx.crate, '(&rgb::Rgb, yuv::YuvConfig)')
    return [Agg('tuple', tup, [Ptr(st.alloc(rgb), ()), ctx.yuv_config(m=m, t=t, p=p, **kw)])]
def _img_tp(tyname, short):
    def b(ctx, it, st, T, m, t, p, kw):
        img, w, h = sym_image(ctx, it, st, tyname, short)
        tup = find_type(ctx.crate, f'({tyname}, av_data::pixel::TransferCharacteristic, av_data::pixel::ColorPrimaries)')
        return [Agg('tuple', tup, [img, mk_enum(ctx.crate, ctx.TC, t), mk_enum(ctx.crate, ctx.CP, p)])]
    return b
def _img_cfg(tyname, short):
    def b(ctx, it, st, T, m, t, p, kw):
        img, w, h = sym_image(ctx, it, st, tyname, short)
        tup = find_type(ctx.crate, f'({tyname}, yuv::YuvConfig)')
        return [Agg('tuple', tup, [img, ctx.yuv_config(m=m, t=t, p=p, **kw)])]
    return b

CONVERSIONS = {
    'Yuv->Rgb':       ('<rgb::Rgb as std::convert::TryFrom<&yuv::Yuv<{T}>>>::try_from', _yuv_in),
    'Rgb->LinearRgb': ('<linear_rgb::LinearRgb as std::convert::TryFrom<rgb::Rgb>>::try_from', _rgb_in),
    'Yuv->LinearRgb': ('<linear_rgb::LinearRgb as std::convert::TryFrom<&yuv::Yuv<{T}>>>::try_from', _yuv_in),
    'Yuv->Xyb':       ('<xyb::Xyb as std::convert::TryFrom<&yuv::Yuv<{T}>>>::try_from', _yuv_in),
    'Rgb->Xyb':       ('<xyb::Xyb as std::convert::TryFrom<rgb::Rgb>>::try_from', _rgb_in),
    'Rgb->Yuv':       ('<yuv::Yuv<{T}> as std::convert::TryFrom<(&rgb::Rgb, yuv::YuvConfig)>>::try_from', _rgbref_cfg),
    'LinearRgb->Rgb': ('<rgb::Rgb as std::convert::TryFrom<(linear_rgb::LinearRgb, av_data::pixel::TransferCharacteristic, av_data::pixel::ColorPrimaries)>>::try_from', _img_tp('linear_rgb::LinearRgb', 'lrgb')),
    'LinearRgb->Yuv': ('<yuv::Yuv<{T}> as std::convert::TryFrom<(linear_rgb::LinearRgb, yuv::YuvConfig)>>::try_from', _img_cfg('linear_rgb::LinearRgb', 'lrgb')),
    'Xyb->Yuv':       ('<yuv::Yuv<{T}> as std::convert::TryFrom<(xyb::Xyb, yuv::YuvConfig)>>::try_from', _img_cfg('xyb::Xyb', 'xyb')),
    'Xyb->Rgb':       ('<rgb::Rgb as std::convert::TryFrom<(xyb::Xyb, av_data::pixel::TransferCharacteristic, av_data::pixel::ColorPrimaries)>>::try_from', _img_tp('xyb::Xyb', 'xyb')),
}
PAIRS = [('Yuv->Rgb', 'Rgb->Yuv'), ('Rgb->LinearRgb', 'LinearRgb->Rgb'), ('Yuv->LinearRgb', 'LinearRgb->Yuv'),
         ('Yuv->Xyb', 'Xyb->Yuv'), ('Rgb->Xyb', 'Xyb->Rgb')]

def run_conversion(ctx, name, T, m, t, p, **kw):
    """Interpret one conversion; returns (it, state0, outs)."""
    pat, builder = CONVERSIONS[name]
    it = ctx.interp()
    st = State()
    args = builder(ctx, it, st, T, m, t, p, kw)
    key = ctx.entry(pat.format(T=T))
    outs = it.call_fn(st, key, args)
    return it, drop_empty_image_outcomes(ctx, outs)

def drop_empty_image_outcomes(ctx, outs):
    """Ok outcomes reached only for an image without pixels (path condition contains width == 0 or height == 0 of the
    input) say nothing about any pixel: an early `if w == 0 { return .. }` must not make the per-pixel rules see 'two
    successful outcomes'.  They are dropped when another successful outcome exists."""
    def dims_product(a):
        # a width / height symbol of the input, or a product of such (w * h == 0 means a factor is zero)
        if a.op == 'sym': return isinstance(a.args[0], str) and a.args[0].endswith(('.width', '.height'))
        if a.op == 'imul': return all(isinstance(z, X.E) and dims_product(z) for z in a.args)
        return False
    def empty(s):
        for c in s.pc:
            if c.op == 'eq':
                for a, b in ((c.args[0], c.args[1]), (c.args[1], c.args[0])):
                    if b.is_const and b.val == 0 and dims_product(a):
                        return True
        return False
    ok = lambda v: (not isinstance(v, EnumV)) or is_ok(ctx.crate, v)
    good = [(s, v) for s, v in outs if ok(v) and not empty(s)]
    if not good:
        return outs
    return [(s, v) for s, v in outs if not (ok(v) and empty(s))]

# ---------------------------------------------------------------------------------
# Inputs obtained through the public constructors: only what a constructor's Ok path
# establishes (its path condition) may be assumed about a caller-supplied image.
def constructed_yuv(ctx, it, st, T, cfgv, name='yuv'):
    """Run Yuv::<T>::new on a fully symbolic frame; returns [(state, yuv value)] for Ok paths."""
    tid = find_type(ctx.crate, f'v_frame::frame::Frame<{T}>')
    frame = symbolic(it, st, tid, f'{name}.data')
    outs = it.call_fn(st, ctx.entry(f'yuv::Yuv::<{T}>::new'), [frame, cfgv])
    return [(s, v.fields[0]) for s, v in outs if is_ok(ctx.crate, v)]

def constructed_image(ctx, it, st, kind, name, t='BT1886', p='BT709'):
    """Rgb / LinearRgb / Xyb / Hsl through its `new`."""
    mod = {'Rgb': 'rgb', 'LinearRgb': 'linear_rgb', 'Xyb': 'xyb', 'Hsl': 'hsl'}[kind]
    n = X.sym(X.USIZE, f'{name}.data.len', 0, GEOM_MAX)
    elem = find_type(ctx.crate, '[f32; 3]')
    o = st.alloc(Buf(elem, n, None, f'{name}.data'))
    w = X.sym(X.USIZE, f'{name}.width', 0, GEOM_MAX); h = X.sym(X.USIZE, f'{name}.height', 0, GEOM_MAX)
    args = [Opaque('vec', buf=o), w, h]
    if kind == 'Rgb':
        args += [mk_enum(ctx.crate, ctx.TC, t), mk_enum(ctx.crate, ctx.CP, p)]
    outs = it.call_fn(st, ctx.entry(f'{mod}::{kind}::new'), args)
    res = []
    for s, v in outs:
        if not is_ok(ctx.crate, v):
            continue
        # the Ok path establishes len == <expr>: use the expression as the buffer length
        for cnd in s.pc:
            if cnd.op == 'eq' and (cnd.args[0] is n or cnd.args[1] is n):
                other = cnd.args[1] if cnd.args[0] is n else cnd.args[0]
                b = s.heap[o]
                s.heap[o] = Buf(b.elem_tid, other, b.init, b.name, b.stores)
        res.append((s, v.fields[0]))
    return res

VALIDATED = {
    'Yuv->Rgb': ('yuv', None), 'Yuv->LinearRgb': ('yuv', None), 'Yuv->Xyb': ('yuv', None),
    'Rgb->LinearRgb': ('Rgb', 'value'), 'Rgb->Xyb': ('Rgb', 'value'), 'Rgb->Yuv': ('Rgb', 'ref_cfg'),
    'LinearRgb->Rgb': ('LinearRgb', 'tp'), 'LinearRgb->Yuv': ('LinearRgb', 'cfg'),
    'Xyb->Yuv': ('Xyb', 'cfg'), 'Xyb->Rgb': ('Xyb', 'tp'),
    'LinearRgb->Xyb': ('LinearRgb', 'value'), 'Xyb->LinearRgb': ('Xyb', 'value'),
    'LinearRgb->Hsl': ('LinearRgb', 'value'), 'Hsl->LinearRgb': ('Hsl', 'value'),
}
def _img_value(tyname, short):
    def b(ctx, it, st, T, m, t, p, kw):
        img, w, h = sym_image(ctx, it, st, tyname, short)
        return [img]
    return b
CONVERSIONS.update({
    'LinearRgb->Xyb': ('<xyb::Xyb as std::convert::From<linear_rgb::LinearRgb>>::from', _img_value('linear_rgb::LinearRgb', 'lrgb')),
    'Xyb->LinearRgb': ('<linear_rgb::LinearRgb as std::convert::From<xyb::Xyb>>::from', _img_value('xyb::Xyb', 'xyb')),
    'LinearRgb->Hsl': ('<hsl::Hsl as std::convert::From<linear_rgb::LinearRgb>>::from', _img_value('linear_rgb::LinearRgb', 'lrgb')),
    'Hsl->LinearRgb': ('<linear_rgb::LinearRgb as std::convert::From<hsl::Hsl>>::from', _img_value('hsl::Hsl', 'hsl')),
})
TYNAME = {'Rgb': 'rgb::Rgb', 'LinearRgb': 'linear_rgb::LinearRgb', 'Xyb': 'xyb::Xyb', 'Hsl': 'hsl::Hsl'}

def run_validated(ctx, name, T, m, t, p, **kw):
    """Interpret a conversion on inputs produced by the public constructors.
    Returns (it, n_ob0, [(outs of one constructor path)])"""
    it = ctx.interp()
    st = State()
    src, how = VALIDATED[name]
    cfgv = ctx.yuv_config(m=m, t=t, p=p, **kw)
    if src == 'yuv':
        ys = constructed_yuv(ctx, it, st, T, cfgv)
        it.input_yuv = ys[0][1] if ys else None
        inputs = [(s, [Ptr(s.alloc(y), ())]) for s, y in ys]
    else:
        imgs = constructed_image(ctx, it, st, src, src.lower(), t, p)
        inputs = []
        for s, img in imgs:
            if how == 'value':
                args = [img]
            elif how == 'ref_cfg':
                tup = find_type(ctx.crate, '(&rgb::Rgb, yuv::YuvConfig)')
                args = [Agg('tuple', tup, [Ptr(s.alloc(img), ()), cfgv])]
            elif how == 'tp':
                tup = find_type(ctx.crate, f'({TYNAME[src]}, av_data::pixel::TransferCharacteristic, av_data::pixel::ColorPrimaries)')
                args = [Agg('tuple', tup, [img, mk_enum(ctx.crate, ctx.TC, t), mk_enum(ctx.crate, ctx.CP, p)])]
            else:
                tup = find_type(ctx.crate, f'({TYNAME[src]}, yuv::YuvConfig)')
                args = [Agg('tuple', tup, [img, cfgv])]
            inputs.append((s, args))
    marks = (len(it.rec.obligations), len(it.rec.panics), len(it.rec.unsafe_ops), len(it.rec.events))
    key = ctx.entry(CONVERSIONS[name][0].format(T=T))
    results = []
    for s, args in inputs:
        results.append(drop_empty_image_outcomes(ctx, it.call_fn(s, key, args)))
    return it, marks, results
