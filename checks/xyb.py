from engine.check import Check
def xyb_grey(ck, tier): pass
def hsl_grey(ck, tier): pass
