"""XYB analyses shared by C04, C05 and C16 (and the HSL grey clause of C16).

The kernels are extracted from MIR with `yuvxyb_math::cbrtf` kept as an application node;
in the error analysis an application is an atom c = cbrtf(m) whose argument's exact real
polynomial (the opsin mix) and rounding bound are known.  Assumption A-cbrt (cbrtf within
1 ulp on normal arguments - C18's accuracy clause, not decided statically) converts a
bound on the mix into a bound on the cube root; everything else is exact rational
arithmetic on the constants the code computes."""
from __future__ import annotations
from fractions import Fraction as Fr
import math
from engine.values import Unsupported
from engine.resolve import Resolver
from engine.simplify import fold, simplify_finite
from engine import frange as FR
from engine.apps import app_name
from .common import *
from .conv import *

OPSIN = spec('opsin')
A_IDEAL = [[Fr(x) for x in row] for row in OPSIN['matrix']]
B_IDEAL = Fr(OPSIN['bias'])
U32 = Fr(1, 2 ** 24)
ULP_CBRT = Fr(1, 2 ** 23)        # A-cbrt: |cbrtf(x) - cbrt(x)| <= 1 ulp <= 2^-23 * cbrt(x)

_CBRT_OK = {}
def require_cbrt(build):
    """A-cbrt is not assumed: the 1-ulp accuracy of cbrtf is re-established from the MIR body of the build under
    analysis (engine/approx.py, the argument of C18); if that fails every obligation resting on it is undecided"""
    if build not in _CBRT_OK:
        from engine import realerr
        H = realerr.Helpers(Ctx(build, 'yuvxyb_math'))
        _CBRT_OK[build] = (H.cbrt_rel is not None and H.cbrt_rel <= 2.0 ** -23, H.fail.get('cbrtf') or 'cbrtf accuracy not certified')
    ok, why = _CBRT_OK[build]
    if not ok:
        raise Unsupported(f"the cube root helper is not certified to 1 ulp in build {build}: {why}")


def cbrt_hi(x):      # upper bound of the real cube root of a non-negative rational
    return Fr(float(x) ** (1.0 / 3.0)) * (1 + Fr(1, 10 ** 9)) + Fr(1, 10 ** 30)
def cbrt_lo(x):
    return max(Fr(0), Fr(float(x) ** (1.0 / 3.0)) * (1 - Fr(1, 10 ** 9)))

def forward_kernel(ctx):
    it, marks, results = run_validated(ctx, 'LinearRgb->Xyb', 'u16', 'BT709', 'BT1886', 'BT709', bd=10)
    s, v = results[0][0]
    c = ctx.crate
    dims_ok = field(c, v, 'width') is X.sym(X.USIZE, 'linearrgb.width') and field(c, v, 'height') is X.sym(X.USIZE, 'linearrgb.height')
    obj, buf = vec_buf(s, field(c, v, 'data'))
    k, val, R = element_kernel(it, s, obj)
    return it, val, dims_ok

def pixel_atoms(val, prefix):
    out = {}
    for e in scalars(val):
        for n in X.walk(e):
            if n.op == 'load' and X.is_float(n.ty) and n.args[5].startswith(prefix):
                out[n.args[4][0]] = n
    return out

def strip_clamp0(e):
    """select(lt(v, 0), 0, v) -> v   (the clamp at zero in front of the cube root)"""
    if e.op == 'select':
        c, a, b = e.args
        if c.op == 'lt' and c.args[0] is b and c.args[1].is_const and c.args[1].val == 0.0 and a.is_const and a.val == 0.0:
            return b, True
    return e, False

class Forward:
    """structure of the forward kernel: out_k = sum_i w_ki * c_i + const_k, c_i = cbrtf(clamp0(m_i))"""
    def __init__(self, ctx, lo=Fr(0), hi=Fr(4)):
        self.ctx = ctx
        self.it, self.val, self.dims_ok = forward_kernel(ctx)
        self.rgb = pixel_atoms(self.val, 'linearrgb.data')
        if sorted(self.rgb) != [0, 1, 2]:
            raise Unsupported('forward XYB kernel does not read the three components of its pixel')
        rng = lambda n: (lo, hi) if X.is_float(n.ty) else None
        self.an = Analyzer(atom_range=rng)
        self.out = [self.an.ev(e) for e in self.val.fields]
        apps = {}
        for a in self.out:
            if a.p.degree() > 1:
                raise Unsupported('forward XYB kernel is not affine in the cube roots')
            for aid in a.p.atoms():
                info = self.an.atom_info[aid]
                if info.get('kind') != 'app' or info.get('name') != 'cbrtf':
                    raise Unsupported(f"forward XYB kernel atom of kind {info.get('kind')}")
                apps[aid] = info
        self.apps = apps
        # mixes
        self.mix = {}
        for aid, info in apps.items():
            arg = info['argnodes'][0]
            v, clamped = strip_clamp0(arg)
            a = self.an.ev(v)
            if a.p.degree() > 1:
                raise Unsupported('opsin mix is not affine in the pixel')
            coef = [a.p.coef(self.rgb[j].id) for j in range(3)]
            self.mix[aid] = dict(coef=coef, const=a.p.constant(), err=a.err, clamped=clamped, node=v, absf=a)

    def order(self):
        """atom ids ordered as (L, M, S): identified by the output structure X=(L-M)/2, Y=(L+M)/2, B=S"""
        X_, Y_, B_ = self.out
        s_ids = list(B_.p.atoms())
        if len(s_ids) != 1 or B_.p.coef(s_ids[0]) != 1:
            return None
        s = s_ids[0]
        lm = [a for a in X_.p.atoms()]
        if len(lm) != 2 or set(lm) != set(Y_.p.atoms()):
            return None
        l = [a for a in lm if X_.p.coef(a) == Fr(1, 2)]
        m = [a for a in lm if X_.p.coef(a) == Fr(-1, 2)]
        if len(l) != 1 or len(m) != 1 or Y_.p.coef(l[0]) != Fr(1, 2) or Y_.p.coef(m[0]) != Fr(1, 2):
            return None
        return l[0], m[0], s

def rel_dev(code, ideal):
    return abs(code - ideal) / abs(ideal) if ideal != 0 else (Fr(0) if code == 0 else Fr(10))

def g_error_cube(F, aid, i, hi=Fr(4)):
    """bound of |G_i - L_i*| on [0,hi]^3 where all terms of the mix are non-negative"""
    mx = F.mix[aid]
    if any(c < 0 for c in mx['coef']) or mx['const'] <= 0:
        raise Unsupported('opsin mix has a negative coefficient')
    rho = max([rel_dev(mx['coef'][j], A_IDEAL[i][j]) for j in range(3)] + [rel_dev(mx['const'], B_IDEAL)])
    gamma3 = 3 * U32 / (1 - 3 * U32)
    rho = rho + gamma3 + rho * gamma3
    mstar_max = sum(A_IDEAL[i]) * hi + B_IDEAL
    c_max = cbrt_hi(mstar_max * (1 + rho))
    return c_max * (ULP_CBRT + rho / 3 + rho * rho), rho, c_max

def const_dev(F, k):
    """deviation of the folded additive constants from -cbrt(b) combinations (exact value known)"""
    return F.out[k].p.constant()

def check_c04(ck, ctx, b, tier):
    require_cbrt(b)
    base = f"C04/{b}"
    F = Forward(ctx)
    ck.count('kernels')
    ck.ob(base + '/dims', 'PROVED' if F.dims_ok else 'REFUTED', 'width and height are copied from the source', nontrivial=False)
    order = F.order()
    if order is None:
        ck.ob(base + '/structure', 'REFUTED', f"output is not X=(L-M)/2, Y=(L+M)/2, B=S of three cube roots: {[str(o.p) for o in F.out]}")
        return
    ck.ob(base + '/structure', 'PROVED', 'X=(L-M)/2, Y=(L+M)/2, B=S with L,M,S = cbrtf(max(0, mix_i)) + a_i')
    cbrt_b = Fr(float(B_IDEAL) ** (1.0 / 3.0))
    # matrix rows must match libjxl's rows in the order L, M, S
    for i, aid in enumerate(order):
        mx = F.mix[aid]
        dev = max(abs(mx['coef'][j] - A_IDEAL[i][j]) for j in range(3))
        ok = dev <= Fr(1, 10 ** 6) and abs(mx['const'] - B_IDEAL) <= Fr(1, 10 ** 8) and mx['clamped']
        ck.ob(f"{base}/row{i}", 'PROVED' if ok else 'REFUTED',
              f"mix {i}: coefficients {[float(c) for c in mx['coef']]} + {float(mx['const'])} (libjxl: {[float(c) for c in A_IDEAL[i]]} + {float(B_IDEAL)})" + ('' if mx['clamped'] else '; NOT clamped at 0'))
    # additive constants: a_i = -cbrtf(bias) folded; ideal -cbrt(b)
    # --- cube [0,4]^3
    eps = []
    for i, aid in enumerate(order):
        e, rho, cmax = g_error_cube(F, aid, i)
        eps.append(e)
    consts = [F.out[k].p.constant() for k in range(3)]
    ideal_consts = [Fr(0), -cbrt_b, -cbrt_b]
    round_g = U32 * Fr(17, 10)               # rounding of c_i + a_i, |G| <= 1.7
    tot = [Fr(1, 2) * (eps[0] + eps[1]) + round_g + U32 * 2, Fr(1, 2) * (eps[0] + eps[1]) + round_g + U32 * 2, eps[2] + round_g]
    bounds = {}
    for k, nm in enumerate('XYB'):
        bound = tot[k] + abs(consts[k] - ideal_consts[k]) + F.out[k].err
        bounds[nm] = bound
        ck.ob(f"{base}/cube/{nm}", 'PROVED' if bound <= Fr(2, 10 ** 6) else 'UNDECIDED',
              f"|{nm} - ideal| <= {float(bound):.3g} on [0,4]^3 (given A-cbrt)")
        ck.sample(dict(component=nm, bound=float(bound), const=float(consts[k]), ideal_const=float(ideal_consts[k])))
    # --- negative-component stratum of [-1,4]^3: mixes >= 0.05 (Lipschitz) or <= -1e-3 (clamped)
    worst = Fr(0)
    for i, aid in enumerate(order):
        mx = F.mix[aid]
        D0 = sum(abs(mx['coef'][j] - A_IDEAL[i][j]) * 4 for j in range(3)) + abs(mx['const'] - B_IDEAL)
        P1 = abs(mx['coef'][2]) * 4 + abs(mx['const']); P2 = abs(mx['coef'][1]) * 4 + P1
        best = Fr(0)
        m = Fr(5, 100)
        grid = [Fr(5, 100) * Fr(11, 10) ** k for k in range(0, 48)]
        for a, bnd in zip(grid, grid[1:]):
            D = D0 + U32 * (P1 + P2 + bnd) * (1 + U32)
            lip = 1 / (3 * cbrt_lo((a - D)) ** 2)
            e = D * lip + ULP_CBRT * cbrt_hi(bnd + D)
            best = max(best, e)
            if a > Fr(41, 10): break
        worst = max(worst, best)
        # clamped side: computed mix <= -1e-3 + D < 0  -> cbrtf(0.0) + a_i, a pixel-independent constant
        Dn = D0 + U32 * (P1 + P2 + 1)
        if not (Fr(-1, 1000) + Dn < 0):
            ck.ob(f"{base}/stratum/clamp{i}", 'UNDECIDED', 'mix <= -1e-3 not shown to be clamped')
    an = list(F.apps.values())[0]['node']
    zero = fold(X.node('app', (an.args[0], X.const(X.F32, 0.0)), X.F32) if an.op == 'app' else X.fcall(an.op[5:], [X.const(X.F32, 0.0)]), None, ctx.crate)
    gz = None
    if zero.is_const:
        gz = Fr(zero.val)
    for k, nm in enumerate('XYB'):
        bound = (worst if nm == 'B' else worst) + round_g + abs(consts[k] - ideal_consts[k]) + F.out[k].err + U32 * 2
        bounds[nm] = max(bounds[nm], bound)
        ck.ob(f"{base}/stratum/{nm}", 'PROVED' if bound <= Fr(2, 10 ** 6) else 'UNDECIDED',
              f"|{nm} - ideal| <= {float(bound):.3g} for mixes >= 0.05 with negative components (given A-cbrt)")
    if gz is None:
        ck.ob(f"{base}/stratum/clamped", 'UNDECIDED', 'cbrtf(0.0) does not fold')
    else:
        ck.ob(f"{base}/stratum/clamped", 'PROVED' if abs(gz) + U32 <= Fr(2, 10 ** 6) else 'REFUTED',
              f"clamped mixes give cbrtf(0.0) = {float(gz):.3g} (ideal 0) before the bias term")
    return bounds

def forward_agreement(ck, ctx1, ctx3, rel1, rel3):
    """|LinearRgb->Xyb in build 1 - in build 3| for every pixel of [-1,4]^3, the two builds differing only in the cube root helper.
    Both kernels are  out_k = sum_i w_ki (cbrt_b(clamp0(mix_i))) + const_k  with the SAME mixes (identical expressions,
    hence identical binary32 values) and the same weights; the two cube roots of one mix value differ by at most
    (rel1 + rel3) * cbrt(mix); the affine part adds each build's own rounding."""
    from .c14 import canon
    F1 = Forward(ctx1, lo=Fr(-1), hi=Fr(4)); F3 = Forward(ctx3, lo=Fr(-1), hi=Fr(4))
    o1, o3 = F1.order(), F3.order()
    if o1 is None or o3 is None:
        ck.ob('C20/agreement/xyb-forward', 'UNDECIDED', 'forward XYB kernel structure not recognised in both builds'); return
    for i, (a1, a3) in enumerate(zip(o1, o3)):
        m1, m3 = F1.mix[a1], F3.mix[a3]
        if canon(m1['node']) != canon(m3['node']) or m1['clamped'] != m3['clamped']:
            ck.ob('C20/agreement/xyb-forward', 'UNDECIDED', f"opsin mix {i} is not the same expression in both builds"); return
    for k, nm in enumerate('XYB'):
        tot = Fr(0)
        for a1, a3 in zip(o1, o3):
            w1, w3 = F1.out[k].p.coef(a1), F3.out[k].p.coef(a3)
            if w1 != w3:
                ck.ob(f"C20/agreement/xyb-forward/{nm}", 'UNDECIDED', 'weights of the cube roots differ between the builds'); break
            cmax = max(abs(F1.an.atom_info[a1]['hi']), abs(F3.an.atom_info[a3]['hi']))
            tot += abs(w1) * (Fr(rel1) + Fr(rel3)) * cmax
        else:
            dconst = abs(F1.out[k].p.constant() - F3.out[k].p.constant())
            tot += dconst + F1.out[k].err + F3.out[k].err
            ck.ob(f"C20/agreement/xyb-forward/{nm}", 'PROVED' if tot <= Fr(2, 10 ** 6) else 'UNDECIDED',
                  f"|fastmath build - libm build| <= {float(tot):.3g} {'<=' if tot <= Fr(2, 10 ** 6) else '>'} 2e-6 for the {nm} of LinearRgb->Xyb on [-1,4]^3 (same mixes and weights; the two cube roots of one value differ by <= {float(Fr(rel1) + Fr(rel3)):.3g} relative; constants differ by {float(dconst):.3g})")

def check_c16_xyb(ck, ctx, b):
    require_cbrt(b)
    base = f"C16/xyb/{b}"
    F = Forward(ctx)
    ck.count('xyb_kernels')
    order = F.order()
    if order is None:
        ck.ob(base, 'REFUTED', 'forward kernel is not X=(L-M)/2, Y=(L+M)/2, B=S'); return
    # black: constant folding of the real kernel (cbrtf body included)
    rgb = F.rgb
    z = {rgb[j].id: X.const(X.F32, 0.0) for j in range(3)}
    vals = [fold(e, z, ctx.crate) for e in F.val.fields]
    if all(v.is_const for v in vals):
        dev = max(abs(v.val) for v in vals)
        ck.ob(base + '/black', 'PROVED' if dev <= 1e-6 else 'REFUTED', f"black maps to {[v.val for v in vals]}")
    else:
        ck.ob(base + '/black', 'UNDECIDED', 'kernel does not fold at black')
    # grey axis g in [0,4]: |X| and |Y-B|
    S = [sum(F.mix[a]['coef']) for a in order]
    bs = [F.mix[a]['const'] for a in order]
    consts = [F.out[k].p.constant() for k in range(3)]
    worstX = worstYB = Fr(0)
    grid = [Fr(0)] + [Fr(4) * Fr(9, 10) ** k for k in range(120, -1, -1)]
    for gl, gh in zip(grid, grid[1:]):
        m_lo = min(S[i] * gl + bs[i] for i in range(3)); m_hi = max(S[i] * gh + bs[i] for i in range(3))
        D = lambda i, j: gh * abs(S[i] - S[j]) + abs(bs[i] - bs[j]) + 2 * 3 * U32 * m_hi * (1 + U32)
        lip = 1 / (3 * cbrt_lo(m_lo * (1 - 4 * U32)) ** 2)
        c_hi = cbrt_hi(m_hi)
        dX = Fr(1, 2) * (D(0, 1) * lip + 2 * ULP_CBRT * c_hi) + abs(consts[0]) + U32 * (2 * Fr(17, 10) + 1)
        dYB = Fr(1, 2) * (D(0, 2) + D(1, 2)) * lip + 2 * ULP_CBRT * c_hi + abs(consts[1] - consts[2]) + U32 * (3 * Fr(17, 10) + 1)
        worstX, worstYB = max(worstX, dX), max(worstYB, dYB)
    ck.ob(base + '/grey-X', 'PROVED' if worstX <= Fr(1, 10 ** 6) else 'UNDECIDED', f"|X| <= {float(worstX):.3g} on the grey axis [0,4] (row sums {[float(s) for s in S]})")
    ck.ob(base + '/grey-YB', 'PROVED' if worstYB <= Fr(1, 10 ** 6) else 'UNDECIDED', f"|Y-B| <= {float(worstYB):.3g} on the grey axis [0,4]")
    if max(abs(S[i] - S[j]) for i in range(3) for j in range(3)) > Fr(1, 10 ** 5) or max(abs(bs[i] - bs[j]) for i in range(3) for j in range(3)) > Fr(1, 10 ** 7):
        ck.ob(base + '/row-sums', 'REFUTED', f"opsin row sums {[float(s) for s in S]} / biases {[float(x) for x in bs]} are not equal: greys are not neutral in XYB")

def xyb_grey(ck, tier):
    for b in (('K1',) if tier == 'quick' else ('K1', 'K2')):
        ctx = Ctx(b)
        try:
            check_c16_xyb(ck, ctx, b)
        except Unsupported as ex:
            ck.ob(f"C16/xyb/{b}", 'UNDECIDED', f"analysis lost: {ex}")

def hsl_grey(ck, tier):
    ctx = Ctx('K1')
    base = 'C16/hsl/K1'
    try:
        it, marks, results = run_validated(ctx, 'LinearRgb->Hsl', 'u16', 'BT709', 'BT1886', 'BT709', bd=10)
        s, v = results[0][0]
        obj, buf = vec_buf(s, field(ctx.crate, v, 'data'))
        k, val, R = element_kernel(it, s, obj)
        atoms = pixel_atoms(val, 'linearrgb.data')
        g = X.sym(X.F32, 'grey')
        m = {atoms[j].id: g for j in atoms}
        comps = [simplify_finite(X.substitute(e, m)) for e in val.fields]
        FR.CRATE[0] = ctx.crate
        at = lambda n: (0.0, 1.0, False) if n is g else None
        rh = FR.frange(comps[0], None, at); rs = FR.frange(comps[1], None, at)
        ck.count('hsl_kernels')
        ck.ob(base + '/hue', 'PROVED' if rh[:2] == (0.0, 0.0) and not rh[2] else 'REFUTED', f"hue of a grey is {rh}")
        ck.ob(base + '/saturation', 'PROVED' if rs[:2] == (0.0, 0.0) and not rs[2] else 'REFUTED', f"saturation of a grey is {rs}")
        ck.ob(base + '/lightness', 'PROVED' if comps[2] is g else 'REFUTED', f"lightness of grey g is {X.show(comps[2], 5)} (must be g exactly)")
    except Unsupported as ex:
        ck.ob(base, 'UNDECIDED', f"analysis lost: {ex}")

def roundtrip_kernel(ctx):
    it = ctx.interp(); st = State()
    imgs = constructed_image(ctx, it, st, 'LinearRgb', 'linearrgb')
    s, img = imgs[0]
    o1 = drop_empty_image_outcomes(ctx, it.call_fn(s, ctx.entry(CONVERSIONS['LinearRgb->Xyb'][0]), [img]))
    s1, xyb = o1[0]
    o2 = drop_empty_image_outcomes(ctx, it.call_fn(s1, ctx.entry(CONVERSIONS['Xyb->LinearRgb'][0]), [xyb]))
    s2, back = o2[0]
    c = ctx.crate
    dims_ok = field(c, back, 'width') is X.sym(X.USIZE, 'linearrgb.width') and field(c, back, 'height') is X.sym(X.USIZE, 'linearrgb.height')
    obj, buf = vec_buf(s2, field(c, back, 'data'))
    k, val, R = element_kernel(it, s2, obj)
    return it, val, dims_ok

def check_c05(ck, ctx, b, tier):
    require_cbrt(b)
    base = f"C05/{b}"
    it, val, dims_ok = roundtrip_kernel(ctx)
    ck.count('kernels')
    ck.ob(base + '/dims', 'PROVED' if dims_ok else 'REFUTED', 'width and height preserved by the round trip', nontrivial=False)
    rgb = pixel_atoms(val, 'linearrgb.data')
    if sorted(rgb) != [0, 1, 2]:
        raise Unsupported('round-trip kernel does not read the three components of its pixel')
    an = Analyzer(atom_range=lambda n: (Fr(0), Fr(1)) if X.is_float(n.ty) else None)
    outs = [an.ev(e) for e in val.fields]
    apps = {}
    for a in outs:
        for aid in a.p.atoms():
            info = an.atom_info[aid]
            if info.get('kind') != 'app' or info.get('name') != 'cbrtf':
                raise Unsupported(f"round-trip kernel atom of kind {info.get('kind')}")
            apps[aid] = info
    if len(apps) != 3:
        raise Unsupported(f"round-trip kernel has {len(apps)} cube roots")
    mix = {}
    for aid, info in apps.items():
        v, clamped = strip_clamp0(info['argnodes'][0])
        a = an.ev(v)
        if a.p.degree() > 1:
            raise Unsupported('opsin mix not affine')
        mix[aid] = dict(coef=[a.p.coef(rgb[j].id) for j in range(3)], const=a.p.constant(), err=a.err, hi=a.hi)
    ids = sorted(apps)
    for k in range(3):
        key = f"{base}/component{k}"
        a = outs[k]
        W = {i: a.p.coef(i, i, i) for i in ids}
        residue = Fr(0)
        for m, c in a.p.t.items():
            if m == () or (len(m) == 3 and m[0] == m[1] == m[2]):
                continue
            mag = Fr(1)
            for x in m:
                mag *= max(abs(an.atom_info[x]['lo']), abs(an.atom_info[x]['hi']))
            residue += abs(c) * mag
        # deviation polynomial in the pixel
        lin = [sum(W[i] * mix[i]['coef'][j] for i in ids) - (1 if j == k else 0) for j in range(3)]
        cst = sum(W[i] * mix[i]['const'] for i in ids) + a.p.constant()
        import itertools
        dmax = max(abs(cst + sum(l * x for l, x in zip(lin, c))) for c in itertools.product((Fr(0), Fr(1)), repeat=3))
        e_cube = sum(abs(W[i]) * (mix[i]['err'] + mix[i]['hi'] * (3 * ULP_CBRT + 4 * ULP_CBRT * ULP_CBRT)) for i in ids)
        bound = dmax + e_cube + residue + a.err
        if bound <= Fr(5, 10 ** 5):
            ck.ob(key, 'PROVED', f"|back - pixel| <= {float(bound):.3g} on [0,1]^3 (matrix identity defect {float(dmax):.3g}, cube/rounding {float(e_cube + a.err):.3g}, residue {float(residue):.3g}; given A-cbrt)")
        elif dmax - (e_cube + residue + a.err) > Fr(5, 10 ** 5):
            ck.ob(key, 'REFUTED', f"inverse does not invert the forward transform: INV*A - I has a defect of {float(dmax):.3g} in output component {k} (row of INV*A: {[float(l + (1 if j == k else 0)) for j, l in enumerate(lin)]}, constant {float(cst):.3g})")
        else:
            ck.ob(key, 'UNDECIDED', f"bound {float(bound):.3g} exceeds 5e-5")
        ck.sample(dict(component=k, inv_times_a_row=[float(l + (1 if j == k else 0)) for j, l in enumerate(lin)], bound=float(bound)))
