"""C11 - conversions are pointwise, order-preserving and layout-independent.

Decided on the store summaries produced by the loop summariser (DESIGN.md section 2.3):
for every conversion and every subsampling the output's per-element kernel is resolved
down to loads of the *input*; the rule checks the index of every load (same pixel /
the chroma sample of its block, addressed through stride and origin only), that the
kernel mentions no position, dimension or stride outside those indices, that every output
element is covered, that dimensions are data-flow copies, that borrowed sources receive
no store, and (effect rule) that the call graph is pure.  The write-on-change idiom of
the encoder is discharged by its lemma after checking the side conditions on the summary."""
from __future__ import annotations
import re
from engine.check import Check
from engine.values import Unsupported
from engine.resolve import Resolver, register_range
from engine.prover import Prover
from engine.effects import impurities
from .common import *
from .conv import *
from .c14 import canon

SS_ALL = [(0, 0), (1, 0), (1, 1), (0, 1), (2, 0), (2, 2), (0, 2), (2, 1), (1, 2)]

def walk_outside_loads(e):
    """sub-nodes of e, not descending into the index of load atoms"""
    seen = set()
    stack = [e]
    while stack:
        n = stack.pop()
        if n.id in seen: continue
        seen.add(n.id)
        yield n
        if n.op == 'load':
            continue
        for a in n.args:
            if isinstance(a, X.E):
                stack.append(a)

def kernel_loads(val):
    loads = {}
    for e in scalars(val):
        for n in walk_outside_loads(e):
            if n.op == 'load':
                loads[n.id] = n
    return list(loads.values())

def position_free(val):
    """no integer symbol (position, dimension, stride) outside load indices"""
    bad = []
    for e in scalars(val):
        for n in walk_outside_loads(e):
            if n.op == 'sym' and X.is_int(n.ty):
                bad.append(n.args[0])
    return bad

def same_poly(a, b, pc=()):
    P = Prover(pc)
    return (P.poly(a) - P.poly(b)).t == {}

def geometry(ctx, yuv):
    """symbol table of a Yuv value's planes: name -> E"""
    out = []
    for p in field(ctx.crate, field(ctx.crate, yuv, 'data'), 'planes').fields:
        cfg = field(ctx.crate, p, 'cfg')
        names = [f['name'] for f in ctx.crate.types[cfg.tid]['variants'][0]['fields']]
        out.append(dict(zip(names, cfg.fields)))
    return out

def U(v): return X.const(X.USIZE, v)

def expected_plane_index(g, j, row, col, ssx, ssy):
    """index into plane j's buffer of the sample belonging to luma position (row, col)"""
    if j > 0:
        row = X.binop('shr', row, U(ssy)) if ssy else row
        col = X.binop('shr', col, U(ssx)) if ssx else col
    start = X.binop('add', X.binop('mul', g[j]['yorigin'], g[j]['stride'], wrap=False), g[j]['xorigin'], wrap=False)
    return X.binop('add', start, X.binop('add', X.binop('mul', row, g[j]['stride'], wrap=False), col, wrap=False), wrap=False)

def check_vec_output(ck, key, ctx, it, st, img, in_dims, src, ssx=0, ssy=0, pc=()):
    """src = ('vec', name) | ('yuv', yuv value)"""
    c = ctx.crate
    w_out, h_out = field(c, img, 'width'), field(c, img, 'height')
    if not (w_out is in_dims[0] and h_out is in_dims[1]):
        ck.ob(key + '/dims', 'REFUTED', f"output dimensions ({w_out}, {h_out}) are not the source's ({in_dims[0]}, {in_dims[1]})"); return None
    ck.ob(key + '/dims', 'PROVED', 'width and height are data-flow copies of the source dimensions', nontrivial=False)
    obj, buf = vec_buf(st, field(c, img, 'data'))
    if not same_poly(buf.len, X.binop('mul', in_dims[0], in_dims[1], wrap=False), pc):
        ck.ob(key + '/len', 'REFUTED', f"output buffer has length {buf.len}, not width*height"); return None
    k = X.fresh(X.USIZE, 'pix', 0, None)
    register_range(k, U(0), buf.len)
    R = Resolver(it, st, pc)
    val = R.resolve(it.mk_load(obj, len(buf.stores), k, 0, (), buf.elem_tid, buf))   # raises when some element is not covered
    bad = position_free(val)
    if bad:
        ck.ob(key + '/kernel', 'REFUTED', f"the per-pixel kernel depends on position/geometry symbols {sorted(set(bad))[:4]}"); return None
    loads = kernel_loads(val)
    problems = []
    w = in_dims[0]
    for n in loads:
        obj_l, ver, idx, flat, sub, name = n.args
        if ver != 0:
            problems.append(f"unresolved intermediate load from {name}")
        elif src[0] == 'vec':
            if not name.startswith(src[1]):
                problems.append(f"reads buffer {name}")
            elif idx is not k:
                problems.append(f"output pixel i reads input element {idx} of {name} (expected i)")
        else:
            j = plane_of(n)
            if j is None:
                problems.append(f"reads buffer {name}"); continue
            g = geometry(ctx, src[1])
            row = X.node('idiv', (k, w), X.USIZE); col = X.node('irem', (k, w), X.USIZE)
            want = expected_plane_index(g, j, row, col, ssx, ssy)
            if not same_poly(idx, want, pc):
                problems.append(f"plane {j} is read at {idx}, expected row-major (y>>ss_y)*stride+(x>>ss_x) relative to the plane's own origin")
    if src[0] == 'yuv':
        planes_read = sorted({plane_of(n) for n in loads if plane_of(n) is not None})
        if planes_read != [0, 1, 2]:
            problems.append(f"kernel reads planes {planes_read}")
    if problems:
        ck.ob(key + '/kernel', 'REFUTED', '; '.join(sorted(set(problems))[:3]))
    else:
        ck.ob(key + '/kernel', 'PROVED', f"out[i] = K(in[i]) with {len(loads)} input loads, K free of position, dimensions and strides; all {buf.len} elements covered")
    return val

def check_yuv_output(ck, key, ctx, it, st, yuv, in_dims, in_name, ssx, ssy, loops, pc=()):
    c = ctx.crate
    planes = yuv_planes(ctx, st, yuv)
    w, h = in_dims
    R = Resolver(it, st, pc)
    kernels = []
    for j, (pv, cfg, obj, buf) in enumerate(planes):
        pk = f"{key}/plane{j}"
        ew = X.binop('shr', w, U(ssx)) if (j and ssx) else w
        eh = X.binop('shr', h, U(ssy)) if (j and ssy) else h
        if not (same_poly(cfg['width'], ew, pc) and same_poly(cfg['height'], eh, pc)):
            ck.ob(pk + '/size', 'REFUTED', f"plane {j} is created {cfg['width']} x {cfg['height']}, expected (w>>ss_x, h>>ss_y)"); continue
        if j and not (cfg['xdec'].is_const and cfg['xdec'].val == ssx and cfg['ydec'].is_const and cfg['ydec'].val == ssy):
            ck.ob(pk + '/size', 'REFUTED', f"plane {j} decimation ({cfg['xdec']}, {cfg['ydec']}) differs from the subsampling"); continue
        ck.ob(pk + '/size', 'PROVED', 'plane size and decimation follow the subsampling', nontrivial=False)
        if len(buf.stores) != 1:
            ck.ob(pk + '/stores', 'UNDECIDED', f"{len(buf.stores)} store summaries for one plane"); continue
        s = buf.stores[0]
        if len(s.qvars) != 2:
            ck.ob(pk + '/stores', 'UNDECIDED', 'plane store is not a two-dimensional summary'); continue
        (x, xlo, xhi), (y, ylo, yhi) = s.qvars
        full = xlo.is_const and xlo.val == 0 and ylo.is_const and ylo.val == 0 and same_poly(xhi, w, pc) and same_poly(yhi, h, pc)
        if not full:
            ck.ob(pk + '/iteration', 'REFUTED', f"iteration space [{ylo},{yhi}) x [{xlo},{xhi}) is not the whole image"); continue
        g = [dict(cfg) for (_, cfg, _, _) in planes]
        want = expected_plane_index(g, j, y, x, ssx, ssy)
        if not same_poly(s.index, want, pc):
            ck.ob(pk + '/index', 'REFUTED', f"plane {j} is written at {s.index}; expected (y>>ss_y)*stride+(x>>ss_x) from the plane's origin"); continue
        val = R.resolve(s.value)
        bad = position_free(val)
        loads = kernel_loads(val)
        inpos = X.binop('add', X.binop('mul', y, w, wrap=False), x, wrap=False)
        probs = []
        if bad: probs.append(f"stored value depends on {sorted(set(bad))[:3]}")
        for n in loads:
            if n.args[1] != 0 or not n.args[5].startswith(in_name): probs.append(f"reads {n.args[5]}")
            elif not same_poly(n.args[2], inpos, pc): probs.append(f"pixel ({y},{x}) reads input element {n.args[2]}")
        extra = [cnd for cnd in s.guard if not _is_range(cnd, s.qvars)]
        if j == 0 and extra:
            probs.append(f"luma store is conditional: {extra[0]}")
        if j > 0:
            want1 = expected_plane_index(g, 1, y, x, ssx, ssy)
            colx = X.binop('shr', x, U(ssx)) if ssx else x
            ok, why = write_on_change(extra, s, loops, it, pc, want1, g[1]['stride'], colx)
            if not ok: probs.append(why)
        if probs:
            ck.ob(pk + '/kernel', 'REFUTED' if not any('lemma' in p_ for p_ in probs) else 'UNDECIDED', '; '.join(probs[:3]))
        else:
            ck.ob(pk + '/kernel', 'PROVED', ('luma' if j == 0 else 'chroma') + ' sample = K(pixel of its own position/block), K position-free' + ('' if j == 0 else '; every chroma position written (write-on-change lemma)'))
        kernels.append(canon(val))
    return kernels

def every_sample_written(it, planes, j, st_pc, ssx=0, ssy=0):
    """None when the single store summary of plane j covers every sample of the plane (unconditional, or guarded by the
    write-on-change idiom whose lemma holds); otherwise the reason.  Used by C02 / C08 / C09: a value-level claim about
    'the stored code' is about every sample only if every sample is stored."""
    pv, cfg, obj, buf = planes[j]
    if len(buf.stores) != 1:
        return f"{len(buf.stores)} store summaries"
    s = buf.stores[0]
    if len(s.qvars) != 2:
        return 'plane store is not a two-dimensional summary'
    (x, xlo, xhi), (y, ylo, yhi) = s.qvars
    extra = [cnd for cnd in s.guard if not _is_range(cnd, s.qvars)]
    if not extra:
        return None
    if j == 0:
        return f"luma store is conditional: {extra[0]}"
    g = [dict(c) for (_, c, _, _) in planes]
    want1 = expected_plane_index(g, 1, y, x, ssx, ssy)
    colx = X.binop('shr', x, U(ssx)) if ssx else x
    ok, why = write_on_change(extra, s, it.rec.loops, it, st_pc, want1, g[1]['stride'], colx)
    return None if ok else why

def _is_range(cnd, qvars):
    if cnd.op == 'lt':
        for q, lo, hi in qvars:
            if cnd.args[0] is q and cnd.args[1] is hi:
                return True
    return False

def write_on_change(extra, s, loops, it, pc=(), want1=None, stride1=None, col=None):
    """side conditions of the lemma 'the first visit of every position executes the guarded block':
    the guard is  P != L  for a loop-carried local L that (a) starts at a value no position can take,
    (b) is assigned only  L = P  inside the guarded block, and (c) P determines the written position:
    P is the store index itself, or P is the index of the sibling chroma plane (same row/column
    with that plane's stride) and that index is injective in (row, column) - column < stride."""
    if not extra:
        return True, ''
    if len(extra) != 1 or extra[0].op != 'ne':
        return False, f"lemma side condition: unrecognised store guard {extra}"
    a, b = extra[0].args
    hv, pos = (a, b) if a.op == 'sym' and '@loop' in a.args[0] else (b, a)
    if not (hv.op == 'sym' and '@loop' in hv.args[0]):
        return False, 'lemma side condition: guard does not compare with a loop-carried local'
    # (c) the compared quantity determines the written position
    if not same_poly(pos, s.index, pc):
        if want1 is None or not same_poly(pos, want1, pc):
            return False, f"lemma side condition: the guard compares {str(pos)[:80]}, which is neither the written position nor the sibling plane's position of the same sample - equal values of it do not imply the same sample"
        from engine.prover import Prover
        goal = X.binop('lt', col, stride1)
        P = Prover(tuple(pc) + tuple(X.binop('lt', q, hi) for q, lo, hi in s.qvars))
        ok = P.prove(goal)
        if not ok and P.shift_atoms:
            P.add_cuts(); ok = P.prove(goal)
        if not ok:
            return False, 'lemma side condition: the tracked position of the sibling plane is not shown injective (column < stride not certified)'
    def carried(hvsym):
        for L in loops:
            for l, cinfo in L.carried.items():
                if cinfo['hv'] is hvsym:
                    return cinfo
        return None
    cinfo = carried(hv)
    if cinfo is None:
        return False, 'lemma side condition: carried local not found in the loop summaries'
    for guard, endv in cinfo['ends']:
        taken = any(c is extra[0] for c in guard)
        if taken and endv is not pos:
            return False, 'lemma side condition: the carried local is not set to the compared position'
        if not taken and endv is not hv:
            return False, 'lemma side condition: the carried local changes outside the guarded block'
    # (a) initial value: follow the chain of enclosing loops down to a constant no position can take
    pre = cinfo['pre']
    depth = 0
    while isinstance(pre, X.E) and pre.op == 'sym' and '@loop' in pre.args[0] and depth < 4:
        outer = carried(pre)
        if outer is None:
            return False, 'lemma side condition: initial value of the carried local not found'
        inner_hv = hv if depth == 0 else prev_hv
        for guard, endv in outer['ends']:
            if endv is not inner_hv:
                return False, 'lemma side condition: the enclosing loop assigns the carried local'
        prev_hv = pre
        pre = outer['pre']
        depth += 1
    if not (isinstance(pre, X.E) and pre.is_const and int(pre.val) >= (1 << 62)):
        return False, f"lemma side condition: the carried local starts at {pre}, which may be a valid position"
    return True, ''

def conversion_structure(ck, ctx, conv, T, ssx, ssy, key, base_kernels=None):
    """the C11 rules for one conversion / sample type / subsampling (also used by C09 for the two long conversions)"""
    c = ctx.crate
    it, marks, results = run_validated(ctx, conv, T, 'BT709', 'SRGB', 'BT2020', bd=(8 if T == 'u8' else 10), ssx=ssx, ssy=ssy)
    ck.count('conversions_interpreted')
    src_kind, how = VALIDATED[conv]
    for outs in results:
        oks = [(s, v) for s, v in outs if is_ok(c, v)] if conv in PAIR_FALLIBLE else [(s, v) for s, v in outs]
        if len(oks) != 1:
            ck.ob(key, 'UNDECIDED', f"{len(oks)} successful outcomes"); continue
        s, v = oks[0]
        img = v.fields[0] if conv in PAIR_FALLIBLE else v
        # borrowed sources untouched
        if src_kind == 'yuv':
            yv = it.input_yuv
            in_dims = (X.sym(X.USIZE, 'yuv.data.planes[0].cfg.width'), X.sym(X.USIZE, 'yuv.data.planes[0].cfg.height'))
            touched = [b.name for o, b in s.heap.items() if isinstance(b, Buf) and b.name.startswith('yuv.data') and b.stores and not b.copy]
            ck.ob(key + '/borrowed', 'PROVED' if not touched else 'REFUTED', 'no store into the borrowed source' if not touched else f"the borrowed source buffer {touched[0]} is written", nontrivial=False)
            check_vec_output(ck, key, ctx, it, s, img, in_dims, ('yuv', yv), ssx, ssy, s.pc)
        else:
            nm = src_kind.lower()
            in_dims = (X.sym(X.USIZE, f'{nm}.width'), X.sym(X.USIZE, f'{nm}.height'))
            if conv.endswith('->Yuv'):
                if how == 'ref_cfg':
                    touched = [b.name for o, b in s.heap.items() if isinstance(b, Buf) and b.name.startswith(f'{nm}.data') and b.stores and not b.copy]
                    ck.ob(key + '/borrowed', 'PROVED' if not touched else 'REFUTED', 'no store into the borrowed source' if not touched else f"the borrowed source {touched[0]} is written", nontrivial=False)
                ks = check_yuv_output(ck, key, ctx, it, s, img, in_dims, f'{nm}.data', ssx, ssy, it.rec.loops, s.pc)
                if ks and len(ks) == 3 and base_kernels is not None:
                    bk = base_kernels.setdefault((conv, T), ks)
                    same = ks == bk
                    ck.ob(key + '/independent-of-subsampling', 'PROVED' if same else 'REFUTED',
                          'luma and chroma kernels are the same expressions as for 4:4:4' if same else 'the per-sample kernels differ from the 4:4:4 ones')
            else:
                check_vec_output(ck, key, ctx, it, s, img, in_dims, ('vec', f'{nm}.data'), 0, 0, s.pc)

def run(tier):
    ck = Check('C11', tier, 'proof', 'loop store summaries from abstract interpretation of MIR + structural rules on index polynomials, kernel dependence, coverage; effect analysis of the resolved call graph')
    ctx = Ctx('K1')
    c = ctx.crate
    base_kernels = {}
    convs = list(VALIDATED)
    entry_keys = []
    for conv in convs:
        uses_T = '{T}' in CONVERSIONS[conv][0]
        for T in (['u8', 'u16'] if uses_T else ['u16']):
            entry_keys.append(ctx.entry(CONVERSIONS[conv][0].format(T=T)))
            sslist = SS_ALL if 'Yuv' in conv else [(0, 0)]
            if tier == 'quick' and 'Yuv' in conv:
                sslist = [(0, 0), (1, 0), (1, 1), (0, 1), (2, 0), (2, 2)]
            for (ssx, ssy) in sslist:
                key = f"C11/{conv}/{T}/ss{ssx}{ssy}"
                try:
                    conversion_structure(ck, ctx, conv, T, ssx, ssy, key, base_kernels)
                except Unsupported as ex:
                    ck.ob(key, 'UNDECIDED', f"analysis lost: {ex}")
    # purity / determinism
    imp = impurities(c, entry_keys)
    from engine.effects import reachable
    ck.note('impure_constructs', len(imp))
    ck.count('functions_in_call_graph', len(reachable(c, entry_keys)))
    ck.floor('functions_in_call_graph', 40)
    if imp:
        fnk, why = imp[0]
        ck.ob('C11/purity', 'REFUTED', f"{fnk} {why} ({len(imp)} impure constructs): results may depend on something other than the input image")
    else:
        ck.ob('C11/purity', 'PROVED', 'no static, thread-local, dynamic dispatch or un-modelled external call below any conversion entry point')
    ck.floor('conversions_interpreted', 50)
    return ck.finish()

PAIR_FALLIBLE = {k for k in VALIDATED if not k.startswith(('LinearRgb->Xyb', 'Xyb->LinearRgb', 'LinearRgb->Hsl', 'Hsl->LinearRgb'))}

def find_input_yuv(it, s):
    for ev in it.rec.events:
        if ev.get('ev') == 'construct' and ev.get('ty') == 'yuv::Yuv':
            from engine.values import Agg
            return Agg('struct', None, ev['fields']) if False else _YuvView(ev['fields'])
    raise Unsupported('input Yuv construction not found')

class _YuvView:
    """the Yuv aggregate as built by Yuv::new (fields: data, config)"""
    def __init__(self, fields):
        self.fields = fields
