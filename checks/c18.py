"""C18 - the fast math helpers: totality, oddness of cbrtf, saturation of expf.

Decided: (a) totality of powf / expf / cbrtf / multiply_add for *unconstrained* f32
arguments in every build configuration - every assert and the unchecked float->int
conversion inside the bodies is discharged by interval + NaN-flag analysis with the
arguments TOP; (b) cbrtf is odd, by a sign-parity dataflow over its expression DAG (IEEE
operations are sign-symmetric); (c) expf(x) = +inf on [89, 1e38] and = 0 on [-1e38, -88],
by interval analysis of the body split at the integer boundaries of log2(e)*x.
NOT decided: the accuracy numbers (1 ulp, 2.5e-4 + 8e-6|y|, 1e-5) - section 5 of
DESIGN.md; a counter-example search by constant folding at fixed points can refute them
but nothing is claimed from it."""
from __future__ import annotations
import math
from engine.check import Check
from engine.values import Unsupported
from engine import frange as FR
from engine.ranges import decide_cmp, int_bounds
from engine.apps import summary
from engine.simplify import fold
from .common import *

def fn_key(ctx, name):
    ks = [k for k, f in ctx.crate.fns.items() if f['def'].split('::')[-1] == name and not f.get('closure')]
    ks = [k for k in ks if k.split('::')[-1] == name]
    if len(ks) != 1:
        raise Unsupported(f"public function {name}: {ks}")
    return ks[0]

def parity(e, x):
    """sign-parity of e under x -> -x: 'even', 'odd', 'bits' (bit pattern of an odd float),
    'sign' (sign bit of an odd float), 'mag' is even; None = neither"""
    cache = {}
    def rec(n):
        if n.id in cache: return cache[n.id]
        op = n.op
        r = None
        if n is x: r = 'odd'
        elif op == 'const': r = 'even'
        elif op == 'sym': r = None
        elif op in ('fneg',): r = rec(n.args[0])
        elif op in ('fmul', 'fdiv'):
            a, b = rec(n.args[0]), rec(n.args[1])
            if a in ('even', 'odd') and b in ('even', 'odd'):
                r = 'even' if a == b else 'odd'
        elif op in ('fadd', 'fsub'):
            a, b = rec(n.args[0]), rec(n.args[1])
            if a == b and a in ('even', 'odd'): r = a
            elif 'even' in (a, b) and (n.args[0].is_const and n.args[0].val == 0 or n.args[1].is_const and n.args[1].val == 0):
                r = b if n.args[0].is_const else a
        elif op == 'fma':
            a, b, c = rec(n.args[0]), rec(n.args[1]), rec(n.args[2])
            if a in ('even', 'odd') and b in ('even', 'odd'):
                p = 'even' if a == b else 'odd'
                if p == c: r = p
        elif op == 'cast':
            a = rec(n.args[0])
            if X.is_float(n.ty) and X.is_float(n.args[0].ty): r = a
        elif op == 'cast:bits':
            a = rec(n.args[0])
            if X.is_int(n.ty) and a == 'odd': r = 'bits'
            elif X.is_int(n.ty) and a == 'even': r = 'even'
            elif X.is_float(n.ty) and a == 'bits': r = 'odd'
            elif X.is_float(n.ty) and a == 'even': r = 'even'
        elif op in ('icast', 'wrap'):
            r = rec(n.args[0])
        elif op in ('iand', 'irem'):
            a, b = n.args
            ra = rec(a)
            if ra == 'bits' and b.is_const:
                bits = a.ty[1]
                if op == 'irem' and b.val == (1 << (bits - 1)): r = 'even'       # & 0x7fff_ffff written as % 2^31
                elif op == 'iand' and b.val == (1 << (bits - 1)) - 1: r = 'even'
                elif op == 'iand' and b.val == (1 << (bits - 1)): r = 'sign'
            elif ra == 'even' and rec(b) == 'even': r = 'even'
        elif op == 'ishr' and rec(n.args[0]) == 'bits' and n.args[1].is_const and n.args[1].val == n.args[0].ty[1] - 1:
            r = 'sign1'                                   # the sign bit as 0/1
        elif op == 'imul' and 'sign1' in (rec(n.args[0]), rec(n.args[1])):
            o = n.args[1] if rec(n.args[0]) == 'sign1' else n.args[0]
            if o.is_const and o.val == 1 << (n.ty[1] - 1): r = 'sign'
        elif op in ('idiv', 'iadd', 'isub', 'imul', 'ishr', 'ishl'):
            if all(rec(a) == 'even' for a in n.args): r = 'even'
        elif op == 'ior':
            a, b = rec(n.args[0]), rec(n.args[1])
            if {a, b} == {'sign', 'even'}:
                # magnitude part must have the sign bit clear: checked by bounds
                mag = n.args[0] if a == 'even' else n.args[1]
                lo, hi = int_bounds(mag)
                if lo is not None and lo >= 0 and hi < (1 << (mag.ty[1] - 1)): r = 'bits'
        elif op.startswith('call:libm_cbrt'):
            r = rec(n.args[0])                       # libm cbrt is odd (A-libm)
        elif op == 'select':
            r = None
        cache[n.id] = r
        return r
    return rec(e)

def run(tier):
    ck = Check('C18', tier, 'proof', 'interval + NaN-flag analysis of the helper bodies with unconstrained arguments (totality), sign-parity dataflow (oddness), piecewise interval analysis (expf saturation), certified approximation error (mean-value interval branch and bound of polynomial vs log2/exp2, bit-trick guess + rational error map for cbrtf, a-priori round-off)')
    builds = ['K1', 'K3'] if tier == 'quick' else ['K1', 'K2', 'K3', 'K4']
    for b in builds:
        ctx = Ctx(b, 'yuvxyb_math')
        FR.CRATE[0] = ctx.crate
        it = ctx.interp()
        for name in ('powf', 'expf', 'cbrtf', 'multiply_add'):
            base = f"C18/{name}/{b}"
            try:
                key = fn_key(ctx, name)
                formals, body, rec = summary(it, key)
                ck.count('helpers')
                # (a) totality: every recorded panic / unsafe precondition with TOP arguments
                bad = []
                for pn in rec.panics:
                    c = pn.get('cond')
                    if not FR.pc_feasible(pn.get('pc', ())):
                        continue                # the panic sits behind a condition no argument satisfies (an assertion that always holds)
                    if c is None or (decide_cmp(c, pn.get('pc', ())) is not True and FR.truth(c)[1]):
                        w = panic_witness(c, pn.get('pc', ()), formals) if c is not None else None
                        bad.append(f"{pn.get('msg')} at line {pn.get('ln')} can fail" + (f" (e.g. for argument(s) {w})" if w else f": {str(c)[:100]}"))
                for ob in rec.obligations:
                    if ob['kind'] == 'O-float':
                        lo, hi, nan = FR.frange(ob['arg'])
                        tlo, thi = X.int_range(ob['to'])
                        if nan or not (lo > tlo - 1 and hi < thi + 1):
                            bad.append(f"to_int_unchecked argument in [{lo}, {hi}], NaN possible: {nan}")
                ck.ob(base + '/total', 'PROVED' if not bad else 'REFUTED',
                      f"no panic and no undefined behaviour for any argument bits ({len(rec.panics)} assert(s), {sum(1 for o in rec.obligations if o['kind'] == 'O-float')} unchecked conversion(s) discharged)" if not bad else '; '.join(bad[:3]))
                if name == 'cbrtf':
                    p = parity(body, formals[0])
                    ck.ob(base + '/odd', 'PROVED' if p == 'odd' else 'UNDECIDED', 'cbrtf(-x) == -cbrtf(x) by sign-parity of every operation' if p == 'odd' else f"sign-parity analysis yields {p}")
                if name == 'expf':
                    expf_saturation(ck, ctx, base, formals, body, b)
                if name in ('cbrtf', 'expf', 'powf'):
                    accuracy(ck, ctx, base, name, formals, body)
            except Unsupported as ex:
                ck.ob(base, 'UNDECIDED', f"analysis lost: {ex}")
    ck.floor('helpers', 8)
    ck.assumptions.append('A-libm: the host libm cbrt/pow/exp used by the non-fastmath build (K3) and as the mathematical reference are correctly rounded to within 1 ulp')
    ck.assumptions.append('float64 interval arithmetic with two-ulp outward rounding encloses the real functions log, exp, cbrt of the analysing host')
    return ck.finish()

def is_libm_only(body):
    return not any(n.op in ('cast:bits', 'ftoi_unchecked') for n in X.walk(body)) and any(n.op.startswith('call:') for n in X.walk(body))

def accuracy(ck, ctx, base, name, formals, body):
    """the accuracy clause of the contract, from certified approximation and round-off bounds (engine/approx.py)"""
    from engine import approx
    key = base + '/accuracy'
    if is_libm_only(body):
        ck.ob(key, 'PROVED', f"{name} is the libm function in this build (A-libm)", nontrivial=False)
        return
    witness = {'cbrtf': accuracy_witness_cbrt, 'expf': accuracy_witness_exp, 'powf': accuracy_witness_pow}[name]
    try:
        if name == 'powf':
            c = approx.powf_model(ctx.crate, formals, body)
            b0, b80 = approx.powf_bound(c, 0.0), approx.powf_bound(c, 80.0)
            ok = b0 <= 2.5e-4 and b80 <= 2.5e-4 + 8e-6 * 80
            ck.note(f"{base}/certified", dict(delta_log2=c['delta_log2'], log2_roundoff=c['log2_round_abs'], eps_exp2=c['eps_q'], exp2_roundoff=c['q_round_abs'],
                                              bound_y0=b0, bound_y80=b80, boxes=c['boxes'], bounds={str(y): approx.powf_bound(c, y) for y in (0.4166667, 2.4, 6.277, 78.84375)}))
            text = (f"|powf/x^y - 1| <= {b0:.4g} at y=0 and <= {b80:.4g} at |y|=80 (bound convex in |y|, contract linear): sup|P(m)(m-1) - log2 m| <= {c['delta_log2']:.4g} on [1,2), "
                    f"sup|Q(f)/2^f - 1| <= {c['eps_q']:.4g} on [-0.5,1.5] (mean-value interval branch and bound, {c['boxes']} boxes), round-off {c['log2_round_abs']:.3g} / {c['q_round_abs']:.3g}")
        elif name == 'expf':
            c = approx.expf_model(ctx.crate, formals, body)
            ok = c['bound'] <= 1e-5
            ck.note(f"{base}/certified", c)
            text = f"|expf/e^x - 1| <= {c['bound']:.4g} on [-85,85]: exponent error {c['exponent_error']:.3g} (constant {c['log2e']!r} vs log2 e, product rounding), sup|Q(f)/2^f - 1| <= {c['eps_frac']:.3g} on [0,1]"
        else:
            c = approx.cbrtf_model(ctx.crate, formals, body)
            ok = c['total_rel'] <= 2.0 ** -26
            ck.note(f"{base}/certified", c)
            text = (f"bit-trick guess within {c['guess_rel']:.4g} of cbrt (period-3 analysis of bits/3 + {c['B']}), iteration error map H(e) = O(e^{c['iteration_order']}) gives {c['iter_rel']:.3g}, "
                    f"cancellation-free f64 round-off {c['roundoff_rel']:.3g}: the f64 iterate is within 2^-26 relative, so its rounding to f32 is within 1 ulp (positive normal x; negative by oddness)")
        if ok:
            ck.ob(key, 'PROVED', text)
        else:
            w = witness(ctx, formals, body)
            ck.ob(key, 'REFUTED' if w else 'UNDECIDED', (w + '; ' if w else '') + 'certified bound exceeds the contract: ' + text)
    except Unsupported as ex:
        w = witness(ctx, formals, body)
        ck.ob(key, 'REFUTED' if w else 'UNDECIDED', (w + '; ' if w else '') + f"approximation structure not recognised: {ex}")

def expf_saturation(ck, ctx, base, formals, body, b):
    x = formals[0]
    if any(n.op == 'call:libm_exp' for n in X.walk(body)) and not any(n.op == 'cast:bits' for n in X.walk(body)):
        # exact-math build: x.exp() of libm overflows to +inf above 88.73 and underflows to 0 below -103.98
        ck.ob(base + '/saturation', 'PROVED', 'libm exp (A-libm): overflow / underflow behaviour of the C library', nontrivial=False)
        return
    # pivot t = log2(e) * x
    tnode = None
    for n in X.walk(body):
        if n.op == 'fmul' and any(a is x for a in n.args) and any(a.is_const for a in n.args):
            tnode = n
    if tnode is None:
        ck.ob(base + '/saturation', 'UNDECIDED', 'no scaling of the argument found'); return
    c = [a for a in tnode.args if a.is_const][0].val
    T = X.sym(X.F32, 'expf.t')
    body_t = X.substitute(body, {tnode.id: T})
    if any(n is x for n in X.walk(body_t)):
        ck.ob(base + '/saturation', 'UNDECIDED', 'body depends on x other than through log2(e)*x'); return
    def rng(lo, hi):
        return FR.frange(body_t, None, lambda n: (lo, hi, False) if n is T else None)
    def nb(v): return float(__import__('numpy').nextafter(__import__('numpy').float32(v), __import__('numpy').float32(-math.inf)))
    t_lo = FR.round_down(c * 89.0)
    pieces = []
    k = math.floor(t_lo)
    a = t_lo
    while k < 131:
        pieces.append((a, nb(k + 1))); a = float(k + 1); k += 1
    pieces.append((a, c * 1e38 * (1 + 1e-6)))
    res = [rng(p, q) for p, q in pieces]
    ok_hi = all(r[0] == math.inf and r[1] == math.inf and not r[2] for r in res)
    bad = next((f"t in [{p:.6g}, {q:.6g}] gives {r}" for (p, q), r in zip(pieces, res) if not (r[0] == math.inf and r[1] == math.inf and not r[2])), '')
    ck.ob(base + '/saturation-high', 'PROVED' if ok_hi else 'UNDECIDED', 'expf(x) = +inf for 89 <= x <= 1e38 (interval analysis per integer cell of log2(e)*x)' if ok_hi else f"not shown to be +inf: {bad}")
    r = rng(c * -1e38 * (1 + 1e-6), FR.round_up(c * -88.0))
    ok_lo = r[0] == 0.0 and r[1] == 0.0 and not r[2]
    ck.ob(base + '/saturation-low', 'PROVED' if ok_lo else 'UNDECIDED', 'expf(x) = 0 for -1e38 <= x <= -88' if ok_lo else f"not shown to be 0: range {r}")

def _fold_at(ctx, body, formals, vals):
    r = fold(body, {f.id: X.const(f.ty, v) for f, v in zip(formals, vals)})
    return r.val if r.is_const else None

def accuracy_witness_cbrt(ctx, formals, body):
    for k in range(-126, 128, 3):
        for m in (1.0, 1.37, 1.9):
            for s in (1.0, -1.0):
                v = X.fround(X.F32, s * m * 2.0 ** k)
                if abs(v) > 3.4e38: continue
                r = _fold_at(ctx, body, formals, [v])
                if r is None: return None
                ref = math.copysign(abs(v) ** (1 / 3), v)
                if r != r or abs(r - ref) > 4 * 2.0 ** -24 * abs(ref):
                    return f"cbrtf({v!r}) folds to {r!r}; the cube root is {ref!r} (contract: within 1 ulp)"
    return None

def accuracy_witness_exp(ctx, formals, body):
    for i in range(-85 * 4, 85 * 4 + 1, 7):
        v = X.fround(X.F32, i / 4.0)
        r = _fold_at(ctx, body, formals, [v])
        if r is None: return None
        ref = math.exp(v)
        if r != r or abs(r - ref) > 1e-4 * ref:
            return f"expf({v!r}) folds to {r!r}; exp gives {ref!r} (contract: relative error <= 1e-5)"
    return None

def accuracy_witness_pow(ctx, formals, body):
    for x in (0.001, 0.0181, 0.25, 0.5, 0.9, 1.0, 2.0, 10.0, 100.0):
        for y in (0.1593, 1 / 2.4, 0.45, 2.2, 2.4, 2.8, 6.277, 78.84, -1.5):
            xv, yv = X.fround(X.F32, x), X.fround(X.F32, y)
            ref = xv ** yv
            if not (1e-35 < ref < 1e35): continue
            r = _fold_at(ctx, body, formals, [xv, yv])
            if r is None: return None
            if r != r or abs(r - ref) > (2.5e-3 + 8e-5 * abs(yv)) * ref:
                return f"powf({xv!r}, {yv!r}) folds to {r!r}; the power is {ref!r} (contract: relative error <= 2.5e-4 + 8e-6|y|)"
    return None

def panic_witness(cond, pc, formals):
    import itertools
    specials = [0.0, 1.0, -1.0, 90.0, -90.0, 1e10, -1e10, 3e38, -3e38, math.inf, -math.inf, math.nan]
    for combo in itertools.product(specials, repeat=len(formals)):
        m = {f.id: X.const(f.ty, v) for f, v in zip(formals, combo)}
        ok = True
        for c in pc:
            r = X.substitute(c, m)
            if not (r.is_const and r.val): ok = False; break
        if not ok: continue
        r = X.substitute(cond, m)
        if r.is_const and not r.val:
            return list(combo)
    return None
