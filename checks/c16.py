"""C16 - the neutral axis and the black/white anchors survive every stage.

Constant propagation through the kernels extracted from MIR: the anchors are single
points (or the one-parameter grey axis), so the extracted expressions are folded with the
anchor constants substituted - exact machine arithmetic of the analyser, nothing executed -
and, for the grey axis, bounded by the affine/error analysis over the whole axis."""
from __future__ import annotations
from fractions import Fraction as Fr
import math
from engine.check import Check
from engine.values import Unsupported
from engine.resolve import Resolver
from engine.simplify import fold, simplify_finite
from .common import *
from .conv import *
from .c01 import decode_kernel
from .c14 import STD_CURVES, STD_PRIMS

def loads_by_plane(e):
    out = {}
    for n in X.walk(e):
        if n.op == 'load':
            j = plane_of(n)
            if j is not None:
                out.setdefault(j, []).append(n)
    return out

def yuv_anchors(ck, tier):
    builds = ('K1',) if tier == 'quick' else ('K1', 'K2')
    ctxs = {b: Ctx(b) for b in builds}
    DERIVED = ['Identity', 'BT2020ConstantLuminance', 'ST2085', 'ChromaticityDerivedConstantLuminance', 'ICtCp', 'ChromaticityDerivedNonConstantLuminance']
    cfgs = [(b, m, full, bd, T, 'BT709') for b, m, full, bd, T in configs(tier, builds)]
    prims = ['BT709', 'BT2020', 'BT470M'] if tier == 'quick' else [p for p in STD_PRIMS if p != 'ST428']
    for b in builds:
        for m in DERIVED:
            for p in prims:
                for full in (False, True):
                    for bd, T in ((8, 'u8'), (10, 'u16')) if tier == 'quick' else ((8, 'u8'), (8, 'u16'), (10, 'u16'), (12, 'u16'), (16, 'u16')):
                        cfgs.append((b, m, full, bd, T, p))
    for b, m, full, bd, T, prim in cfgs:
        ctx = ctxs[b]
        base = f"C16/yuv/{m}/{'full' if full else 'limited'}/{bd}/{T}/{b}" + ('' if prim == 'BT709' else f"/{prim}")
        set_plane_ranges(T, bd)
        try:
            it, outs = decode_kernel(ctx, T, ctx.yuv_config(m=m, bd=bd, full=full, p=prim))
            if m in DERIVED and len(outs) == 1 and not is_ok(ctx.crate, outs[0][1]):
                continue        # unsupported combination (C14): nothing is decoded
            if len(outs) != 1 or not is_ok(ctx.crate, outs[0][1]):
                ck.ob(base, 'REFUTED', 'decode does not succeed' + describe_panics(it)); continue
            st, res = outs[0]
            obj, buf = vec_buf(st, field(ctx.crate, res.fields[0], 'data'))
            k, val, R = element_kernel(it, st, obj)
            ck.count('yuv_kernels')
            comps = val.fields
            lp = loads_by_plane(comps[0]); 
            for c in comps[1:]:
                for j, ns in loads_by_plane(c).items(): lp.setdefault(j, []).extend(ns)
            sty = lambda n: n.ty
            mid = 1 << (bd - 1)
            neutral = {n.id: X.const(n.ty, mid) for j in (1, 2) for n in lp.get(j, [])}
            grey = [X.substitute(c, neutral) for c in comps]
            # spread over the whole luma axis
            ans = []
            for c in grey:
                an = Analyzer(); an.elide_clamp = False
                ans.append((an, an.ev(c)))
            def lin(an, a):
                ats = list(a.p.atoms())
                if a.p.degree() > 1 or len(ats) > 1:
                    raise Unsupported('grey-axis kernel is not affine in one clamped luma sample')
                return (a.p.coef(ats[0]) if ats else Fr(0)), a.p.constant(), a.err
            ls = [lin(an, a) for an, a in ans]
            spread = max(abs(ls[i][0] - ls[j][0]) + abs(ls[i][1] - ls[j][1]) + ls[i][2] + ls[j][2] for i in range(3) for j in range(i))
            ck.ob(base + '/neutral', 'PROVED' if spread <= Fr(5, 10 ** 7) else ('REFUTED' if max(abs(ls[i][1] - ls[j][1]) for i in range(3) for j in range(i)) - sum(l[2] for l in ls) > Fr(5, 10 ** 7) else 'UNDECIDED'),
                  f"chroma codes {mid}: R,G,B spread <= {float(spread):.3g} over the whole luma axis (constant parts {[float(l[1]) for l in ls]})")
            # black and white
            black = 0 if full else 16 << (bd - 8)
            white = (1 << bd) - 1 if full else 235 << (bd - 8)
            for name, code, want, tol in (('black', black, 0.0, 0.0), ('white', white, 1.0, 1e-6)):
                mp = dict(neutral)
                for n in lp.get(0, []): mp[n.id] = X.const(n.ty, code)
                vals = [fold(c, mp) for c in comps]
                if not all(v.is_const for v in vals):
                    ck.ob(f"{base}/{name}", 'UNDECIDED', 'kernel does not fold to constants'); continue
                dev = max(abs(v.val - want) for v in vals)
                ck.ob(f"{base}/{name}", 'PROVED' if dev <= tol else 'REFUTED',
                      f"nominal {name} code {code} with neutral chroma decodes to {[v.val for v in vals]}")
        except Unsupported as ex:
            ck.ob(base, 'UNDECIDED', f"analysis lost: {ex}")

def curve_kernel(ctx, t, direction):
    """scalar kernel of one transfer direction (primaries BT709 = working space: no primaries step)"""
    conv = 'Rgb->LinearRgb' if direction == 'to_linear' else 'LinearRgb->Rgb'
    it, outs = run_conversion(ctx, conv, 'u16', 'BT709', t, 'BT709')
    oks = [(s, v) for s, v in outs if is_ok(ctx.crate, v)]
    if len(oks) != 1:
        raise Unsupported(f"{conv} with {t} does not yield one Ok outcome")
    s, v = oks[0]
    obj, buf = vec_buf(s, field(ctx.crate, v.fields[0], 'data'))
    k, val, R = element_kernel(it, s, obj)
    e = val.fields[0]
    atoms = [n for n in X.walk(e) if n.op == 'load']
    if len(atoms) != 1:
        raise Unsupported(f"curve kernel reads {len(atoms)} inputs")
    return e, atoms[0]

def curve_anchors(ck, tier, builds=('K1',)):
    for b in builds:
        ctx = Ctx(b)
        for t in STD_CURVES:
            for direction in ('to_linear', 'to_gamma'):
                base = f"C16/curve/{t}/{direction}/{b}"
                try:
                    e, x = curve_kernel(ctx, t, direction)
                    ck.count('curve_kernels')
                    budget1 = 5.7e-4 if (t == 'PerceptualQuantizer' and direction == 'to_gamma') else 2.5e-4
                    f0 = fold(e, {x.id: X.const(x.ty, 0.0)}, ctx.crate)
                    f1 = fold(e, {x.id: X.const(x.ty, 1.0)}, ctx.crate)
                    if not (f0.is_const and f1.is_const):
                        ck.ob(base, 'UNDECIDED', 'curve does not fold to a constant at the anchors'); continue
                    if not t.startswith('Logarithmic'):
                        ck.ob(base + '/zero', 'PROVED' if abs(f0.val) <= 1e-6 else 'REFUTED', f"{t} {direction}(0) = {f0.val!r}")
                        ck.ob(base + '/one', 'PROVED' if abs(f1.val - 1.0) <= budget1 else 'REFUTED', f"{t} {direction}(1) = {f1.val!r} (budget {budget1})")
                    else:
                        ck.ob(base + '/one', 'PROVED' if abs(f1.val - 1.0) <= budget1 else 'REFUTED', f"{t} {direction}(1) = {f1.val!r}")
                except Unsupported as ex:
                    ck.ob(base, 'UNDECIDED', f"analysis lost: {ex}")

def primaries_greys(ck, tier, builds=('K1',)):
    for b in builds:
        ctx = Ctx(b)
        for p in STD_PRIMS:
            for conv in ('Rgb->LinearRgb', 'LinearRgb->Rgb'):
                base = f"C16/primaries/{p}/{conv}/{b}"
                try:
                    it, outs = run_conversion(ctx, conv, 'u16', 'BT709', 'Linear', p)
                    oks = [(s, v) for s, v in outs if is_ok(ctx.crate, v)]
                    s, v = oks[0]
                    obj, buf = vec_buf(s, field(ctx.crate, v.fields[0], 'data'))
                    k, val, R = element_kernel(it, s, obj)
                    ck.count('primaries_kernels')
                    rows = []
                    for c in val.fields:
                        an = Analyzer(atom_range=lambda n: (Fr(0), Fr(1)))
                        a = an.ev(c)
                        if a.p.degree() > 1: raise Unsupported('primaries kernel not linear')
                        rows.append((sum(a.p.coef(x) for x in a.p.atoms()), a.err, a.p.constant()))
                    dev = max(abs(r[0] - 1) + r[1] + abs(r[2]) for r in rows)
                    ck.ob(base, 'PROVED' if dev <= Fr(1, 10 ** 5) else ('REFUTED' if max(abs(r[0] - 1) for r in rows) - max(r[1] for r in rows) > Fr(1, 10 ** 5) else 'UNDECIDED'),
                          f"grey g -> g*(row sums {[float(r[0]) for r in rows]}): deviation from grey <= {float(dev):.3g}")
                except Unsupported as ex:
                    ck.ob(base, 'UNDECIDED', f"analysis lost: {ex}")

def run(tier):
    ck = Check('C16', tier, 'proof', 'constant propagation of the anchor values through the kernels extracted from MIR; affine/error analysis along the grey axis')
    yuv_anchors(ck, tier)
    curve_anchors(ck, tier)
    primaries_greys(ck, tier)
    from .xyb import xyb_grey, hsl_grey
    xyb_grey(ck, tier)
    hsl_grey(ck, tier)
    ck.floor('yuv_kernels', 56 if tier == 'quick' else 280)
    ck.floor('curve_kernels', 28)
    ck.floor('primaries_kernels', 22)
    ck.assumptions += ['A-libm: std ln/log10 within 1 ulp (log and HLG curves)', 'A-cbrt: yuvxyb_math::cbrtf within 1 ulp on normal arguments (XYB clauses)']
    return ck.finish()
