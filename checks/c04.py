"""C04 - linear RGB -> XYB equals the JPEG XL opsin definition (given A-cbrt)."""
from engine.check import Check
from engine.values import Unsupported
from .common import *
from .xyb import check_c04

def run(tier):
    ck = Check('C04', tier, 'proof', 'abstract interpretation of MIR (cbrtf kept as an application); exact rational comparison of the extracted opsin rows with libjxl; relative-error analysis of the non-negative mixes; Lipschitz bound of the cube root')
    for b in ('K1', 'K2'):          # default and FMA build (the opsin code has its own fused multiply-adds)
        try:
            check_c04(ck, Ctx(b), b, tier)
        except Unsupported as ex:
            ck.ob(f"C04/{b}", 'UNDECIDED', f"analysis lost: {ex}")
    ck.floor('kernels', 2)
    ck.assumptions += ['A-cbrt: yuvxyb_math::cbrtf is within 1 ulp of the cube root on normal arguments (the accuracy clause of C18)']
    return ck.finish()
