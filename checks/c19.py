"""C19 - the 3x3 matrix/vector algebra agrees with its mathematical definition.

Every public method of Matrix<T>, RowVector<T>, ColVector<T> (T = f32, f64; FMA and
non-FMA builds) is interpreted on MIR with symbolic entries in [-2,2]; each result
component's exact real polynomial (computed by the affine/polynomial domain) must be
*identical* to the textbook polynomial, and the accumulated rounding bound must stay below
1e-5.  invert() is decided algebraically: numerators = adjugate, common denominator =
determinant, hence A*inv(A) = I over the reals; the 1e-4 floating-point clause for
|det| >= 0.5 is decided by a two-stage running-error analysis (invert_accuracy below)."""
from __future__ import annotations
from fractions import Fraction as Fr
from engine.check import Check
from engine.values import Unsupported
from engine.fbound import Analyzer, Poly
from .common import *

def sym_vec(ctx, T, kind, name):
    ty = X.F32 if T == 'f32' else X.F64
    tid = find_type(ctx.crate, f'matrix::{kind}<{T}>')
    atoms = [X.sym(ty, f'{name}{i}') for i in range(3)]
    return Agg('struct', tid, atoms), atoms

def sym_mat(ctx, T, name):
    tid = find_type(ctx.crate, f'matrix::Matrix<{T}>')
    rows, atoms = [], []
    for i in range(3):
        r, a = sym_vec(ctx, T, 'RowVector', f'{name}{i}')
        rows.append(r); atoms.append(a)
    return Agg('struct', tid, rows), atoms

def call(ctx, key, args):
    it = ctx.interp(); st = State()
    real = []
    for a in args:
        if isinstance(a, tuple) and a[0] == 'ref':
            real.append(Ptr(st.alloc(a[1]), ()))
        else:
            real.append(a)
    outs = it.call_fn(st, key, real)
    if len(outs) != 1:
        raise Unsupported(f"{key}: {len(outs)} outcomes")
    return outs[0][1]

def flat(v):
    if isinstance(v, X.E): return [v]
    out = []
    for f in v.fields: out += flat(f)
    return out

def P(a): return Poly.atom(a.id)

INV_BUDGET = Fr(1, 10 ** 4)

def invert_accuracy(ck, key, ty, inv, divisors, mm, ma, na):
    """|A*invert(A) - I| and |invert(A)*A - I| <= 1e-4 in floating point for entries in [-2,2] and |det A| >= 0.5.

    A per-entry error propagation through adj/det loses the fact that the error of the computed determinant is common to
    all nine entries (it would give ~2e-3).  Two stages keep it:
      1. the divisor node d of invert (one node, used by all nine divisions) has the exact polynomial +-det(A) and an
         a-priori running-error bound e_d; so its computed value d_c satisfies |d_c| >= 1/2 - e_d;
      2. with q := 1/d_c (a real number, |q| <= 1/(1/2 - e_d)) every RN(x / d_c) is RN(x * q): the products
         mul_mat(A, invert(A)) and mul_mat(invert(A), A) become polynomial expressions in the entries and q, whose exact
         polynomial must be  q * d(A) * delta_ij  (identity of polynomials) and whose running-error bound is E_ij.
    Then |P_ij - delta_ij| <= E_ij + delta_ij * |d(A)/d_c - 1| <= E_ij + delta_ij * e_d / (1/2 - e_d)."""
    if len({d.id for d in divisors}) != 1:
        ck.ob(key, 'UNDECIDED', f"invert divides by {len(divisors)} different nodes: the common-denominator argument does not apply"); return
    d = divisors[0]
    rng2 = lambda n: (Fr(-2), Fr(2))
    an1 = Analyzer(atom_range=rng2)
    dv = an1.ev(d)
    A = [[P(ma[i][j]) for j in range(3)] for i in range(3)]
    det = (A[0][0] * (A[1][1] * A[2][2] - A[1][2] * A[2][1]) - A[0][1] * (A[1][0] * A[2][2] - A[1][2] * A[2][0])
           + A[0][2] * (A[1][0] * A[2][1] - A[1][1] * A[2][0]))
    if dv.p != det and dv.p != det.scale(-1):
        ck.ob(key, 'UNDECIDED', f"the divisor of invert is not +-det(A) as a polynomial ({dv.p})"); return
    e_d = dv.err
    dmin = Fr(1, 2) - e_d
    if dmin <= 0:
        ck.ob(key, 'UNDECIDED', f"rounding bound of the determinant {float(e_d):.3g} reaches 1/2"); return
    Q = 1 / dmin
    q = X.sym(ty, 'recip_of_computed_det')
    mapping = {}
    for c in inv:
        for nd in X.walk(c):
            if nd.op == 'fdiv' and nd.args[1] is d:
                mapping[nd.id] = X.binop('mul', nd.args[0], q)
    inv_q = [X.substitute(c, mapping) for c in inv]
    if any(nd.op == 'fdiv' for c in inv_q for nd in X.walk(c)):
        ck.ob(key, 'UNDECIDED', 'a division remains after replacing x / det by x * (1/det)'); return
    rng = lambda n: (-Q, Q) if n is q else (Fr(-2), Fr(2))
    sides = {
        'A*inv': {na[i][j].id: inv_q[i * 3 + j] for i in range(3) for j in range(3)},
        'inv*A': dict([(ma[i][j].id, inv_q[i * 3 + j]) for i in range(3) for j in range(3)] + [(na[i][j].id, ma[i][j]) for i in range(3) for j in range(3)]),
    }
    tail = e_d / dmin
    for side, sub in sides.items():
        an = Analyzer(atom_range=rng)
        worst = Fr(0); where = None
        bad = None
        for i in range(3):
            for j in range(3):
                r = an.ev(X.substitute(mm[i * 3 + j], sub))
                want = (Poly.atom(q.id) * dv.p) if i == j else Poly()
                if r.p != want:
                    bad = f"entry ({i},{j}) of {side} has the exact polynomial {str(r.p)[:120]} instead of {'q*det' if i == j else '0'}"
                    break
                tot = r.err + (tail if i == j else 0)
                if tot > worst: worst, where = tot, (i, j)
            if bad: break
        if bad:
            ck.ob(f"{key}/{side}", 'REFUTED', bad)
        else:
            ck.ob(f"{key}/{side}", 'PROVED' if worst <= INV_BUDGET else 'UNDECIDED',
                  f"|{side} - I| <= {float(worst):.3g} {'<=' if worst <= INV_BUDGET else '>'} 1e-4 for entries in [-2,2], |det| >= 1/2 (worst entry {where}; determinant rounding {float(e_d):.3g}, common-denominator term {float(tail):.3g})")
        ck.count('invert_products')

def run(tier):
    ck = Check('C19', tier, 'proof', 'abstract interpretation of MIR with symbolic entries; exact polynomial identity with the textbook definition + a-priori rounding bound; algebraic identity adj(A)/det(A) for invert')
    BUD = Fr(1, 10 ** 5)
    polys = {}
    for b in ('K1', 'K2'):          # FMA and non-FMA builds (cheap: the math crate only)
        ctx = Ctx(b, 'yuvxyb_math')
        for T in ('f32', 'f64'):
            rng = lambda n: (Fr(-2), Fr(2))
            M, ma = sym_mat(ctx, T, 'a'); N, na = sym_mat(ctx, T, 'b')
            rv, ra = sym_vec(ctx, T, 'RowVector', 'u'); rw, wa = sym_vec(ctx, T, 'RowVector', 'w')
            cv, ca = sym_vec(ctx, T, 'ColVector', 'c')
            ty = X.F32 if T == 'f32' else X.F64
            arr_t = find_type(ctx.crate, f'[{T}; 3]')
            arr_atoms = [X.sym(ty, f'v{i}') for i in range(3)]
            arr = Agg('array', arr_t, arr_atoms)
            s = X.sym(ty, 'scalar')
            def expect_polys(name, got, want, tag=''):
                key = f"C19/{name}/{T}/{b}{tag}"
                an = Analyzer(atom_range=rng)
                comps = flat(got)
                if len(comps) != len(want):
                    ck.ob(key, 'REFUTED', f"{name} returns {len(comps)} components, expected {len(want)}"); return
                worst = Fr(0)
                for i, (e, w) in enumerate(zip(comps, want)):
                    a = an.ev(e)
                    if a.p != w:
                        ck.ob(key, 'REFUTED', f"component {i} of {name} computes {a.p} instead of {w} (atoms: a<row><col>, b.., u, w, c, v)"); return
                    worst = max(worst, a.err)
                polys[(name, tag)] = polys.get((name, tag), set()) | {tuple(str(w) for w in want)}
                ck.ob(key, 'PROVED' if worst <= BUD else 'UNDECIDED', f"exact polynomial identity; rounding <= {float(worst):.3g}")
                ck.count('methods')
            K = lambda n: f'matrix::{n}'
            try:
                r = call(ctx, K(f'Matrix::<{T}>::mul_vec'), [('ref', M), ('ref', cv)])
                expect_polys('mul_vec', r, [sum((P(ma[i][j]) * P(ca[j]) for j in range(3)), Poly()) for i in range(3)])
                r = call(ctx, K(f'Matrix::<{T}>::mul_arr'), [('ref', M), arr])
                expect_polys('mul_arr', r, [sum((P(ma[i][j]) * P(arr_atoms[j]) for j in range(3)), Poly()) for i in range(3)])
                r = call(ctx, K(f'Matrix::<{T}>::mul_mat'), [('ref', M), N])
                expect_polys('mul_mat', r, [sum((P(ma[i][k]) * P(na[k][j]) for k in range(3)), Poly()) for i in range(3) for j in range(3)])
                r = call(ctx, K(f'Matrix::<{T}>::transpose'), [M])
                comps = flat(r)
                okT = all(comps[i * 3 + j] is ma[j][i] for i in range(3) for j in range(3))
                ck.ob(f"C19/transpose/{T}/{b}", 'PROVED' if okT else 'REFUTED', 'transpose moves entry (i,j) to (j,i) exactly (hence an exact involution)' if okT else f"transpose returns {[str(c) for c in comps]}")
                r = call(ctx, K(f'RowVector::<{T}>::cross'), [('ref', rv), ('ref', rw)])
                u, w = ra, wa
                expect_polys('cross', r, [P(u[1]) * P(w[2]) - P(u[2]) * P(w[1]), P(u[2]) * P(w[0]) - P(u[0]) * P(w[2]), P(u[0]) * P(w[1]) - P(u[1]) * P(w[0])])
                r = call(ctx, K(f'RowVector::<{T}>::dot'), [('ref', rv), ('ref', rw)])
                expect_polys('dot', r, [sum((P(u[i]) * P(w[i]) for i in range(3)), Poly())])
                r = call(ctx, K(f'RowVector::<{T}>::component_mul'), [('ref', rv), ('ref', rw)])
                expect_polys('component_mul', r, [P(u[i]) * P(w[i]) for i in range(3)])
                r = call(ctx, K(f'RowVector::<{T}>::scalar_div'), [('ref', rv), s])
                comps = flat(r)
                okd = all(c.op == 'fdiv' and c.args[0] is u[i] and c.args[1] is s for i, c in enumerate(comps)) and len(comps) == 3
                ck.ob(f"C19/scalar_div/{T}/{b}", 'PROVED' if okd else 'REFUTED', 'each component is the correctly rounded quotient entry / scalar' if okd else f"scalar_div computes {[str(c) for c in comps]}")
                r = call(ctx, K(f'Matrix::<{T}>::scalar_div'), [('ref', M), s])
                comps = flat(r)
                okd = len(comps) == 9 and all(comps[i * 3 + j].op == 'fdiv' and comps[i * 3 + j].args[0] is ma[i][j] and comps[i * 3 + j].args[1] is s for i in range(3) for j in range(3))
                ck.ob(f"C19/matrix_scalar_div/{T}/{b}", 'PROVED' if okd else 'REFUTED', 'element-wise quotient' if okd else 'Matrix::scalar_div is not the element-wise quotient')
                ident = call(ctx, K(f'Matrix::<{T}>::identity'), [])
                comps = flat(ident)
                oki = all(c.is_const and c.val == (1.0 if i // 3 == i % 3 else 0.0) for i, c in enumerate(comps))
                ck.ob(f"C19/identity/{T}/{b}", 'PROVED' if oki else 'REFUTED', 'identity() is the unit matrix' if oki else f"identity() = {[str(c) for c in comps]}")
                r = call(ctx, K(f'Matrix::<{T}>::mul_mat'), [('ref', ident), M])
                expect_polys('mul_mat', r, [P(ma[i][j]) for i in range(3) for j in range(3)], tag='/identity-left')
                r = call(ctx, K(f'Matrix::<{T}>::mul_mat'), [('ref', M), ident])
                expect_polys('mul_mat', r, [P(ma[i][j]) for i in range(3) for j in range(3)], tag='/identity-right')
                # invert: adj / det
                r = call(ctx, K(f'Matrix::<{T}>::invert'), [('ref', M)])
                comps = flat(r)
                key = f"C19/invert/{T}/{b}"
                import sympy as sp
                syms = {}
                def to_sp(e):
                    if e.op == 'const': return sp.Rational(Fr(e.val).numerator, Fr(e.val).denominator)
                    if e.op == 'sym': return syms.setdefault(e.args[0], sp.Symbol(e.args[0]))
                    a = [to_sp(x) for x in e.args]
                    if e.op == 'fadd': return a[0] + a[1]
                    if e.op == 'fsub': return a[0] - a[1]
                    if e.op == 'fmul': return a[0] * a[1]
                    if e.op == 'fdiv': return a[0] / a[1]
                    if e.op == 'fneg': return -a[0]
                    if e.op == 'fma': return a[0] * a[1] + a[2]
                    raise Unsupported(f"invert uses {e.op}")
                if len(comps) != 9:
                    ck.ob(key, 'REFUTED', 'invert does not return nine entries'); continue
                inv = sp.Matrix(3, 3, [sp.cancel(to_sp(c)) for c in comps])
                Asp = sp.Matrix(3, 3, [syms.setdefault(ma[i][j].args[0], sp.Symbol(ma[i][j].args[0])) for i in range(3) for j in range(3)])
                left = (Asp * inv - sp.eye(3)).applyfunc(sp.cancel)
                right = (inv * Asp - sp.eye(3)).applyfunc(sp.cancel)
                ident_ok = all(x == 0 for x in left) and all(x == 0 for x in right)
                det = sp.expand(Asp.det())
                dens_ok = True
                bad_den = None
                # every division executed on the way (not only the simplified result) must have a
                # divisor that vanishes only where det(A) does
                divisors = {}
                for c in comps:
                    for nd in X.walk(c):
                        if nd.op == 'fdiv':
                            divisors[nd.args[1].id] = nd.args[1]
                for dnode in divisors.values():
                    dn = sp.fraction(sp.cancel(to_sp(dnode)))[0]
                    q = sp.cancel(det ** 6 / dn)
                    if sp.fraction(q)[1] != 1:
                        dens_ok = False; bad_den = sp.factor(dn)
                if ident_ok and dens_ok:
                    ck.ob(key, 'PROVED', 'A*invert(A) = invert(A)*A = I as rational-function identities; every denominator divides a power of det(A) (defined wherever det != 0)')
                elif not ident_ok:
                    ck.ob(key, 'REFUTED', f"invert(A) is not the inverse of A as a rational function: A*inv - I = {list(left)[:3]}...")
                else:
                    ck.ob(key, 'REFUTED', f"invert(A) is undefined (division by zero) for matrices with det(A) != 0: an entry has the denominator {bad_den}")
                ck.count('methods')
                if ident_ok and dens_ok:
                    mm = flat(call(ctx, K(f'Matrix::<{T}>::mul_mat'), [('ref', M), N]))
                    invert_accuracy(ck, f"C19/invert_accuracy/{T}/{b}", ty, comps, list(divisors.values()), mm, ma, na)
            except Unsupported as ex:
                ck.ob(f"C19/analysis/{T}/{b}", 'UNDECIDED', f"analysis lost: {ex}")
    ck.floor('methods', 36)
    ck.floor('invert_products', 8)
    return ck.finish()
