"""C17 - HSL conversion follows the hexcone model, stays in range and round-trips
(formula level, per ordering cell).

The two per-pixel kernels are extracted from MIR.  On each of the 6 strict orderings of
(r,g,b) x {L < 1/2, L > 1/2} the branch structure (max/min selection, sextant tests,
epsilon guards, h' % 2) is constant; it is resolved by exact rational evaluation at one
interior point of the cell, which yields the rational function the code computes on that
cell.  sympy then decides, as identities of rational functions: (H,S,L) = hexcone
definition, hsl_to_lrgb(lrgb_to_hsl(p)) = p; the hue range follows from linear
inequalities checked at the vertices of the ordering simplex.  The documentation clause
(L=0 black, L=1 white) is decided by exact folding.  NOT decided: the rounding tolerances
(1e-6, 1e-4, 0.01 deg, 1e-5), S <= 1 under rounding, and the epsilon slivers around ties."""
from __future__ import annotations
from fractions import Fraction as Fr
import itertools
import sympy as sp
from engine.check import Check
from engine.values import Unsupported
from engine.simplify import fold, simplify_finite
from .common import *
from .conv import *
from .xyb import pixel_atoms

def kernel(ctx, conv, name):
    it, marks, results = run_validated(ctx, conv, 'u16', 'BT709', 'BT1886', 'BT709', bd=10)
    s, v = results[0][0]
    obj, buf = vec_buf(s, field(ctx.crate, v, 'data'))
    k, val, R = element_kernel(it, s, obj)
    return val, pixel_atoms(val, name)

def resolve_at(e, point, syms):
    """(sympy expression valid on the cell of `point`, exact value at point)"""
    cache = {}
    def rec(n):
        if n.id in cache: return cache[n.id]
        op = n.op
        if n.id in point:
            r = (syms[n.id], point[n.id])
        elif op == 'const':
            v = Fr(n.val); r = (sp.Rational(v.numerator, v.denominator), v)
        elif op in ('fadd', 'fsub', 'fmul', 'fdiv'):
            (ea, va), (eb, vb) = rec(n.args[0]), rec(n.args[1])
            if op == 'fadd': r = (ea + eb, va + vb)
            elif op == 'fsub': r = (ea - eb, va - vb)
            elif op == 'fmul': r = (ea * eb, va * vb)
            else:
                if vb == 0: raise Unsupported('division by zero at the sample point')
                r = (ea / eb, va / vb)
        elif op == 'fneg':
            ea, va = rec(n.args[0]); r = (-ea, -va)
        elif op == 'fma':
            (ea, va), (eb, vb), (ec, vc) = rec(n.args[0]), rec(n.args[1]), rec(n.args[2])
            r = (ea * eb + ec, va * vb + vc)
        elif op == 'call:abs':
            ea, va = rec(n.args[0])
            if va == 0:
                if sp.simplify(ea) != 0: raise Unsupported('|0| at the sample point (not generic)')
                r = (sp.Integer(0), Fr(0))
            else:
                r = (ea, va) if va > 0 else (-ea, -va)
        elif op in ('call:max', 'call:min'):
            (ea, va), (eb, vb) = rec(n.args[0]), rec(n.args[1])
            if va == vb: raise Unsupported('tie at the sample point (not generic)')
            pick_a = (va > vb) if op == 'call:max' else (va < vb)
            r = (ea, va) if pick_a else (eb, vb)
        elif op == 'frem':
            (ea, va), (eb, vb) = rec(n.args[0]), rec(n.args[1])
            if not n.args[1].is_const or vb <= 0 or va < 0: raise Unsupported('remainder')
            k = va // vb
            if va == k * vb: raise Unsupported('remainder boundary at the sample point')
            r = (ea - k * eb, va - k * vb)
        elif op == 'select':
            c = cond(n.args[0])
            r = rec(n.args[1]) if c else rec(n.args[2])
        else:
            raise Unsupported(f"per-cell resolution of {op}")
        cache[n.id] = r
        return r
    def cond(c):
        if c.is_const: return bool(c.val)
        if c.op == 'bnot': return not cond(c.args[0])
        if c.op == 'band': return cond(c.args[0]) and cond(c.args[1])
        if c.op == 'bor': return cond(c.args[0]) or cond(c.args[1])
        if c.op in ('lt', 'le', 'gt', 'ge'):
            a, b = rec(c.args[0])[1], rec(c.args[1])[1]
            if a == b: raise Unsupported('comparison tie at the sample point (not generic)')
            return {'lt': a < b, 'le': a <= b, 'gt': a > b, 'ge': a >= b}[c.op]
        raise Unsupported(f"condition {c.op}")
    return rec(e)

def simplex_vertices(order):
    """vertices of {1 >= x_order[0] >= x_order[1] >= x_order[2] >= 0}"""
    vs = []
    for k in range(4):
        p = [0, 0, 0]
        for i in range(k): p[order[i]] = 1
        vs.append(tuple(p))
    return vs

def _tree(n, op, atoms):
    """n is a nest of `op` calls whose leaves are exactly the given atoms"""
    leaves = []
    def go(m):
        if m.op == op:
            go(m.args[0]); go(m.args[1])
        else:
            leaves.append(m)
    go(n)
    return n.op == op and len(leaves) == len(atoms) and {l.id for l in leaves} == {a.id for a in atoms}

def implementation_ranges(ck, ctx, fwd, fa):
    """H in [0,360), S in [0,1], L in [0,1] for the values the binary32 code computes on all of [0,1]^3
    (direct enclosures of the computed values; three monotonicity-of-rounding lemmas, stated below)"""
    from engine import realerr
    from engine.ival import I
    atoms = [fa[i] for i in sorted(fa)] if isinstance(fa, dict) else list(fa)
    def lemmas(n):
        # (Q) |fl(a - b)| <= fl(max - min) for inputs a, b of the pixel, hence |fl(a-b) / fl(max-min)| <= 1 (rounding is monotone)
        if n.op == 'fdiv' and n.args[0].op == 'fsub' and n.args[1].op == 'fsub':
            a, b = n.args[0].args; mx, mn = n.args[1].args
            if a.id in {x.id for x in atoms} and b.id in {x.id for x in atoms} and _tree(mx, 'call:max', atoms) and _tree(mn, 'call:min', atoms):
                return I(-1.0, 1.0)
        # (M) fl(fl(max + min)/2) <= max because max + min <= 2 max and rounding is monotone: max - l >= 0
        if n.op == 'fsub' and n.args[1].op == 'fdiv' and n.args[1].args[1].is_const and n.args[1].args[1].val == 2.0:
            mx = n.args[0]; sm = n.args[1].args[0]
            if sm.op == 'fadd' and sm.args[0] is mx and _tree(mx, 'call:max', atoms) and _tree(sm.args[1], 'call:min', atoms):
                return I(0.0, float('inf'))
        # (N) fl(max - min) >= 0: max >= min over the same three inputs and rounding is monotone (fl(0) = 0)
        if n.op == 'fsub' and _tree(n.args[0], 'call:max', atoms) and _tree(n.args[1], 'call:min', atoms):
            return I(0.0, float('inf'))
        return None
    env = {a.id: I(0.0, 1.0) for a in atoms}
    names = ['H', 'S', 'L']
    want = {'H': (0.0, 360.0, True), 'S': (0.0, 1.0, False), 'L': (0.0, 1.0, False)}
    for nm, e in zip(names, fwd.fields):
        key = f"C17/computed-range/{nm}"
        try:
            V, E, R = realerr.errprop(e, env, None, lemmas, total=True)
        except (Unsupported, ZeroDivisionError) as ex:
            ck.ob(key, 'UNDECIDED', f"range of the computed {nm} not established: {ex}"); continue
        lo, hi, strict = want[nm]
        ok = (lo is None or R.lo >= lo) and (R.hi < hi if strict else R.hi <= hi)
        if ok:
            ck.ob(key, 'PROVED', f"computed {nm} lies in [{R.lo:.6g}, {R.hi:.9g}] for every pixel of [0,1]^3" + (' (the two epsilon guards on L keep the computed denominator 1 - |2L - 1| >= 2^-22; the numerator is >= 0 by lemma M)' if nm == 'S' else ''))
        else:
            w = range_witness(ctx, e, atoms, lo, hi, strict) 
            ck.ob(key, 'REFUTED' if w else 'UNDECIDED',
                  (f"the pixel {w[0]} gives {nm} = {w[1]!r}, outside the documented range" if w else f"enclosure [{R.lo:.6g}, {R.hi:.9g}] of the computed {nm} is not inside the documented range"))
    ck.count('range_obligations', 3)
    # tolerances of the computed L and S against the hexcone values (the ideal reading of the same kernel, which the
    # per-cell identities above show to BE the hexcone definition): sup |computed - ideal| over the clause's region
    def find_l():
        for n in X.walk(fwd.fields[2]):
            if n.op == 'fdiv' and n.args[1].is_const and n.args[1].val == 2.0 and n.args[0].op == 'fadd' and _tree(n.args[0].args[0], 'call:max', atoms) and _tree(n.args[0].args[1], 'call:min', atoms):
                return n
        return None
    lnode = find_l()
    if lnode is None:
        ck.ob('C17/tolerance', 'UNDECIDED', 'L is not (max + min) / 2 in the extracted kernel'); return
    box = [(0.0, 1.0)] * 3
    up_l, n_l, _, msg = realerr.sup_error_nd(fwd.fields[2], atoms, None, box, 2e-7, max_boxes=200, lemmas=lemmas)
    ck.ob('C17/tolerance/L', 'PROVED' if up_l <= 1e-6 else 'UNDECIDED', f"|computed L - (max+min)/2| <= {up_l:.3g} <= 1e-6 on [0,1]^3" if up_l <= 1e-6 else f"bound {up_l:.3g} ({msg})")
    def region_lemmas(n):
        if n is lnode:
            return I(0.01 - 1e-6, 0.99 + 1e-6)            # the clause's region 0.01 <= L <= 0.99 (computed L within 1e-6 of it)
        return lemmas(n)
    def feasible(env):
        V = realerr.errprop(lnode, env, None, lemmas)[0]
        return not (V.hi < 0.01 or V.lo > 0.99)
    up_s, n_s, wbox, msg = realerr.sup_error_nd(fwd.fields[1], atoms, None, box, 5e-5, max_boxes=40000, lemmas=region_lemmas, feasible=feasible)
    ck.ob('C17/tolerance/S', 'PROVED' if up_s <= 1e-4 else 'UNDECIDED',
          f"|computed S - hexcone S| <= {up_s:.3g} <= 1e-4 wherever 0.01 <= L <= 0.99 ({n_s} boxes)" if up_s <= 1e-4 else f"bound {up_s:.3g} after {n_s} boxes, worst box {wbox} ({msg})")
    ck.count('tolerance_boxes', n_l + n_s)
    hue = None
    try:
        hue = hue_tolerance(ck, ctx, fwd, atoms, lemmas)
    except Unsupported as ex:
        ck.ob('C17/tolerance/H', 'UNDECIDED', f"hue kernel not of the expected shape: {ex}")
    return dict(atoms=atoms, lemmas=lemmas, lnode=lnode, A1=up_l, hue=hue)

def hue_tolerance(ck, ctx, fwd, atoms, lemmas):
    """|computed H - hexcone H| <= 0.01 degrees (as angles) wherever max - min >= 0.01.
    The kernel is  c < eps ? 0 : |v-r| < eps ? W(Hr) : |v-g| < eps ? W(Hg) : W(Hb),  W the wrap into [0,360).
    (1) rounding error of each sextant formula Hr, Hg, Hb on {max - min >= 0.01} by error propagation;
    (2) where the epsilon test selects the formula of a channel that is within eps of the maximum but is not the
        maximum, the two formulas differ by (x_taken - max) * K / (max - min) exactly (sympy), i.e. by <= eps K / 0.01;
    (3) the wrap adds 360 (one rounding of a value below 360) and maps 360 to 0: the same angle."""
    from engine import realerr
    from engine.ival import I
    EPS = 2.0 ** -23
    top = fwd.fields[0]
    def unwrap(W):
        if W.op == 'select' and W.args[0].op == 'lt' and W.args[0].args[1].is_const and W.args[0].args[1].val == 0.0 and W.args[2] is W.args[0].args[0]:
            inner = W.args[1]
            h = W.args[2]
            ok = inner.op == 'select' and inner.args[0].op == 'lt' and inner.args[0].args[1].is_const and inner.args[0].args[1].val == 360.0 and inner.args[1] is inner.args[0].args[0] \
                and inner.args[1].op == 'fadd' and inner.args[1].args[0] is h and inner.args[1].args[1].is_const and inner.args[1].args[1].val == 360.0 and inner.args[2].is_const and inner.args[2].val == 0.0
            if ok: return h
        raise Unsupported('hue wrap is not  h < 0 ? (h + 360 < 360 ? h + 360 : 0) : h')
    def eps_test(c):
        if c.op in ('lt', 'le') and c.args[1].is_const and 0 < float(c.args[1].val) < 0.1 and c.args[0].op == 'call:abs' and c.args[0].args[0].op == 'fsub':
            return c.args[0].args[0].args + (float(c.args[1].val),)
        raise Unsupported('sextant test is not |a - b| < constant')
    # two shapes of the same kernel: the wrap applied to the whole selection  W(c < eps ? 0 : ...)  (the source's shape) or
    # distributed over its branches  c < eps ? 0 : |v-r| < eps ? W(Hr) : ...  (what the interpreter produced while forks
    # inside the chain were merged late); W(0) = 0 and W commutes with the selection, so both denote the same function
    outer_wrap = False
    try:
        inner_ = unwrap(top)
        if inner_.op == 'select' and inner_.args[1].is_const and inner_.args[1].val == 0.0:
            top = inner_; outer_wrap = True
    except Unsupported:
        pass
    def unwrap_branch(W):
        if outer_wrap:
            return W
        return unwrap(W)
    if not (top.op == 'select' and top.args[1].is_const and top.args[1].val == 0.0):
        raise Unsupported('no achromatic guard')
    cnode = top.args[0].args[0].args[0] if top.args[0].op == 'lt' and top.args[0].args[0].op == 'call:abs' else None
    if cnode is None or not (cnode.op == 'fsub' and _tree(cnode.args[0], 'call:max', atoms) and _tree(cnode.args[1], 'call:min', atoms)):
        raise Unsupported('achromatic guard does not test max - min')
    b1 = top.args[2]
    if not (b1.op == 'select' and b1.args[2].op == 'select'):
        raise Unsupported('no chain of two sextant tests')
    (v1, x1, k1), (v2, x2, k2) = eps_test(b1.args[0]), eps_test(b1.args[2].args[0])
    tol = {x1.id: k1, x2.id: k2}
    ids = [a.id for a in atoms]
    if not (v1 is cnode.args[0] and v2 is cnode.args[0] and x1.id in ids and x2.id in ids and x1 is not x2):
        raise Unsupported('sextant tests do not compare the maximum with two different channels')
    x3 = [a for a in atoms if a is not x1 and a is not x2][0]
    H = {x1.id: unwrap_branch(b1.args[1]), x2.id: unwrap_branch(b1.args[2].args[1]), x3.id: unwrap_branch(b1.args[2].args[2])}
    order = [x1, x2, x3]                      # test order of the code
    names = {a.id: 'rgb'[i] for i, a in enumerate(atoms)}
    # (1) rounding error of the three formulas where max - min >= 0.01
    def region_lemmas(n):
        if n is cnode:
            return I(0.01 - 1e-7, 1.0)
        return lemmas(n)
    def feasible(env):
        V = realerr.errprop(cnode, env, None, lemmas)[0]
        return V.hi >= 0.01 - 1e-7
    E = {}
    boxes = 0
    for a in order:
        up_, n_, wbox, msg = realerr.sup_error_nd(H[a.id], atoms, None, [(0.0, 1.0)] * 3, 2e-3, max_boxes=20000, lemmas=region_lemmas, feasible=feasible)
        E[a.id] = up_; boxes += n_
    ck.count('tolerance_boxes', boxes)
    # (2) symbolic gap in the slivers
    R, G, B = sp.symbols('r g b', real=True)
    sy = {atoms[0].id: R, atoms[1].id: G, atoms[2].id: B}
    WRAP = 360.0 * 2.0 ** -24 * 1.01
    tie_gaps = []
    for mi, M in enumerate(order):
        for ti, T_ in enumerate(order[:mi + 1]):
            key = f"C17/tolerance/H/max-{names[M.id]}/formula-{names[T_.id]}"
            gap = 0.0
            if T_ is not M:
                # sample point: M maximal, T within eps/2 of it, the remaining channel the minimum
                other = [a for a in atoms if a is not M and a is not T_][0]
                pt = {M.id: Fr(1, 2), T_.id: Fr(1, 2) - Fr(1, 2 ** 30), other.id: Fr(1, 5)}
                eT = resolve_at(H[T_.id], pt, sy)[0]; eM = resolve_at(H[M.id], pt, sy)[0]
                K = None
                for turn in (0, 360, -360):          # hue is an angle: the two formulas may differ by a full turn before wrapping
                    diff = sp.cancel(eT - eM + turn)
                    q = sp.cancel(diff / (sy[T_.id] - sy[M.id]))
                    Kc = sp.cancel(q * (sy[M.id] - sy[other.id]))
                    if not Kc.free_symbols:
                        K = Kc; break
                if K is None:
                    ck.ob(key, 'UNDECIDED', f"difference of the two sextant formulas is not (x_taken - max) * K / (max - min) modulo 360: {sp.simplify(sp.cancel(eT - eM))}"); continue
                gap = tol[T_.id] * abs(float(K)) / (0.01 - 1e-7) * (1 + 1e-6)       # the code's own tie tolerance for that channel
            total = E[T_.id] + gap + WRAP
            ck.ob(key, 'PROVED' if total <= 0.01 else 'UNDECIDED',
                  (f"|H - hexcone H| <= {E[T_.id]:.3g} (rounding of the {names[T_.id]}-formula)" + (f" + {gap:.3g} (formula of a channel within eps of the maximum)" if gap else '') + f" + {WRAP:.2g} (wrap) = {total:.3g} <= 0.01 degrees where max - min >= 0.01")
                  if total <= 0.01 else f"bound {total:.3g} exceeds 0.01")
            ck.count('hue_regions')
            tie_gaps.append(gap * (0.01 - 1e-7))          # = tol * |K| (1 + 1e-6): the gap in degrees times (max - min)
    ck.floor('hue_regions', 6)
    return dict(H=H, cnode=cnode, achromatic_tol=float(top.args[0].args[1].val), order=order, tie=max(tie_gaps) if tie_gaps else 0.0, wrap=WRAP)

def roundtrip_rounding(ck, ctx, fwd, inv, ia, fw):
    """|hsl_to_lrgb(lrgb_to_hsl(p)) - p| <= 1e-5 per component for the values the binary32 code computes, every p in [0,1]^3.

    Entry-wise error propagation through the composition fails (DESIGN.md 8.7): the rounded denominator D = 1 - |2L - 1| has a
    large relative error near L ~ 2^-23 that cancels only because the backward conversion multiplies by the SAME rounded
    expression, the backward sextant is selected from the computed hue, and the hue error grows like 1/(max - min).  The
    argument is therefore assembled from clauses that each hold uniformly:

      backward, cut at h' = H/60 and at d = D (their computed values taken as exact inputs):
        (B1) |computed - real evaluation| <= eps_B over (h', S, L, d) in [0,6] x [0,1]^3          (error propagation)
        (B2) the real evaluation is  L + d S (sigma_j(h') - 1/2),  sigma_j piecewise affine with slopes in {0, +-1},
             values in [0,1], continuous at the sextant boundaries and from 6 back to 0            (sympy, per sextant)
      forward (p in [0,1]^3; l, c = max - min, h'_id the hexcone values; the per-cell identities above give
               p_j = l + c (sigma_j(h'_id) - 1/2)):
        (F1) |L_c - l| <= A1                                                                      (C17/tolerance/L)
        (F2) P = d_c S_c (the real product of the two computed numbers) is within A2 of c:  the numerator N of S is c up to
             A_N, D is D_id = 1 - |max + min - 1| up to A_D (error propagation), c <= D_id on the cube (per-cell identity
             D_id - c in {2 min, 2 - 2 max}), S = 0 under the guards |L| < g, |L - 1| < g where c < 2 (g + A1)
        (F3) c * dist_mod6(h'_c, h'_id) <= A3: every sextant formula is 60 (k + t), t = fl(fl(a - b) / fl(max - min)) with
             |t_c - t| <= 3.000001 u |t| (three relative roundings of exact inputs; lemma R), so its rounding error is
             bounded independently of max - min; the formula of a channel within the tie tolerance of the maximum differs
             from the right one by tol K / (max - min) (hue_tolerance), which the factor c cancels; the achromatic guard
             leaves c < tol (1 + 2u) and a hue distance <= 3.
      Then  out_j - p_j = [B1] + (L_c - l) + (P - c)(sigma_j(h'_c) - 1/2) + c (sigma_j(h'_c) - sigma_j(h'_id)),
      i.e. |out_j - p_j| <= eps_B + A1 + A2 / 2 + A3."""
    from engine import realerr
    from engine.ival import I
    key = 'C17/roundtrip-rounding'
    U = 2.0 ** -24
    atoms, lemmas, lnode, A1, hue = fw['atoms'], fw['lemmas'], fw['lnode'], fw['A1'], fw['hue']
    if hue is None or lnode is None:
        ck.ob(key, 'UNDECIDED', 'forward kernel not of the analysed shape (hue / lightness clauses above)'); return
    box3 = [(0.0, 1.0)] * 3
    H_at, S_at, L_at = ia[0], ia[1], ia[2]
    ids = {a.id for a in atoms}
    # ---------------- forward saturation: guards, numerator, denominator
    cur = fwd.fields[1]; guards = {}
    while cur.op == 'select' and cur.args[1].is_const and float(cur.args[1].val) == 0.0 and cur.args[0].op in ('lt', 'le') \
            and cur.args[0].args[0].op == 'call:abs' and cur.args[0].args[1].is_const:
        A = cur.args[0].args[0].args[0]; g = float(cur.args[0].args[1].val)
        if A is lnode: guards['low'] = g
        elif A.op == 'fsub' and A.args[0] is lnode and A.args[1].is_const and float(A.args[1].val) == 1.0: guards['high'] = g
        else: raise Unsupported('a saturation guard tests neither L nor L - 1')
        cur = cur.args[2]
    mm = realerr._as_minmax(cur) if cur.op == 'select' else None
    if mm is not None:
        if not (mm[0] == 'min' and mm[2].is_const and float(mm[2].val) == 1.0): raise Unsupported('saturation is capped by something else than min(., 1)')
        cur = mm[1]
    if not (cur.op == 'fdiv' and set(guards) == {'low', 'high'}):
        raise Unsupported('saturation is not  guard ? 0 : [min(1,] N / D [)]  with guards on L and L - 1')
    Nn, Dn = cur.args
    if lnode.id not in {m_.id for m_ in X.walk(Dn)} or any(m_.id in ids for m_ in X.walk(X.substitute(Dn, {lnode.id: L_at}))):
        raise Unsupported('the denominator of S is not a function of L alone')
    R_, G_, B_ = sp.symbols('r g b', real=True)
    sy = {atoms[0].id: R_, atoms[1].id: G_, atoms[2].id: B_}
    vals = [Fr(7, 10), Fr(9, 20), Fr(1, 5)]
    import itertools
    for perm in itertools.permutations(range(3)):
        for shift in (Fr(0), Fr(1, 4)):                      # dark (max + min < 1) and light (max + min > 1) half of the cell
            pt = {atoms[i].id: vals[perm[i]] + shift for i in range(3)}
            mx = [a for i, a in enumerate(atoms) if perm[i] == 0][0]; mn = [a for i, a in enumerate(atoms) if perm[i] == 2][0]
            cexpr = sy[mx.id] - sy[mn.id]
            if sp.cancel(resolve_at(Nn, pt, sy)[0] - cexpr) != 0:
                raise Unsupported('the numerator of S is not max - min as a real expression')
            gapD = sp.expand(resolve_at(Dn, pt, sy)[0] - cexpr)
            if gapD != sp.expand(2 * sy[mn.id]) and gapD != sp.expand(2 - 2 * sy[mx.id]):
                raise Unsupported(f"D - (max - min) is neither 2 min nor 2 - 2 max on a cell ({gapD})")
    A_N = realerr.sup_error_nd(Nn, atoms, None, box3, 1e-7, max_boxes=400, lemmas=lemmas)[0]
    A_D = realerr.sup_error_nd(Dn, atoms, None, box3, 1e-7, max_boxes=400, lemmas=lemmas)[0]
    gmax = max(guards.values())
    A2 = max(A_D, A_N + U * (1 + A_N) + 1e-30, 2 * (gmax + A1) * (1 + 4 * U))
    # ---------------- forward hue: rounding of each sextant formula, uniformly in max - min (lemma R)
    cnode = hue['cnode']
    def lemR(n):
        if n.op == 'fdiv' and n.args[1] is cnode and n.args[0].op == 'fsub' and n.args[0].args[0].id in ids and n.args[0].args[1].id in ids:
            e_ = 3.000001 * U + 2.0 ** -149
            return ('set', I(-1.0, 1.0), I(-e_, e_), I(-1.0, 1.0))
        return lemmas(n)
    for T_, f in hue['H'].items():
        if not any(lemR(m_) is not None and isinstance(lemR(m_), tuple) and lemR(m_)[0] == 'set' for m_ in X.walk(f)):
            raise Unsupported('a sextant formula does not contain (a - b) / (max - min)')
    E_round = max(realerr.sup_error_nd(f, atoms, None, box3, 1e-5, max_boxes=400, lemmas=lemR)[0] for f in hue['H'].values())
    tolc = hue['achromatic_tol']
    A3 = ((E_round + hue['wrap']) / 60.0 * (1 + 2 * U) + 6.0 * U * 1.0001) + hue['tie'] / 60.0 * (1 + 1e-6) + 3.0 * tolc * (1 + 4 * U)
    # ---------------- backward, cut at h' and d
    hp_nodes = {m_.id: m_ for f in inv.fields for m_ in X.walk(f)
                if (m_.op == 'fdiv' and m_.args[0] is H_at and m_.args[1].is_const) or (m_.op == 'fmul' and H_at in m_.args and any(z.is_const for z in m_.args))}
    if len(hp_nodes) != 1: raise Unsupported('the backward kernel does not use the hue through one quotient H / const (or product H * const)')
    hp_node = list(hp_nodes.values())[0]
    kq = [float(z.val) for z in hp_node.args if z.is_const][0]
    scale = 1.0 / kq if hp_node.op == 'fdiv' else kq
    if abs(scale * 60.0 - 1.0) > 1e-6: raise Unsupported('hue is not divided by 60')
    A3 += 360.0 * abs(scale - 1.0 / 60.0) * (1 + 1e-9) + 6.0 * 2.0 ** -52        # a binary32 reciprocal instead of the quotient (0 for H / 60)
    D_b = X.substitute(Dn, {lnode.id: L_at})
    HP = X.sym(X.F32, 'c17.hprime'); DV = X.sym(X.F32, 'c17.dcut')
    cut = [X.substitute(f, {hp_node.id: HP, D_b.id: DV}) for f in inv.fields]
    for f in cut:
        seen = {m_.id for m_ in X.walk(f)}
        if H_at.id in seen: raise Unsupported('the backward kernel uses H other than through H / 60')
        if DV.id not in seen: raise Unsupported('the backward kernel does not contain the forward denominator expression 1 - |2L - 1| (no cancellation)')
        if any(m_.op == 'fma' and L_at in m_.args for m_ in X.walk(f)): raise Unsupported('L enters the backward chroma besides through the cut denominator')
    at4 = [HP, S_at, L_at, DV]
    box4 = [(0.0, 6.0), (0.0, 1.0), (0.0, 1.0), (0.0, 1.0)]
    eps_B = max(realerr.sup_error_nd(f, at4, None, box4, 2e-7, max_boxes=3000)[0] for f in cut)
    hp_, s_, l_, d_ = sp.symbols('hp s l d', real=True)
    sy4 = {HP.id: hp_, S_at.id: s_, L_at.id: l_, DV.id: d_}
    sig = [[None] * 6 for _ in range(3)]
    for j, f in enumerate(cut):
        for k in range(6):
            pt = {HP.id: Fr(k) + Fr(1, 2), S_at.id: Fr(37, 100), L_at.id: Fr(41, 100), DV.id: Fr(29, 100)}
            ex = resolve_at(f, pt, sy4)[0]
            sg = sp.cancel((ex - l_) / (d_ * s_) + sp.Rational(1, 2))
            if sg.free_symbols - {hp_}: raise Unsupported(f"backward component {j} is not L + d S (sigma(h') - 1/2) on sextant {k}: {sg}")
            slope = sp.diff(sg, hp_)
            if slope not in (0, 1, -1) or sp.diff(sg, hp_, 2) != 0: raise Unsupported(f"sigma has slope {slope} on sextant {k}")
            for end in (k, k + 1):
                v = sg.subs(hp_, end)
                if not (0 <= v <= 1): raise Unsupported(f"sigma leaves [0,1] on sextant {k}")
            sig[j][k] = sg
        for k in range(6):
            nxt, at = sig[j][(k + 1) % 6], (k + 1)
            if sp.simplify(sig[j][k].subs(hp_, at) - nxt.subs(hp_, at % 6)) != 0:
                raise Unsupported(f"backward component {j} jumps between sextants {k} and {(k + 1) % 6}")
    total = eps_B + A1 + 0.5 * A2 + A3
    ck.note('roundtrip_rounding', dict(eps_B=eps_B, A1=A1, A_N=A_N, A_D=A_D, A2=A2, E_round_deg=E_round, tie_deg_times_c=hue['tie'], A3=A3, total=total))
    ck.ob(key, 'PROVED' if total <= 1e-5 else 'UNDECIDED',
          f"|hsl_to_lrgb(lrgb_to_hsl(p)) - p| <= {eps_B:.3g} (backward rounding, cut at H/60 and 1-|2L-1|) + {A1:.3g} (L) + {0.5 * A2:.3g} (chroma: half of |d S - (max-min)| <= {A2:.3g}) + {A3:.3g} (hue, weighted by max-min) = {total:.3g} {'<=' if total <= 1e-5 else '>'} 1e-5 for every pixel of [0,1]^3 under binary32 rounding")

def range_witness(ctx, e, atoms, lo, hi, strict):
    """constant folding of the kernel at saturated colours whose maximum has low-order mantissa bits set"""
    cands = []
    for k in range(1, 9):
        for j in (1, 3, 5, 2, 7):
            cands.append(X.fround(X.F32, 2.0 ** -k * (1 + j * 2.0 ** -23)))
            cands.append(X.fround(X.F32, 2.0 ** -k * (1 + 0.5 + j * 2.0 ** -23)))
    import itertools
    for m in cands:
        for pos in range(3):
            for other in (0.0, m / 2):
                p = [other, other, other]; p[pos] = m
                if other: p[(pos + 1) % 3] = 0.0
                r = fold(e, {a.id: X.const(a.ty, v) for a, v in zip(atoms, p)}, ctx.crate)
                if r.is_const and r.val == r.val:
                    v = r.val
                    if (lo is not None and v < lo) or (v >= hi if strict else v > hi):
                        return (p, v)
    return None

def run(tier):
    ck = Check('C17', tier, 'proof', 'per-cell branch resolution of the kernels extracted from MIR (exact rational evaluation at a generic point) + rational-function identities (sympy) + linear inequalities at simplex vertices; exact folding for the documentation clause')
    ctx = Ctx('K1')
    try:
        fwd, fa = kernel(ctx, 'LinearRgb->Hsl', 'linearrgb.data')
        inv, ia = kernel(ctx, 'Hsl->LinearRgb', 'hsl.data')
    except Unsupported as ex:
        ck.ob('C17/kernels', 'UNDECIDED', f"analysis lost: {ex}")
        return ck.finish()
    R, G, B = sp.symbols('r g b', real=True)
    fsyms = {fa[0].id: R, fa[1].id: G, fa[2].id: B}
    names = 'rgb'
    base_lo = [Fr(2, 5), Fr(1, 4), Fr(1, 10)]       # L < 1/2
    base_hi = [Fr(19, 20), Fr(4, 5), Fr(13, 20)]    # L > 1/2
    for order in itertools.permutations(range(3)):
        for half, base in (('dark', base_lo), ('light', base_hi)):
            p = [None] * 3
            for rank, ch in enumerate(order): p[ch] = base[rank]
            cell = f"{''.join(names[c] for c in order)}/{half}"
            point = {fa[i].id: p[i] for i in range(3)}
            try:
                exprs = [resolve_at(e, point, fsyms) for e in fwd.fields]
            except Unsupported as ex:
                ck.ob(f"C17/{cell}", 'UNDECIDED', f"cell not resolved: {ex}"); continue
            ck.count('cells')
            H, S, L = (sp.cancel(e[0]) for e in exprs)
            chan = [R, G, B]
            M, m_ = chan[order[0]], chan[order[2]]
            C = M - m_
            Ls = (M + m_) / 2
            Ss = C / (2 * Ls) if half == 'dark' else C / (2 - 2 * Ls)
            mx = order[0]
            if mx == 0:
                q = (G - B) / C
                Hs = 60 * q if order[1] == 1 else 60 * (q + 6)
            elif mx == 1: Hs = 60 * ((B - R) / C + 2)
            else: Hs = 60 * ((R - G) / C + 4)
            for nm, code, spec_ in (('H', H, Hs), ('S', S, Ss), ('L', L, Ls)):
                d = sp.cancel(code - spec_)
                ck.ob(f"C17/hexcone/{cell}/{nm}", 'PROVED' if d == 0 else 'REFUTED',
                      f"{nm} equals the hexcone definition as a rational function on this cell" if d == 0 else
                      f"on the cell {cell} (e.g. r,g,b = {[float(x) for x in p]}) the code computes {nm} = {sp.simplify(code)} but the hexcone model gives {sp.simplify(spec_)} (code value {float(exprs['HSL'.index(nm)][1]):.6g})")
            # hue range on the cell: 0 <= H <= 360 via linear inequalities at the simplex vertices (H*den - lo*den >= 0 ...)
            num, den = sp.fraction(sp.together(H))
            okr = True
            for v in simplex_vertices(order):
                sub = {R: v[0], G: v[1], B: v[2]}
                dv = den.subs(sub); nv = num.subs(sub)
                if dv < 0: dv, nv = -dv, -nv
                if not (nv >= 0 and 360 * dv - nv >= 0): okr = False
            hv = exprs[0][1]
            ck.ob(f"C17/range/{cell}/H", 'PROVED' if okr and 0 <= hv < 360 else 'REFUTED',
                  'H in [0, 360] on the closed cell (linear inequalities at the simplex vertices), < 360 in its interior' if okr and 0 <= hv < 360 else
                  f"hue leaves [0,360) on the cell {cell}: H = {sp.simplify(H)}, e.g. {float(hv):.6g} at r,g,b = {[float(x) for x in p]}")
            # round trip on the cell
            hsl_point = {ia[i].id: exprs[i][1] for i in range(3)}
            Hh, Sh, Lh = sp.symbols('hh ss ll', real=True)
            isyms = {ia[0].id: Hh, ia[1].id: Sh, ia[2].id: Lh}
            try:
                back = [resolve_at(e, hsl_point, isyms)[0] for e in inv.fields]
                ok = True; bad = None
                for i in range(3):
                    composed = sp.cancel(back[i].subs({Hh: H, Sh: S, Lh: L}))
                    if sp.cancel(composed - chan[i]) != 0:
                        ok = False; bad = (names[i], sp.simplify(composed))
                ck.ob(f"C17/roundtrip/{cell}", 'PROVED' if ok else 'REFUTED',
                      'hsl_to_lrgb(lrgb_to_hsl(p)) = p as rational functions on this cell' if ok else f"round trip on cell {cell} returns {bad[0]} = {bad[1]}")
            except Unsupported as ex:
                ck.ob(f"C17/roundtrip/{cell}", 'UNDECIDED', f"inverse not resolved: {ex}")
    # documentation clause: L = 0 -> black, L = 1 -> white for every (finite) hue and saturation
    for lv, want in ((0.0, 0.0), (1.0, 1.0)):
        comps = [simplify_finite(X.substitute(e, {ia[2].id: X.const(X.F32, lv)})) for e in inv.fields]
        comps = [simplify_finite(c) for c in comps]
        vals = []
        for c in comps:
            # the remaining hue-dependent selects all have the same leaves once c = 0
            leaves = set()
            def collect(n):
                if n.op == 'select': collect(n.args[1]); collect(n.args[2])
                else: leaves.add(n)
            collect(c)
            vals.append(leaves)
        ok = all(len(v) == 1 and list(v)[0].is_const and list(v)[0].val == want for v in vals)
        ck.ob(f"C17/doc/L={lv}", 'PROVED' if ok else 'REFUTED', f"L = {lv} gives ({want},{want},{want}) for every finite hue and saturation" if ok else f"L = {lv} gives {[[X.show(x, 4) for x in v] for v in vals]}")
    fw = implementation_ranges(ck, ctx, fwd, fa)
    try:
        if fw is None: raise Unsupported('implementation-level analysis of the forward kernel did not complete')
        roundtrip_rounding(ck, ctx, fwd, inv, ia, fw)
    except Unsupported as ex:
        ck.ob('C17/roundtrip-rounding', 'UNDECIDED', f"round trip under rounding: kernel not of the analysed shape: {ex}")
    ck.floor('cells', 12)
    return ck.finish()
