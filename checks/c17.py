"""C17 - HSL conversion follows the hexcone model, stays in range and round-trips
(formula level, per ordering cell).

The two per-pixel kernels are extracted from MIR.  On each of the 6 strict orderings of
(r,g,b) x {L < 1/2, L > 1/2} the branch structure (max/min selection, sextant tests,
epsilon guards, h' % 2) is constant; it is resolved by exact rational evaluation at one
interior point of the cell, which yields the rational function the code computes on that
cell.  sympy then decides, as identities of rational functions: (H,S,L) = hexcone
definition, hsl_to_lrgb(lrgb_to_hsl(p)) = p; the hue range follows from linear
inequalities checked at the vertices of the ordering simplex.  The documentation clause
(L=0 black, L=1 white) is decided by exact folding.  NOT decided: the rounding tolerances
(1e-6, 1e-4, 0.01 deg, 1e-5), S <= 1 under rounding, and the epsilon slivers around ties."""
from __future__ import annotations
from fractions import Fraction as Fr
import itertools
import sympy as sp
from engine.check import Check
from engine.values import Unsupported
from engine.simplify import fold, simplify_finite
from .common import *
from .conv import *
from .xyb import pixel_atoms

def kernel(ctx, conv, name):
    it, marks, results = run_validated(ctx, conv, 'u16', 'BT709', 'BT1886', 'BT709', bd=10)
    s, v = results[0][0]
    obj, buf = vec_buf(s, field(ctx.crate, v, 'data'))
    k, val, R = element_kernel(it, s, obj)
    return val, pixel_atoms(val, name)

def resolve_at(e, point, syms):
    """(sympy expression valid on the cell of `point`, exact value at point)"""
    cache = {}
    def rec(n):
        if n.id in cache: return cache[n.id]
        op = n.op
        if n.id in point:
            r = (syms[n.id], point[n.id])
        elif op == 'const':
            v = Fr(n.val); r = (sp.Rational(v.numerator, v.denominator), v)
        elif op in ('fadd', 'fsub', 'fmul', 'fdiv'):
            (ea, va), (eb, vb) = rec(n.args[0]), rec(n.args[1])
            if op == 'fadd': r = (ea + eb, va + vb)
            elif op == 'fsub': r = (ea - eb, va - vb)
            elif op == 'fmul': r = (ea * eb, va * vb)
            else:
                if vb == 0: raise Unsupported('division by zero at the sample point')
                r = (ea / eb, va / vb)
        elif op == 'fneg':
            ea, va = rec(n.args[0]); r = (-ea, -va)
        elif op == 'fma':
            (ea, va), (eb, vb), (ec, vc) = rec(n.args[0]), rec(n.args[1]), rec(n.args[2])
            r = (ea * eb + ec, va * vb + vc)
        elif op == 'call:abs':
            ea, va = rec(n.args[0])
            if va == 0:
                if sp.simplify(ea) != 0: raise Unsupported('|0| at the sample point (not generic)')
                r = (sp.Integer(0), Fr(0))
            else:
                r = (ea, va) if va > 0 else (-ea, -va)
        elif op in ('call:max', 'call:min'):
            (ea, va), (eb, vb) = rec(n.args[0]), rec(n.args[1])
            if va == vb: raise Unsupported('tie at the sample point (not generic)')
            pick_a = (va > vb) if op == 'call:max' else (va < vb)
            r = (ea, va) if pick_a else (eb, vb)
        elif op == 'frem':
            (ea, va), (eb, vb) = rec(n.args[0]), rec(n.args[1])
            if not n.args[1].is_const or vb <= 0 or va < 0: raise Unsupported('remainder')
            k = va // vb
            if va == k * vb: raise Unsupported('remainder boundary at the sample point')
            r = (ea - k * eb, va - k * vb)
        elif op == 'select':
            c = cond(n.args[0])
            r = rec(n.args[1]) if c else rec(n.args[2])
        else:
            raise Unsupported(f"per-cell resolution of {op}")
        cache[n.id] = r
        return r
    def cond(c):
        if c.is_const: return bool(c.val)
        if c.op == 'bnot': return not cond(c.args[0])
        if c.op == 'band': return cond(c.args[0]) and cond(c.args[1])
        if c.op == 'bor': return cond(c.args[0]) or cond(c.args[1])
        if c.op in ('lt', 'le', 'gt', 'ge'):
            a, b = rec(c.args[0])[1], rec(c.args[1])[1]
            if a == b: raise Unsupported('comparison tie at the sample point (not generic)')
            return {'lt': a < b, 'le': a <= b, 'gt': a > b, 'ge': a >= b}[c.op]
        raise Unsupported(f"condition {c.op}")
    return rec(e)

def simplex_vertices(order):
    """vertices of {1 >= x_order[0] >= x_order[1] >= x_order[2] >= 0}"""
    vs = []
    for k in range(4):
        p = [0, 0, 0]
        for i in range(k): p[order[i]] = 1
        vs.append(tuple(p))
    return vs

def _tree(n, op, atoms):
    """n is a nest of `op` calls whose leaves are exactly the given atoms"""
    leaves = []
    def go(m):
        if m.op == op:
            go(m.args[0]); go(m.args[1])
        else:
            leaves.append(m)
    go(n)
    return n.op == op and len(leaves) == len(atoms) and {l.id for l in leaves} == {a.id for a in atoms}

def implementation_ranges(ck, ctx, fwd, fa):
    """H in [0,360), S in [0,1], L in [0,1] for the values the binary32 code computes on all of [0,1]^3
    (direct enclosures of the computed values; three monotonicity-of-rounding lemmas, stated below)"""
    from engine import realerr
    from engine.ival import I
    atoms = [fa[i] for i in sorted(fa)] if isinstance(fa, dict) else list(fa)
    def lemmas(n):
        # (Q) |fl(a - b)| <= fl(max - min) for inputs a, b of the pixel, hence |fl(a-b) / fl(max-min)| <= 1 (rounding is monotone)
        if n.op == 'fdiv' and n.args[0].op == 'fsub' and n.args[1].op == 'fsub':
            a, b = n.args[0].args; mx, mn = n.args[1].args
            if a.id in {x.id for x in atoms} and b.id in {x.id for x in atoms} and _tree(mx, 'call:max', atoms) and _tree(mn, 'call:min', atoms):
                return I(-1.0, 1.0)
        # (M) fl(fl(max + min)/2) <= max because max + min <= 2 max and rounding is monotone: max - l >= 0
        if n.op == 'fsub' and n.args[1].op == 'fdiv' and n.args[1].args[1].is_const and n.args[1].args[1].val == 2.0:
            mx = n.args[0]; sm = n.args[1].args[0]
            if sm.op == 'fadd' and sm.args[0] is mx and _tree(mx, 'call:max', atoms) and _tree(sm.args[1], 'call:min', atoms):
                return I(0.0, float('inf'))
        # (N) fl(max - min) >= 0: max >= min over the same three inputs and rounding is monotone (fl(0) = 0)
        if n.op == 'fsub' and _tree(n.args[0], 'call:max', atoms) and _tree(n.args[1], 'call:min', atoms):
            return I(0.0, float('inf'))
        return None
    env = {a.id: I(0.0, 1.0) for a in atoms}
    names = ['H', 'S', 'L']
    want = {'H': (0.0, 360.0, True), 'S': (0.0, 1.0, False), 'L': (0.0, 1.0, False)}
    for nm, e in zip(names, fwd.fields):
        key = f"C17/computed-range/{nm}"
        try:
            V, E, R = realerr.errprop(e, env, None, lemmas, total=True)
        except (Unsupported, ZeroDivisionError) as ex:
            ck.ob(key, 'UNDECIDED', f"range of the computed {nm} not established: {ex}"); continue
        lo, hi, strict = want[nm]
        ok = (lo is None or R.lo >= lo) and (R.hi < hi if strict else R.hi <= hi)
        if ok:
            ck.ob(key, 'PROVED', f"computed {nm} lies in [{R.lo:.6g}, {R.hi:.9g}] for every pixel of [0,1]^3" + (' (the two epsilon guards on L keep the computed denominator 1 - |2L - 1| >= 2^-22; the numerator is >= 0 by lemma M)' if nm == 'S' else ''))
        else:
            w = range_witness(ctx, e, atoms, lo, hi, strict) 
            ck.ob(key, 'REFUTED' if w else 'UNDECIDED',
                  (f"the pixel {w[0]} gives {nm} = {w[1]!r}, outside the documented range" if w else f"enclosure [{R.lo:.6g}, {R.hi:.9g}] of the computed {nm} is not inside the documented range"))
    ck.count('range_obligations', 3)
    # tolerances of the computed L and S against the hexcone values (the ideal reading of the same kernel, which the
    # per-cell identities above show to BE the hexcone definition): sup |computed - ideal| over the clause's region
    def find_l():
        for n in X.walk(fwd.fields[2]):
            if n.op == 'fdiv' and n.args[1].is_const and n.args[1].val == 2.0 and n.args[0].op == 'fadd' and _tree(n.args[0].args[0], 'call:max', atoms) and _tree(n.args[0].args[1], 'call:min', atoms):
                return n
        return None
    lnode = find_l()
    if lnode is None:
        ck.ob('C17/tolerance', 'UNDECIDED', 'L is not (max + min) / 2 in the extracted kernel'); return
    box = [(0.0, 1.0)] * 3
    up_l, n_l, _, msg = realerr.sup_error_nd(fwd.fields[2], atoms, None, box, 2e-7, max_boxes=200, lemmas=lemmas)
    ck.ob('C17/tolerance/L', 'PROVED' if up_l <= 1e-6 else 'UNDECIDED', f"|computed L - (max+min)/2| <= {up_l:.3g} <= 1e-6 on [0,1]^3" if up_l <= 1e-6 else f"bound {up_l:.3g} ({msg})")
    def region_lemmas(n):
        if n is lnode:
            return I(0.01 - 1e-6, 0.99 + 1e-6)            # the clause's region 0.01 <= L <= 0.99 (computed L within 1e-6 of it)
        return lemmas(n)
    def feasible(env):
        V = realerr.errprop(lnode, env, None, lemmas)[0]
        return not (V.hi < 0.01 or V.lo > 0.99)
    up_s, n_s, wbox, msg = realerr.sup_error_nd(fwd.fields[1], atoms, None, box, 5e-5, max_boxes=40000, lemmas=region_lemmas, feasible=feasible)
    ck.ob('C17/tolerance/S', 'PROVED' if up_s <= 1e-4 else 'UNDECIDED',
          f"|computed S - hexcone S| <= {up_s:.3g} <= 1e-4 wherever 0.01 <= L <= 0.99 ({n_s} boxes)" if up_s <= 1e-4 else f"bound {up_s:.3g} after {n_s} boxes, worst box {wbox} ({msg})")
    ck.count('tolerance_boxes', n_l + n_s)
    try:
        hue_tolerance(ck, ctx, fwd, atoms, lemmas)
    except Unsupported as ex:
        ck.ob('C17/tolerance/H', 'UNDECIDED', f"hue kernel not of the expected shape: {ex}")

def hue_tolerance(ck, ctx, fwd, atoms, lemmas):
    """|computed H - hexcone H| <= 0.01 degrees (as angles) wherever max - min >= 0.01.
    The kernel is  c < eps ? 0 : |v-r| < eps ? W(Hr) : |v-g| < eps ? W(Hg) : W(Hb),  W the wrap into [0,360).
    (1) rounding error of each sextant formula Hr, Hg, Hb on {max - min >= 0.01} by error propagation;
    (2) where the epsilon test selects the formula of a channel that is within eps of the maximum but is not the
        maximum, the two formulas differ by (x_taken - max) * K / (max - min) exactly (sympy), i.e. by <= eps K / 0.01;
    (3) the wrap adds 360 (one rounding of a value below 360) and maps 360 to 0: the same angle."""
    from engine import realerr
    from engine.ival import I
    EPS = 2.0 ** -23
    top = fwd.fields[0]
    def unwrap(W):
        if W.op == 'select' and W.args[0].op == 'lt' and W.args[0].args[1].is_const and W.args[0].args[1].val == 0.0 and W.args[2] is W.args[0].args[0]:
            inner = W.args[1]
            h = W.args[2]
            ok = inner.op == 'select' and inner.args[0].op == 'lt' and inner.args[0].args[1].is_const and inner.args[0].args[1].val == 360.0 and inner.args[1] is inner.args[0].args[0] \
                and inner.args[1].op == 'fadd' and inner.args[1].args[0] is h and inner.args[1].args[1].is_const and inner.args[1].args[1].val == 360.0 and inner.args[2].is_const and inner.args[2].val == 0.0
            if ok: return h
        raise Unsupported('hue wrap is not  h < 0 ? (h + 360 < 360 ? h + 360 : 0) : h')
    def eps_test(c):
        if c.op in ('lt', 'le') and c.args[1].is_const and 0 < float(c.args[1].val) < 0.1 and c.args[0].op == 'call:abs' and c.args[0].args[0].op == 'fsub':
            return c.args[0].args[0].args + (float(c.args[1].val),)
        raise Unsupported('sextant test is not |a - b| < constant')
    if not (top.op == 'select' and top.args[1].is_const and top.args[1].val == 0.0):
        raise Unsupported('no achromatic guard')
    cnode = top.args[0].args[0].args[0] if top.args[0].op == 'lt' and top.args[0].args[0].op == 'call:abs' else None
    if cnode is None or not (cnode.op == 'fsub' and _tree(cnode.args[0], 'call:max', atoms) and _tree(cnode.args[1], 'call:min', atoms)):
        raise Unsupported('achromatic guard does not test max - min')
    b1 = top.args[2]
    if not (b1.op == 'select' and b1.args[2].op == 'select'):
        raise Unsupported('no chain of two sextant tests')
    (v1, x1, k1), (v2, x2, k2) = eps_test(b1.args[0]), eps_test(b1.args[2].args[0])
    tol = {x1.id: k1, x2.id: k2}
    ids = [a.id for a in atoms]
    if not (v1 is cnode.args[0] and v2 is cnode.args[0] and x1.id in ids and x2.id in ids and x1 is not x2):
        raise Unsupported('sextant tests do not compare the maximum with two different channels')
    x3 = [a for a in atoms if a is not x1 and a is not x2][0]
    H = {x1.id: unwrap(b1.args[1]), x2.id: unwrap(b1.args[2].args[1]), x3.id: unwrap(b1.args[2].args[2])}
    order = [x1, x2, x3]                      # test order of the code
    names = {a.id: 'rgb'[i] for i, a in enumerate(atoms)}
    # (1) rounding error of the three formulas where max - min >= 0.01
    def region_lemmas(n):
        if n is cnode:
            return I(0.01 - 1e-7, 1.0)
        return lemmas(n)
    def feasible(env):
        V = realerr.errprop(cnode, env, None, lemmas)[0]
        return V.hi >= 0.01 - 1e-7
    E = {}
    boxes = 0
    for a in order:
        up_, n_, wbox, msg = realerr.sup_error_nd(H[a.id], atoms, None, [(0.0, 1.0)] * 3, 2e-3, max_boxes=20000, lemmas=region_lemmas, feasible=feasible)
        E[a.id] = up_; boxes += n_
    ck.count('tolerance_boxes', boxes)
    # (2) symbolic gap in the slivers
    R, G, B = sp.symbols('r g b', real=True)
    sy = {atoms[0].id: R, atoms[1].id: G, atoms[2].id: B}
    WRAP = 360.0 * 2.0 ** -24 * 1.01
    for mi, M in enumerate(order):
        for ti, T_ in enumerate(order[:mi + 1]):
            key = f"C17/tolerance/H/max-{names[M.id]}/formula-{names[T_.id]}"
            gap = 0.0
            if T_ is not M:
                # sample point: M maximal, T within eps/2 of it, the remaining channel the minimum
                other = [a for a in atoms if a is not M and a is not T_][0]
                pt = {M.id: Fr(1, 2), T_.id: Fr(1, 2) - Fr(1, 2 ** 30), other.id: Fr(1, 5)}
                eT = resolve_at(H[T_.id], pt, sy)[0]; eM = resolve_at(H[M.id], pt, sy)[0]
                K = None
                for turn in (0, 360, -360):          # hue is an angle: the two formulas may differ by a full turn before wrapping
                    diff = sp.cancel(eT - eM + turn)
                    q = sp.cancel(diff / (sy[T_.id] - sy[M.id]))
                    Kc = sp.cancel(q * (sy[M.id] - sy[other.id]))
                    if not Kc.free_symbols:
                        K = Kc; break
                if K is None:
                    ck.ob(key, 'UNDECIDED', f"difference of the two sextant formulas is not (x_taken - max) * K / (max - min) modulo 360: {sp.simplify(sp.cancel(eT - eM))}"); continue
                gap = tol[T_.id] * abs(float(K)) / (0.01 - 1e-7) * (1 + 1e-6)       # the code's own tie tolerance for that channel
            total = E[T_.id] + gap + WRAP
            ck.ob(key, 'PROVED' if total <= 0.01 else 'UNDECIDED',
                  (f"|H - hexcone H| <= {E[T_.id]:.3g} (rounding of the {names[T_.id]}-formula)" + (f" + {gap:.3g} (formula of a channel within eps of the maximum)" if gap else '') + f" + {WRAP:.2g} (wrap) = {total:.3g} <= 0.01 degrees where max - min >= 0.01")
                  if total <= 0.01 else f"bound {total:.3g} exceeds 0.01")
            ck.count('hue_regions')
    ck.floor('hue_regions', 6)

def range_witness(ctx, e, atoms, lo, hi, strict):
    """constant folding of the kernel at saturated colours whose maximum has low-order mantissa bits set"""
    cands = []
    for k in range(1, 9):
        for j in (1, 3, 5, 2, 7):
            cands.append(X.fround(X.F32, 2.0 ** -k * (1 + j * 2.0 ** -23)))
            cands.append(X.fround(X.F32, 2.0 ** -k * (1 + 0.5 + j * 2.0 ** -23)))
    import itertools
    for m in cands:
        for pos in range(3):
            for other in (0.0, m / 2):
                p = [other, other, other]; p[pos] = m
                if other: p[(pos + 1) % 3] = 0.0
                r = fold(e, {a.id: X.const(a.ty, v) for a, v in zip(atoms, p)}, ctx.crate)
                if r.is_const and r.val == r.val:
                    v = r.val
                    if (lo is not None and v < lo) or (v >= hi if strict else v > hi):
                        return (p, v)
    return None

def run(tier):
    ck = Check('C17', tier, 'proof', 'per-cell branch resolution of the kernels extracted from MIR (exact rational evaluation at a generic point) + rational-function identities (sympy) + linear inequalities at simplex vertices; exact folding for the documentation clause')
    ctx = Ctx('K1')
    try:
        fwd, fa = kernel(ctx, 'LinearRgb->Hsl', 'linearrgb.data')
        inv, ia = kernel(ctx, 'Hsl->LinearRgb', 'hsl.data')
    except Unsupported as ex:
        ck.ob('C17/kernels', 'UNDECIDED', f"analysis lost: {ex}")
        return ck.finish()
    R, G, B = sp.symbols('r g b', real=True)
    fsyms = {fa[0].id: R, fa[1].id: G, fa[2].id: B}
    names = 'rgb'
    base_lo = [Fr(2, 5), Fr(1, 4), Fr(1, 10)]       # L < 1/2
    base_hi = [Fr(19, 20), Fr(4, 5), Fr(13, 20)]    # L > 1/2
    for order in itertools.permutations(range(3)):
        for half, base in (('dark', base_lo), ('light', base_hi)):
            p = [None] * 3
            for rank, ch in enumerate(order): p[ch] = base[rank]
            cell = f"{''.join(names[c] for c in order)}/{half}"
            point = {fa[i].id: p[i] for i in range(3)}
            try:
                exprs = [resolve_at(e, point, fsyms) for e in fwd.fields]
            except Unsupported as ex:
                ck.ob(f"C17/{cell}", 'UNDECIDED', f"cell not resolved: {ex}"); continue
            ck.count('cells')
            H, S, L = (sp.cancel(e[0]) for e in exprs)
            chan = [R, G, B]
            M, m_ = chan[order[0]], chan[order[2]]
            C = M - m_
            Ls = (M + m_) / 2
            Ss = C / (2 * Ls) if half == 'dark' else C / (2 - 2 * Ls)
            mx = order[0]
            if mx == 0:
                q = (G - B) / C
                Hs = 60 * q if order[1] == 1 else 60 * (q + 6)
            elif mx == 1: Hs = 60 * ((B - R) / C + 2)
            else: Hs = 60 * ((R - G) / C + 4)
            for nm, code, spec_ in (('H', H, Hs), ('S', S, Ss), ('L', L, Ls)):
                d = sp.cancel(code - spec_)
                ck.ob(f"C17/hexcone/{cell}/{nm}", 'PROVED' if d == 0 else 'REFUTED',
                      f"{nm} equals the hexcone definition as a rational function on this cell" if d == 0 else
                      f"on the cell {cell} (e.g. r,g,b = {[float(x) for x in p]}) the code computes {nm} = {sp.simplify(code)} but the hexcone model gives {sp.simplify(spec_)} (code value {float(exprs['HSL'.index(nm)][1]):.6g})")
            # hue range on the cell: 0 <= H <= 360 via linear inequalities at the simplex vertices (H*den - lo*den >= 0 ...)
            num, den = sp.fraction(sp.together(H))
            okr = True
            for v in simplex_vertices(order):
                sub = {R: v[0], G: v[1], B: v[2]}
                dv = den.subs(sub); nv = num.subs(sub)
                if dv < 0: dv, nv = -dv, -nv
                if not (nv >= 0 and 360 * dv - nv >= 0): okr = False
            hv = exprs[0][1]
            ck.ob(f"C17/range/{cell}/H", 'PROVED' if okr and 0 <= hv < 360 else 'REFUTED',
                  'H in [0, 360] on the closed cell (linear inequalities at the simplex vertices), < 360 in its interior' if okr and 0 <= hv < 360 else
                  f"hue leaves [0,360) on the cell {cell}: H = {sp.simplify(H)}, e.g. {float(hv):.6g} at r,g,b = {[float(x) for x in p]}")
            # round trip on the cell
            hsl_point = {ia[i].id: exprs[i][1] for i in range(3)}
            Hh, Sh, Lh = sp.symbols('hh ss ll', real=True)
            isyms = {ia[0].id: Hh, ia[1].id: Sh, ia[2].id: Lh}
            try:
                back = [resolve_at(e, hsl_point, isyms)[0] for e in inv.fields]
                ok = True; bad = None
                for i in range(3):
                    composed = sp.cancel(back[i].subs({Hh: H, Sh: S, Lh: L}))
                    if sp.cancel(composed - chan[i]) != 0:
                        ok = False; bad = (names[i], sp.simplify(composed))
                ck.ob(f"C17/roundtrip/{cell}", 'PROVED' if ok else 'REFUTED',
                      'hsl_to_lrgb(lrgb_to_hsl(p)) = p as rational functions on this cell' if ok else f"round trip on cell {cell} returns {bad[0]} = {bad[1]}")
            except Unsupported as ex:
                ck.ob(f"C17/roundtrip/{cell}", 'UNDECIDED', f"inverse not resolved: {ex}")
    # documentation clause: L = 0 -> black, L = 1 -> white for every (finite) hue and saturation
    for lv, want in ((0.0, 0.0), (1.0, 1.0)):
        comps = [simplify_finite(X.substitute(e, {ia[2].id: X.const(X.F32, lv)})) for e in inv.fields]
        comps = [simplify_finite(c) for c in comps]
        vals = []
        for c in comps:
            # the remaining hue-dependent selects all have the same leaves once c = 0
            leaves = set()
            def collect(n):
                if n.op == 'select': collect(n.args[1]); collect(n.args[2])
                else: leaves.add(n)
            collect(c)
            vals.append(leaves)
        ok = all(len(v) == 1 and list(v)[0].is_const and list(v)[0].val == want for v in vals)
        ck.ob(f"C17/doc/L={lv}", 'PROVED' if ok else 'REFUTED', f"L = {lv} gives ({want},{want},{want}) for every finite hue and saturation" if ok else f"L = {lv} gives {[[X.show(x, 4) for x in v] for v in vals]}")
    implementation_ranges(ck, ctx, fwd, fa)
    ck.floor('cells', 12)
    ck.note('not_decided', ['the round trip within 1e-5 under rounding (formula level only)'])
    return ck.finish()
