"""C06 - primaries conversion equals the CIE derivation and keeps white white.

The 3x3 transform the code builds for each primaries set is obtained by constant
propagation through MIR (get_primaries_xy, xy_to_xyz, invert, Bradford, mul_mat, all folded
with exact binary32 semantics); the per-pixel kernel is linear, so its exact coefficients
are read off the affine form and compared - in rational arithmetic - with
M_out^-1 * Bradford * M_in derived from the H.273 chromaticities."""
from __future__ import annotations
from fractions import Fraction as Fr
from engine.check import Check
from engine.values import Unsupported
from .common import *
from .conv import *
from .c14 import STD_PRIMS

P = spec('primaries')

def F(s): return Fr(s)
def xyz_of(xy):
    x, y = F(xy[0]), F(xy[1])
    return [x / y, Fr(1), (1 - x - y) / y]
def mat_mul(A, B): return [[sum(A[i][k] * B[k][j] for k in range(3)) for j in range(3)] for i in range(3)]
def mat_vec(A, v): return [sum(A[i][k] * v[k] for k in range(3)) for i in range(3)]
def mat_inv(M):
    a = [row[:] + [Fr(int(i == j)) for j in range(3)] for i, row in enumerate(M)]
    for c in range(3):
        p = next(r for r in range(c, 3) if a[r][c] != 0)
        a[c], a[p] = a[p], a[c]
        pv = a[c][c]
        a[c] = [x / pv for x in a[c]]
        for r in range(3):
            if r != c and a[r][c] != 0:
                f = a[r][c]
                a[r] = [x - f * y for x, y in zip(a[r], a[c])]
    return [row[3:] for row in a]
IDENT = [[Fr(int(i == j)) for j in range(3)] for i in range(3)]

def rgb_to_xyz(name):
    e = P['primaries'][name]
    if e.get('xyz'):
        return [row[:] for row in IDENT]
    cols = [xyz_of(e[c]) for c in 'rgb']
    Pm = [[cols[j][i] for j in range(3)] for i in range(3)]
    W = xyz_of(P['white'][e['white']])
    S = mat_vec(mat_inv(Pm), W)
    return [[Pm[i][j] * S[j] for j in range(3)] for i in range(3)]

def adaptation(win, wout):
    if win == wout:
        return [row[:] for row in IDENT]
    B = [[F(x) for x in row] for row in P['bradford']]
    ri, ro = mat_vec(B, xyz_of(P['white'][win])), mat_vec(B, xyz_of(P['white'][wout]))
    D = [[(ro[i] / ri[i]) if i == j else Fr(0) for j in range(3)] for i in range(3)]
    return mat_mul(mat_inv(B), mat_mul(D, B))

def ideal(src, dst):
    A = adaptation(P['primaries'][src]['white'], P['primaries'][dst]['white'])
    return mat_mul(mat_inv(rgb_to_xyz(dst)), mat_mul(A, rgb_to_xyz(src)))

def kernel_matrix(ctx, conv, p):
    it, outs = run_conversion(ctx, conv, 'u16', 'BT709', 'Linear', p)
    oks = [(s, v) for s, v in outs if is_ok(ctx.crate, v)]
    if len(oks) != 1:
        raise Unsupported(f"{conv} with primaries {p} does not yield one Ok outcome")
    s, v = oks[0]
    obj, buf = vec_buf(s, field(ctx.crate, v.fields[0], 'data'))
    k, val, R = element_kernel(it, s, obj)
    rows, errs, ident = [], [], True
    atoms = {}
    for e in val.fields:
        for n in X.walk(e):
            if n.op == 'load' and X.is_float(n.ty): atoms[n.args[4][0]] = n
    for c, e in enumerate(val.fields):
        an = Analyzer(atom_range=lambda n: (Fr(-1, 2), Fr(2)))
        a = an.ev(e)
        if a.p.degree() > 1 or a.p.constant() != 0:
            raise Unsupported('primaries kernel is not linear')
        rows.append([a.p.coef(atoms[j].id) if j in atoms else Fr(0) for j in range(3)])
        errs.append(a.err)
        ident = ident and (c in atoms and e is atoms[c])
    return rows, errs, ident

def run(tier):
    ck = Check('C06', tier, 'proof', 'constant propagation of the primaries transform through MIR (bit-exact f32 matrix) + exact rational comparison with the CIE/Bradford derivation; a-priori rounding bound of the per-pixel product')
    BUD = Fr(1, 10 ** 5)
    for b in (('K1',) if tier == 'quick' else ('K1', 'K2')):
        ctx = Ctx(b)
        mats = {}
        for p in STD_PRIMS:
            for conv, src, dst in (('Rgb->LinearRgb', p, 'BT709'), ('LinearRgb->Rgb', 'BT709', p)):
                base = f"C06/{p}/{conv}/{b}"
                try:
                    M, errs, ident = kernel_matrix(ctx, conv, p)
                    ck.count('transforms')
                    mats[(p, conv)] = (M, errs)
                    if src == dst:
                        ck.ob(base + '/identity', 'PROVED' if ident else 'REFUTED', 'identical source and target primaries return the data unchanged (no arithmetic on the path)' if ident else 'identical primaries are not passed through bit-exactly')
                        continue
                    I = ideal(src, dst)
                    worst = Fr(0); lower = Fr(0)
                    for c in range(3):
                        dev = sum(abs(M[c][j] - I[c][j]) for j in range(3)) * 2
                        worst = max(worst, dev + errs[c])
                        lower = max(lower, max(abs(M[c][j] - I[c][j]) for j in range(3)) * 2 - errs[c])
                    # |v| up to 2: budget 1e-5*max(1,|v|); the deviation scales with |v|, the rounding bound is taken at |v| = 2
                    if worst <= 2 * BUD:
                        ck.ob(base + '/matrix', 'PROVED', f"|code - CIE derivation| <= {float(worst):.3g} at |v| = 2 (budget 2e-5), i.e. <= 1e-5*max(1,|v|)")
                    elif lower > 2 * BUD:
                        ck.ob(base + '/matrix', 'REFUTED', f"transform {src}->{dst} deviates from M_out^-1*Bradford*M_in by {float(lower):.3g} at |v| = 2: code rows {[[round(float(x), 6) for x in r] for r in M]} vs {[[round(float(x), 6) for x in r] for r in I]}")
                    else:
                        ck.ob(base + '/matrix', 'UNDECIDED', f"bound {float(worst):.3g} above budget")
                    rs = max(abs(sum(M[c]) - 1) + errs[c] / 2 for c in range(3))
                    ck.ob(base + '/white', 'PROVED' if rs <= BUD else ('REFUTED' if max(abs(sum(M[c]) - 1) for c in range(3)) - max(errs) > BUD else 'UNDECIDED'), f"(1,1,1) maps to (1,1,1) within {float(rs):.3g}")
                    if p in ('BT2020', 'P3DCI'): ck.sample(dict(pair=f"{src}->{dst}", code=[[float(x) for x in r] for r in M], ideal=[[float(x) for x in r] for r in I], bound=float(worst)))
                except Unsupported as ex:
                    ck.ob(base, 'UNDECIDED', f"analysis lost: {ex}")
        for p in STD_PRIMS:
            if p == 'BT709' or (p, 'Rgb->LinearRgb') not in mats or (p, 'LinearRgb->Rgb') not in mats: continue
            (Mf, ef), (Mb, eb) = mats[(p, 'Rgb->LinearRgb')], mats[(p, 'LinearRgb->Rgb')]
            prod = mat_mul(Mb, Mf)
            # v in [-0.5,2]^3 -> intermediate up to ~2*rowsum; bound with |v| <= 2
            dev = max(sum(abs(prod[c][j] - (1 if c == j else 0)) for j in range(3)) * 2 + eb[c] + sum(abs(Mb[c][j]) * ef[j] for j in range(3)) for c in range(3))
            ck.ob(f"C06/{p}/there-and-back/{b}", 'PROVED' if dev <= 2 * BUD else 'UNDECIDED', f"back(there(v)) - v bounded by {float(dev):.3g} at |v| = 2")
    ck.floor('transforms', 22)
    return ck.finish()
