"""C10 - gamma -> linear -> gamma is the identity (formula level).

The two scalar kernels of each transfer characteristic are extracted from MIR (helpers as
applications), composed by substitution, and  sup_[0,1] |G(F(x)) - x|  is bounded by interval
branch and bound with powf/expf evaluated as the ideal functions (A-elem).  This decides
the pairing clause - the two dispatch tables select mutually inverse formulas with matching
constants.  NOT decided: the approximation error of the composed polynomial powf's."""
from __future__ import annotations
from engine.check import Check
from engine.values import Unsupported
from engine.ival import I, evaluate, sup_abs_diff
from .common import *
from .c14 import STD_CURVES, canon
from .c16 import curve_kernel

def run(tier):
    ck = Check('C10', tier, 'proof', 'closed-form extraction of both curve directions from MIR, symbolic composition, interval branch and bound of |G(F(x)) - x| with ideal elementary functions')
    ctx = Ctx('K1')
    cache = {}
    for t in STD_CURVES:
        base = f"C10/{t}"
        try:
            f_e, fx = curve_kernel(ctx, t, 'to_linear')
            g_e, gx = curve_kernel(ctx, t, 'to_gamma')
            comp = X.substitute(g_e, {gx.id: f_e})
            ck.count('curves')
            bud = 5.7e-4 if t == 'PerceptualQuantizer' else 2.5e-4
            thr = 0.2 * bud
            if t == 'Linear':
                ck.ob(base, 'PROVED' if comp is fx else 'REFUTED', 'Linear round trip is the identity expression'); continue
            lo = 0.0
            # the log curves are not invertible below their floor: the round trip is the identity on [floor_code, 1]
            f = lambda iv: evaluate(comp, {fx.id: iv})
            key = canon(comp)
            if key not in cache:
                cache[key] = sup_abs_diff(f, lambda iv: iv, lo, 1.0, thr, max_boxes=80000 if tier == 'quick' else 800000)
            upper, lower, arg, n = cache[key]
            ck.count('boxes', n)
            if upper <= thr:
                ck.ob(base, 'PROVED', f"sup over [0,1] of |to_gamma(to_linear(x)) - x| <= {upper:.3g} at formula level (<= budget/5)")
            elif lower > 2 * bud:
                ck.ob(base, 'REFUTED', f"to_gamma(to_linear(x)) differs from x by >= {lower:.3g} at x = {arg!r}: the two directions of {t} are not inverse formulas")
            else:
                ck.ob(base, 'UNDECIDED', f"formula-level round-trip deviation between {lower:.3g} and {upper:.3g} (x = {arg!r}); budget {bud}")
            ck.sample(dict(curve=t, upper=upper, lower=lower, boxes=n))
            from .c03 import real_witness
            w = real_witness(ctx, comp, fx, lambda iv: iv, bud, 129 if tier == 'quick' else 1025)
            if w:
                ck.ob(base + '/real-kernel-witness', 'REFUTED', f"with the real powf/expf bodies folded, to_gamma(to_linear({w[0]!r})) = {w[1]!r}: off by {abs(w[1] - w[0]):.3g} > {bud}")
        except Unsupported as ex:
            ck.ob(base, 'UNDECIDED', f"analysis lost: {ex}")
    ck.floor('curves', 14)
    ck.note('not_decided', ['approximation error of the composed powf / expf (whether the real round trip stays within 2.5e-4 / 5.7e-4)'])
    ck.assumptions += ['A-elem: yuvxyb_math::powf / expf evaluated as the ideal functions', 'host libm within 1 ulp']
    return ck.finish()
