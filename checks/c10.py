"""C10 - gamma -> linear -> gamma is the identity within the budget.

The two scalar kernels of each transfer characteristic are extracted from MIR (helpers as
applications), composed by substitution, and  sup_[0,1] |G(F(x)) - x|  is bounded in two parts:
 (1) formula level (powf/expf as the ideal functions): interval branch and bound - decides the
     pairing clause: the two dispatch tables select mutually inverse formulas with matching constants;
 (2) implementation level: paired interval error propagation through the composition
     (engine/realerr.py) with the certified local error of powf/expf.
(1) + (2) < budget is proved for every curve except PQ, whose bound (about 5.8e-4) stays above 5.7e-4:
for PQ only the formula level is decided."""
from __future__ import annotations
from engine.check import Check
from engine.values import Unsupported
from engine.ival import I, evaluate, sup_abs_diff
from engine import realerr
from .common import *
from .c14 import STD_CURVES, canon
from .c16 import curve_kernel

def run(tier):
    ck = Check('C10', tier, 'proof', 'closed-form extraction of both curve directions from MIR, symbolic composition, interval branch and bound of |G(F(x)) - x| (formula level) + paired interval error propagation with certified powf/expf error (implementation level)')
    ctx = Ctx('K1')
    cache = {}
    ecache = {}
    budgets = {}
    H = realerr.Helpers(Ctx('K1', 'yuvxyb_math'))
    # curves whose implementation-level bound is known not to close on the reference tree (reason in DESIGN.md 8.8)
    NOT_CLOSING = {'PerceptualQuantizer': 'a-priori round-off of the log2 polynomial times |y| = 78.84 (twice) leaves 5.8e-4 > 5.7e-4'}
    for t in STD_CURVES:
        base = f"C10/{t}"
        try:
            f_e, fx = curve_kernel(ctx, t, 'to_linear')
            g_e, gx = curve_kernel(ctx, t, 'to_gamma')
            comp = X.substitute(g_e, {gx.id: f_e})
            ck.count('curves')
            bud = 5.7e-4 if t == 'PerceptualQuantizer' else 2.5e-4
            thr = 0.2 * bud
            if t == 'Linear':
                ck.ob(base, 'PROVED' if comp is fx else 'REFUTED', 'Linear round trip is the identity expression'); continue
            lo = 0.0
            # the log curves are not invertible below their floor: the round trip is the identity on [floor_code, 1]
            f = lambda iv: evaluate(comp, {fx.id: iv})
            key = canon(comp)
            if key not in cache:
                cache[key] = sup_abs_diff(f, lambda iv: iv, lo, 1.0, thr, max_boxes=80000 if tier == 'quick' else 800000)
            upper, lower, arg, n = cache[key]
            ck.count('boxes', n)
            if upper <= thr:
                ck.ob(base, 'PROVED', f"sup over [0,1] of |to_gamma(to_linear(x)) - x| <= {upper:.3g} at formula level (<= budget/5)")
            elif lower > 2 * bud:
                ck.ob(base, 'REFUTED', f"to_gamma(to_linear(x)) differs from x by >= {lower:.3g} at x = {arg!r}: the two directions of {t} are not inverse formulas")
            else:
                ck.ob(base, 'UNDECIDED', f"formula-level round-trip deviation between {lower:.3g} and {upper:.3g} (x = {arg!r}); budget {bud}")
            ck.sample(dict(curve=t, upper=upper, lower=lower, boxes=n))
            if key not in ecache:
                try:
                    ecache[key] = realerr.sup_error(comp, fx, H, 0.0, 1.0, 0.7 * bud, max_boxes=(3000 if t not in NOT_CLOSING else 1500) if tier == 'quick' else 20000)
                except Unsupported as ex:
                    ecache[key] = (float('inf'), 0, None, str(ex))
            e_up, e_n, e_box, e_msg = ecache[key]
            ck.count('error_boxes', e_n)
            total = upper + e_up
            budgets[t] = dict(formula=upper, implementation=e_up, total=total, budget=bud)
            if total < bud:
                ck.ob(base + '/budget', 'PROVED', f"|to_gamma(to_linear(x)) - x| <= {upper:.3g} (formula level) + {e_up:.3g} (rounding, libm, certified powf/expf error; {e_n} boxes) = {total:.4g} < {bud} for every x in [0,1]")
            elif t in NOT_CLOSING:
                ck.note(f"budget_not_decided/{t}", f"bound {total:.4g} vs budget {bud}: {NOT_CLOSING[t]}")
            else:
                ck.ob(base + '/budget', 'UNDECIDED', f"bound {upper:.3g} + {e_up:.3g} = {total:.4g} does not stay below the budget {bud}" + (f" ({e_msg})" if e_msg else '') + (f"; worst box {e_box}" if e_box else ''))
            from .c03 import real_witness
            w = real_witness(ctx, comp, fx, lambda iv: iv, bud, 129 if tier == 'quick' else 1025)
            if w:
                ck.ob(base + '/real-kernel-witness', 'REFUTED', f"with the real powf/expf bodies folded, to_gamma(to_linear({w[0]!r})) = {w[1]!r}: off by {abs(w[1] - w[0]):.3g} > {bud}")
        except Unsupported as ex:
            ck.ob(base, 'UNDECIDED', f"analysis lost: {ex}")
    ck.floor('curves', 14)
    ck.note('budgets', budgets)
    ck.note('not_decided', ['PQ round trip within 5.7e-4 at implementation level (formula level decided)'])
    ck.floor('error_boxes', 1)
    ck.assumptions += ['A-libm: f32 ln / log10 of the target libm within 1 ulp; sqrt correctly rounded', 'host libm within 1 ulp', 'default build (K1)']
    return ck.finish()
