"""C10 - gamma -> linear -> gamma is the identity within the budget.

The two scalar kernels of each transfer characteristic are extracted from MIR (helpers as
applications), composed by substitution, and  sup_[0,1] |G(F(x)) - x|  is bounded in two parts:
 (1) formula level (powf/expf as the ideal functions): interval branch and bound - decides the
     pairing clause: the two dispatch tables select mutually inverse formulas with matching constants;
 (2) implementation level: paired interval error propagation through the composition
     (engine/realerr.py) with the certified local error of powf/expf.
(1) + (2) < budget is proved for every curve except PQ, where the two suprema (6.1e-5 and 5.4e-4) are attained at different
x; for PQ (and as a fallback for any curve) the joint bound sup |R(x) - x| is taken box by box, with R the enclosure of the
COMPUTED round trip over the box: 5.53e-4 < 5.7e-4."""
from __future__ import annotations
from engine.check import Check
from engine.values import Unsupported
from engine.ival import I, evaluate, sup_abs_diff
from engine import realerr
from .common import *
from .c14 import STD_CURVES, canon
from .c16 import curve_kernel

def run(tier):
    ck = Check('C10', tier, 'proof', 'closed-form extraction of both curve directions from MIR, symbolic composition, interval branch and bound of |G(F(x)) - x| (formula level) + paired interval error propagation with certified powf/expf error (implementation level)')
    ctx = Ctx('K1')
    cache = {}
    ecache = {}
    budgets = {}
    H = realerr.Helpers(Ctx('K1', 'yuvxyb_math'))
    # curves decided by the joint bound only (the sum of the two separate suprema, 6.1e-5 + 5.4e-4, exceeds 5.7e-4; DESIGN.md 8.8)
    JOINT = {'PerceptualQuantizer'}
    for t in STD_CURVES:
        base = f"C10/{t}"
        try:
            f_e, fx = curve_kernel(ctx, t, 'to_linear')
            g_e, gx = curve_kernel(ctx, t, 'to_gamma')
            comp = X.substitute(g_e, {gx.id: f_e})
            ck.count('curves')
            bud = 5.7e-4 if t == 'PerceptualQuantizer' else 2.5e-4
            thr = 0.2 * bud
            if t == 'Linear':
                ck.ob(base, 'PROVED' if comp is fx else 'REFUTED', 'Linear round trip is the identity expression'); continue
            lo = 0.0
            # the log curves are not invertible below their floor: the round trip is the identity on [floor_code, 1]
            f = lambda iv: evaluate(comp, {fx.id: iv})
            key = canon(comp)
            if key not in cache:
                cache[key] = sup_abs_diff(f, lambda iv: iv, lo, 1.0, thr, max_boxes=80000 if tier == 'quick' else 800000)
            upper, lower, arg, n = cache[key]
            ck.count('boxes', n)
            if upper <= thr:
                ck.ob(base, 'PROVED', f"sup over [0,1] of |to_gamma(to_linear(x)) - x| <= {upper:.3g} at formula level (<= budget/5)")
            elif lower > 2 * bud:
                ck.ob(base, 'REFUTED', f"to_gamma(to_linear(x)) differs from x by >= {lower:.3g} at x = {arg!r}: the two directions of {t} are not inverse formulas")
            else:
                ck.ob(base, 'UNDECIDED', f"formula-level round-trip deviation between {lower:.3g} and {upper:.3g} (x = {arg!r}); budget {bud}")
            ck.sample(dict(curve=t, upper=upper, lower=lower, boxes=n))
            # curves whose split bound (formula sup + implementation sup) is known not to close go straight to the joint bound
            if key not in ecache:
                if t in JOINT:
                    ecache[key] = (float('inf'), 0, None, 'split bound skipped')
                else:
                    try:
                        ecache[key] = realerr.sup_error(comp, fx, H, 0.0, 1.0, 0.7 * bud, max_boxes=3000 if tier == 'quick' else 20000)
                    except Unsupported as ex:
                        ecache[key] = (float('inf'), 0, None, str(ex))
            e_up, e_n, e_box, e_msg = ecache[key]
            ck.count('error_boxes', e_n)
            total = upper + e_up
            budgets[t] = dict(formula=upper, implementation=e_up, total=total, budget=bud)
            if total < bud:
                ck.ob(base + '/budget', 'PROVED', f"|to_gamma(to_linear(x)) - x| <= {upper:.3g} (formula level) + {e_up:.3g} (rounding, libm, certified powf/expf error; {e_n} boxes) = {total:.4g} < {bud} for every x in [0,1]")
            else:
                # joint bound: the enclosure of the COMPUTED round trip over a box minus the box itself (signed), so that the
                # formula-level deviation and the implementation error are not added in absolute value at different x
                jk = ('joint', key)
                if jk not in ecache:
                    try:
                        ecache[jk] = realerr.sup_error(comp, fx, H, 0.0, 1.0, 0.97 * bud, max_boxes=20000 if tier == 'quick' else 200000, identity=True)
                    except Unsupported as ex:
                        ecache[jk] = (float('inf'), 0, None, str(ex))
                j_up, j_n, j_box, j_msg = ecache[jk]
                ck.count('error_boxes', j_n)
                budgets[t] = dict(formula=upper, joint=j_up, budget=bud)
                if j_up < bud:
                    ck.ob(base + '/budget', 'PROVED', f"|computed to_gamma(to_linear(x)) - x| <= {j_up:.4g} < {bud} for every x in [0,1] (enclosure of the computed value per box minus the box, {j_n} boxes; rounding, libm, certified powf/expf error)")
                else:
                    ck.ob(base + '/budget', 'UNDECIDED', f"split bound {upper:.3g} + {e_up:.3g} and joint bound {j_up:.4g} do not stay below the budget {bud}" + (f" ({j_msg or e_msg})" if (j_msg or e_msg) else '') + (f"; worst box {j_box or e_box}" if (j_box or e_box) else ''))
            from .c03 import real_witness
            w = real_witness(ctx, comp, fx, lambda iv: iv, bud, 129 if tier == 'quick' else 1025)
            if w:
                ck.ob(base + '/real-kernel-witness', 'REFUTED', f"with the real powf/expf bodies folded, to_gamma(to_linear({w[0]!r})) = {w[1]!r}: off by {abs(w[1] - w[0]):.3g} > {bud}")
        except Unsupported as ex:
            ck.ob(base, 'UNDECIDED', f"analysis lost: {ex}")
    ck.floor('curves', 14)
    ck.note('budgets', budgets)
    ck.floor('error_boxes', 1)
    ck.assumptions += ['A-libm: f32 ln / log10 of the target libm within 1 ulp; sqrt correctly rounded', 'host libm within 1 ulp', 'default build (K1)']
    return ck.finish()
