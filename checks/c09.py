"""C09 - YUV -> XYB -> YUV returns the image (decided: structure; not decided: the budget).

The long conversions must be *exactly* the compositions of the short public conversions
with the configuration's own parameters, in mirrored order:
    Yuv->Xyb  =  (LinearRgb->Xyb) o (Rgb->LinearRgb [t, p]) o (Yuv->Rgb [cfg])
    Xyb->Yuv  =  (Rgb->Yuv [cfg]) o (LinearRgb->Rgb [t, p]) o (Xyb->LinearRgb)
decided by identity of the per-pixel kernel expressions extracted from MIR (helpers as
applications).  Together with the separately decided stage identities - C08 (codes),
C10 (curves), C06 (primaries there-and-back), C05 (opsin) - and the block structure of
C11 this gives the round trip at formula level; width, height and config are data-flow
copies.  NOT decided: the numeric budget max(1, 0.015*(2^n-1)) (approximation accuracy of
powf / cbrtf amplified through the curves, DESIGN.md section 5)."""
from __future__ import annotations
from fractions import Fraction as Fr
from engine.check import Check
from engine.values import Unsupported
from engine.resolve import Resolver
from .common import *
from .conv import *
from .c14 import canon, STD_CURVES, STD_PRIMS

def vec_kernel(ctx, conv, T, m, t, p, **kw):
    it, outs = run_conversion(ctx, conv, T, m, t, p, **kw)
    oks = [(s, v) for s, v in outs if is_ok(ctx.crate, v)] if conv in CONV_FALLIBLE else outs
    if len(oks) != 1:
        raise Unsupported(f"{conv}: {len(oks)} successful outcomes")
    s, v = oks[0]
    img = v.fields[0] if conv in CONV_FALLIBLE else v
    obj, buf = vec_buf(s, field(ctx.crate, img, 'data'))
    k, val, R = element_kernel(it, s, obj)
    return val, img, s

CONV_FALLIBLE = {'Yuv->Rgb', 'Rgb->LinearRgb', 'Yuv->LinearRgb', 'Yuv->Xyb', 'Rgb->Xyb', 'Rgb->Yuv', 'LinearRgb->Rgb', 'LinearRgb->Yuv', 'Xyb->Yuv', 'Xyb->Rgb'}

def pix_atoms(val, prefix):
    out = {}
    for e in scalars(val):
        for n in X.walk(e):
            if n.op == 'load' and X.is_float(n.ty) and n.args[5].startswith(prefix) and len(n.args[4]) == 1:
                out[n.args[4][0]] = n
    return out

def strip_indices(v):
    """replace every input load by a symbol named after its component only (which element is
    read is C11's business; here the per-pixel function is compared)"""
    m = {}
    for e in (scalars(v) if not isinstance(v, X.E) else [v]):
        for n in X.walk(e):
            if n.op == 'load':
                m[n.id] = X.sym(n.ty, f"in.{n.args[5].split('.')[-1] if 'planes' not in n.args[5] else n.args[5].split('planes')[1][:3]}.{n.args[4]}")
    if isinstance(v, X.E):
        return X.substitute(v, m)
    return Agg(v.kind, v.tid, [X.substitute(e, m) for e in v.fields])

def compose(outer, outer_prefix, inner):
    at = pix_atoms(outer, outer_prefix)
    m = {at[c].id: inner.fields[c] for c in at}
    return Agg(outer.kind, outer.tid, [X.substitute(e, m) for e in outer.fields])

def plane_kernels(ctx, conv, T, m, t, p, **kw):
    it, outs = run_conversion(ctx, conv, T, m, t, p, **kw)
    oks = [(s, v) for s, v in outs if is_ok(ctx.crate, v)]
    if len(oks) != 1:
        raise Unsupported(f"{conv}: {len(oks)} successful outcomes")
    s, v = oks[0]
    R = Resolver(it, s)
    ks = []
    for (_, cfg, obj, buf) in yuv_planes(ctx, s, v.fields[0]):
        if len(buf.stores) != 1: raise Unsupported('plane with several stores')
        ks.append(R.resolve(buf.stores[0].value))
    return ks, v.fields[0], s

def run(tier):
    ck = Check('C09', tier, 'proof', 'kernel-expression identity between the long conversions and the compositions of the short public conversions (MIR abstract interpretation with helpers as function summaries); imported stage identities C05/C06/C08/C10; data-flow identity of dimensions and config')
    ctx = Ctx('K1')
    mats = ['BT709', 'ST170M', 'BT2020NonConstantLuminance', 'YCgCo'] if tier == 'quick' else STD_MATRICES
    curves = ['BT1886', 'SRGB', 'PerceptualQuantizer', 'HybridLogGamma', 'Linear', 'Logarithmic100'] if tier == 'quick' else STD_CURVES
    prims = ['BT709', 'BT2020', 'P3DCI', 'BT470M'] if tier == 'quick' else [p for p in STD_PRIMS if p != 'ST428']
    combos = []
    for i, m in enumerate(mats):
        for j, t in enumerate(curves):
            for k, p in enumerate(prims):
                if tier == 'quick' and (i + j + k) % 3: continue
                combos.append((m, t, p))
    for (m, t, p) in combos:
        for T, bd, full in (('u8', 8, False), ('u16', 10, True)) if tier == 'quick' else (('u8', 8, False), ('u8', 8, True), ('u16', 10, False), ('u16', 12, True), ('u16', 16, False)):
            base = f"C09/{m}/{t}/{p}/{T}/{bd}/{'full' if full else 'limited'}"
            kw = dict(bd=bd, full=full)
            try:
                set_plane_ranges(T, bd)
                k_dec, rgb_img, _ = vec_kernel(ctx, 'Yuv->Rgb', T, m, t, p, **kw)
                lab = (enum_name(ctx.crate, field(ctx.crate, rgb_img, 'transfer')), enum_name(ctx.crate, field(ctx.crate, rgb_img, 'primaries')))
                k_lin, _, _ = vec_kernel(ctx, 'Rgb->LinearRgb', T, m, lab[0], lab[1])
                k_ops, _, _ = vec_kernel(ctx, 'LinearRgb->Xyb', T, m, t, p)
                k_long, xyb_img, s_long = vec_kernel(ctx, 'Yuv->Xyb', T, m, t, p, **kw)
                comp = compose(k_ops, 'lrgb.data', compose(k_lin, 'rgb.data', k_dec))
                ck.count('triples')
                ok_f = canon(strip_indices(comp)) == canon(strip_indices(k_long)) and lab == (t, p)
                ck.ob(base + '/forward', 'PROVED' if ok_f else 'REFUTED',
                      'Yuv->Xyb = opsin o (primaries->BT.709 o to_linear)[t,p of the config] o decode[config] as kernel expressions' if ok_f else
                      f"Yuv->Xyb is not the composition decode -> to_linear({t}) -> primaries({p}->BT709) -> opsin (labels passed on: {lab})")
                dims = field(ctx.crate, xyb_img, 'width') is X.sym(X.USIZE, 'yuv.data.planes[0].cfg.width') and field(ctx.crate, xyb_img, 'height') is X.sym(X.USIZE, 'yuv.data.planes[0].cfg.height')
                # backward
                k_inv, _, _ = vec_kernel(ctx, 'Xyb->LinearRgb', T, m, t, p)
                k_gam, _, _ = vec_kernel(ctx, 'LinearRgb->Rgb', T, m, t, p)
                ks_enc, _, _ = plane_kernels(ctx, 'Rgb->Yuv', T, m, t, p, **kw)
                ks_long, yuv_out, s_b = plane_kernels(ctx, 'Xyb->Yuv', T, m, t, p, **kw)
                inner = compose(k_gam, 'lrgb.data', k_inv)
                ok_b = True
                for pl in range(3):
                    at = pix_atoms(Agg('array', None, [ks_enc[pl]]), 'rgb.data')
                    comp_b = X.substitute(ks_enc[pl], {at[c].id: inner.fields[c] for c in at})
                    if canon(strip_indices(comp_b)) != canon(strip_indices(ks_long[pl])): ok_b = False
                ck.ob(base + '/backward', 'PROVED' if ok_b else 'REFUTED',
                      'Xyb->Yuv = encode[config] o (to_gamma o BT.709->primaries)[t,p of the config] o opsin^-1 as kernel expressions' if ok_b else
                      f"Xyb->Yuv is not the composition opsin^-1 -> primaries(BT709->{p}) -> to_gamma({t}) -> encode")
                outcfg = field(ctx.crate, yuv_out, 'config')
                want = ctx.yuv_config(m=m, t=t, p=p, **kw)
                same = all(a is b or (isinstance(a, EnumV) and isinstance(b, EnumV) and a.variant == b.variant) for a, b in zip(outcfg.fields, want.fields))
                pw = yuv_planes(ctx, s_b, yuv_out)[0][1]
                dims_b = pw['width'] is X.sym(X.USIZE, 'xyb.width') and pw['height'] is X.sym(X.USIZE, 'xyb.height')
                ck.ob(base + '/dims-config', 'PROVED' if dims and dims_b and same else 'REFUTED', 'width, height and config are data-flow copies in both directions' if dims and dims_b and same else f"dims/config not preserved (forward dims {dims}, backward dims {dims_b}, config {same})", nontrivial=False)
            except Unsupported as ex:
                ck.ob(base, 'UNDECIDED', f"analysis lost: {ex}")
    # in-gamut colours of every physical primaries set reach the opsin stage as BT.709-linear pixels
    # with possibly negative components but positive mixes: the clamp in front of the cube root
    # is inactive there, so the opsin stage is the invertible map C05 analyses
    try:
        from .xyb import Forward
        from .c06 import ideal as ideal_primaries
        import itertools
        F = Forward(ctx, lo=Fr(-1), hi=Fr(2))
        for pn in [q for q in STD_PRIMS if q != 'ST428']:
            Mp = ideal_primaries(pn, 'BT709')
            worst = None
            for v in itertools.product((Fr(0), Fr(1)), repeat=3):
                x = [sum(Mp[i][j] * v[j] for j in range(3)) for i in range(3)]
                for aid, mx in F.mix.items():
                    val = sum(mx['coef'][j] * x[j] for j in range(3)) + mx['const']
                    worst = val if worst is None else min(worst, val)
            ok = worst is not None and worst >= Fr(3, 1000) and all(mx['clamped'] for mx in F.mix.values())
            ck.ob(f"C09/in-gamut-mixes/{pn}", 'PROVED' if ok else 'REFUTED',
                  f"opsin mixes of every in-gamut {pn} colour are >= {float(worst):.4g} > 0: nothing is clamped on the way to XYB" if ok else
                  f"an in-gamut {pn} colour has an opsin mix of {float(worst) if worst is not None else None}: clamped, not invertible")
    except Unsupported as ex:
        ck.ob('C09/in-gamut-mixes', 'UNDECIDED', f"the opsin stage is not 'cube root of the clamped affine mix of the unclamped pixel': {ex}")
    # block structure of the two long conversions themselves (the C11 rules: every sample written, chroma = kernel of
    # a pixel of its own block, pointwise): needed for the subsampled clause and for 'every sample changes by at most ...'
    from . import c11
    for conv in ('Yuv->Xyb', 'Xyb->Yuv'):
        for T in ('u8', 'u16'):
            for (ssx, ssy) in ((0, 0), (1, 1), (1, 0)):
                key = f"C09/structure/{conv}/{T}/ss{ssx}{ssy}"
                try:
                    c11.conversion_structure(ck, ctx, conv, T, ssx, ssy, key)
                except Unsupported as ex:
                    ck.ob(key, 'UNDECIDED', f"analysis lost: {ex}")
    # numeric budget (DESIGN.md 8.9): the code change of the round trip for every decoded in-gamut pixel
    from .c09num import numeric_budget
    try:
        numeric_budget(ck, tier, STD_CURVES, STD_PRIMS)
    except Unsupported as ex:
        ck.ob('C09/budget', 'UNDECIDED', f"analysis lost: {ex}")
    ck.note('imported_stage_identities', ['C08 (decode/encode codes)', 'C10 (to_gamma o to_linear)', 'C06 (primaries there-and-back)', 'C05 (opsin inverse)', 'C11 (block structure for subsampled images)'])
    ck.note('not_decided', ['the numeric budget for transfer BT470BG (gamma 2.8) and xvYCC with any primaries and for the BT.1886 family with primaries ST170M / ST240M (bounds 1.0 - 1.7 x budget, DESIGN.md 8.9); 100 of 130 (transfer, primaries) pairs are decided in the thorough tier'])
    ck.floor('triples', 20)
    return ck.finish()
