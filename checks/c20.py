"""C20 - build configuration changes precision only, never semantics (decided parts).

(a) feature wiring (cargo's own feature resolution): with default features the math crate
    gets `fastmath`, with --no-default-features it must not (the CHANGELOG's contract);
(b) cfg reachability: in the fastmath-off build powf/expf/cbrtf ARE the libm calls, in
    the default build they are the polynomial / bit-trick bodies;
(c) FMA siblings: both arms of every cfg!(target_feature = "fma") denote the same real
    expression a*b+c (polynomial identity between the K1 and K2 bodies);
(d) the conversions outside the helpers are the *same expressions* in the default and
    the fastmath-off build (kernel identity with helpers as applications), and the
    budgets that involve no approximation (C01, C02, C08) hold in the FMA build too.
(e) the transfer curves stay within their budgets in the FMA build (K2) and within 5e-5 in the
    libm build (K3) - the C03 analysis with that build's kernels and helper bodies -, and the two
    builds agree within the fastmath budget: |fast - libm| <= |fast - ideal| + |libm - ideal|."""
from __future__ import annotations
import json, os, subprocess
from engine.check import Check
from engine.values import Unsupported
from engine.apps import summary
from engine.fbound import Analyzer
from engine import facts
from .common import *
from .c14 import STD_CURVES, canon
from .c16 import curve_kernel
from .c18 import fn_key

def resolved_features(no_default):
    cmd = ['cargo', 'metadata', '--format-version', '1', '--offline'] + (['--no-default-features'] if no_default else [])
    env = dict(os.environ); env['CARGO_NET_OFFLINE'] = 'true'
    p = subprocess.run(cmd, cwd=facts.REPO, capture_output=True, text=True, env=env)
    if p.returncode != 0:
        raise Unsupported('cargo metadata failed: ' + p.stderr[-300:])
    md = json.loads(p.stdout)
    out = {}
    for n in md['resolve']['nodes']:
        name = n['id'].split('#')[0].rsplit('/', 1)[-1] if '#' in n['id'] else n['id'].split(' ')[0]
        pid = n['id']
        for pk in md['packages']:
            if pk['id'] == pid:
                out[pk['name']] = sorted(n['features'])
    return out

def run(tier):
    ck = Check('C20', tier, 'proof', 'cargo feature resolution (manifest analysis) + cfg reachability and sibling-expression identity on the MIR of the four build configurations')
    # (a) wiring
    try:
        fd, fn = resolved_features(False), resolved_features(True)
        ck.note('features_default', {k: fd.get(k) for k in ('yuvxyb', 'yuvxyb-math')})
        ck.note('features_no_default', {k: fn.get(k) for k in ('yuvxyb', 'yuvxyb-math')})
        ok_d = 'fastmath' in fd.get('yuvxyb-math', [])
        ok_n = 'fastmath' not in fn.get('yuvxyb-math', [])
        ck.ob('C20/wiring/default', 'PROVED' if ok_d else 'REFUTED', f"default build: yuvxyb-math features {fd.get('yuvxyb-math')}")
        ck.ob('C20/wiring/no-default-features', 'PROVED' if ok_n else 'REFUTED',
              f"--no-default-features: yuvxyb-math features {fn.get('yuvxyb-math')}" + ('' if ok_n else ': the fastmath feature cannot be turned off (dependency declared without default-features = false), contrary to the CHANGELOG'))
    except Unsupported as ex:
        ck.ob('C20/wiring', 'UNDECIDED', str(ex))
    # (b) cfg reachability in the conversions' crate
    for b, want_fast in (('K1', True), ('K3', False)):
        try:
            ctx = Ctx(b)
            it = ctx.interp()
            for name in ('powf', 'expf', 'cbrtf'):
                key = f'yuvxyb_math::{name}'
                formals, body, rec = summary(it, key)
                libm = [n.op for n in X.walk(body) if n.op.startswith('call:libm_')]
                bits = any(n.op == 'cast:bits' for n in X.walk(body))
                is_fast = bits and not any(l in ('call:libm_powf', 'call:libm_exp', 'call:libm_cbrt') for l in libm)
                is_libm = (not bits) and body.op in ('call:libm_powf', 'call:libm_exp', 'call:libm_cbrt') and all(a in formals for a in body.args)
                ok = is_fast if want_fast else is_libm
                ck.ob(f"C20/cfg/{name}/{b}", 'PROVED' if ok else 'REFUTED',
                      (f"{name} is the fast approximation body" if want_fast else f"{name}(args) is exactly the libm call {body.op[5:]}(args)") if ok else
                      f"in build {b} {name} is {'the libm call' if is_libm else 'the fast body' if is_fast else X.show(body, 4)}, expected {'fast body' if want_fast else 'libm'}")
                ck.count('helpers')
        except Unsupported as ex:
            ck.ob(f"C20/cfg/{b}", 'UNDECIDED', f"analysis lost: {ex}")
    # (c) FMA siblings
    try:
        polys = {}
        for b in ('K1', 'K2'):
            ctx = Ctx(b, 'yuvxyb_math')
            for key, fn in ctx.crate.fns.items():
                nm = fn['def'].split('::')[-1]
                if nm in ('multiply_add', 'fast_mul_add') and fn['argc'] == 3:
                    it = ctx.interp(); st = State()
                    tys = [it.sty(fn['locals'][i + 1]) for i in range(3)]
                    args = [X.sym(t, f'fma.arg{i}') for i, t in enumerate(tys)]
                    outs = it.call_fn(st, key, args)
                    an = Analyzer(atom_range=lambda n: (-2, 2))
                    a = an.ev(outs[0][1])
                    uses_fma = any(n.op == 'fma' for n in X.walk(outs[0][1]))
                    polys.setdefault(key, {})[b] = (str(a.p), uses_fma, a.p, args)
        for key, d in polys.items():
            if set(d) != {'K1', 'K2'}:
                ck.ob(f"C20/fma/{key}", 'UNDECIDED', 'function not present in both builds'); continue
            a0, a1, a2 = d['K1'][3]
            from engine.fbound import Poly
            want = Poly.atom(a0.id) * Poly.atom(a1.id) + Poly.atom(a2.id)
            ok = d['K1'][2] == want and d['K2'][2] == want and d['K2'][1] and not d['K1'][1]
            ck.ob(f"C20/fma/{key}", 'PROVED' if ok else 'REFUTED',
                  'fused and unfused arms both denote arg0*arg1 + arg2' if ok else f"non-FMA arm computes {d['K1'][0]}, FMA arm computes {d['K2'][0]} (uses fma: {d['K2'][1]})")
            ck.count('fma_siblings')
    except Unsupported as ex:
        ck.ob('C20/fma', 'UNDECIDED', f"analysis lost: {ex}")
    # (d) same kernels with and without fastmath (helpers as applications)
    try:
        c1, c3 = Ctx('K1'), Ctx('K3')
        diff = []
        for t in STD_CURVES:
            for d in ('to_linear', 'to_gamma'):
                k1 = canon(curve_kernel(c1, t, d)[0]); k3 = canon(curve_kernel(c3, t, d)[0])
                ck.count('kernels_compared')
                if k1 != k3: diff.append(f"{t} {d}")
        ck.ob('C20/kernels-fastmath-vs-libm', 'PROVED' if not diff else 'REFUTED',
              'all 28 curve kernels are the same expressions in both builds (only the helper bodies differ)' if not diff else f"kernels differ between the builds for {diff[:4]}")
    except Unsupported as ex:
        ck.ob('C20/kernels-fastmath-vs-libm', 'UNDECIDED', f"analysis lost: {ex}")
    # (e) the curve budgets in the other builds, and agreement of the fastmath and the libm build
    from . import c03
    from engine import realerr
    try:
        b2 = c03.analyse(ck, tier, 'K2', prefix='C20/curves', witness=False, clauses=False)                     # fastmath + FMA: same budgets as C03
        # known not to close on the reference tree (reasons in DESIGN.md 8.8): recorded as not decided, never as a violation
        NC3 = {'PerceptualQuantizer/to_linear': 'near x = 1 the denominator C2 - C3*x^(1/m2) = 0.164 cancels: one ulp of libm powf (A-libm allows a full ulp) becomes 4.6e-5 after ^(1/m1)'}
        b3 = c03.analyse(ck, tier, 'K3', prefix='C20/curves', budget_fn=lambda t, d: 5e-5, witness=False, clauses=False, not_closing=NC3)   # libm build: 5e-5
        # agreement: both builds evaluate the same ideal kernel (d); |fast - libm| <= |fast - ideal| + |libm - ideal|
        H1 = realerr.Helpers(Ctx('K1', 'yuvxyb_math')); H3 = realerr.Helpers(Ctx('K3', 'yuvxyb_math'))
        c1, c3 = Ctx('K1'), Ctx('K3')
        seen = {}
        for t in STD_CURVES:
            for d in ('to_linear', 'to_gamma'):
                if t == 'Linear': continue
                e, x = curve_kernel(c1, t, d)
                e3_, x3 = curve_kernel(c3, t, d)
                k = canon(e)
                bud = c03.budget(t, d)
                if k not in seen:
                    try:
                        a = realerr.sup_error(e, x, H1, 0.0, 1.0, 0.56 * bud, max_boxes=3000 if tier == 'quick' else 12000)[0]
                        b_ = realerr.sup_error(e3_, x3, H3, 0.0, 1.0, 0.03 * bud, max_boxes=3000 if tier == 'quick' else 12000)[0]
                        seen[k] = (a, b_)
                    except Unsupported:
                        seen[k] = (float('inf'), float('inf'))
                e1, e3 = seen[k]
                ok = e1 + e3 < bud
                ck.count('agreement')
                if ok:
                    ck.ob(f"C20/agreement/{t}/{d}", 'PROVED', f"|fastmath build - libm build| <= {e1:.3g} + {e3:.3g} = {e1 + e3:.4g} < {bud} on [0,1] (same ideal kernel in both builds)")
                elif f"{t}/{d}" in NC3:
                    ck.note(f"agreement_not_decided/{t}/{d}", f"bound {e1:.3g} + {e3:.3g} vs {bud}: {NC3[f'{t}/{d}']}")
                else:
                    ck.ob(f"C20/agreement/{t}/{d}", 'UNDECIDED', f"bound {e1:.3g} + {e3:.3g} not below {bud}")
    except Unsupported as ex:
        ck.ob('C20/curves', 'UNDECIDED', f"analysis lost: {ex}")
    # (f) XYB and HSL in the libm build, and agreement of the two builds on them
    try:
        from .xyb import check_c04, check_c05, forward_agreement
        from .c14 import canon as canon_
        from .c17 import kernel as px_kernel
        from engine.check import Check as _Check
        c1, c3 = Ctx('K1'), Ctx('K3')
        check_c04(ck, c3, 'K3', tier)             # C04's budget with the libm cube root (A-libm: one ulp)
        check_c05(ck, c3, 'K3', tier)                  # C05's budget likewise
        ck.count('xyb_libm')
        H1 = realerr.Helpers(Ctx('K1', 'yuvxyb_math')); H3 = realerr.Helpers(Ctx('K3', 'yuvxyb_math'))
        if H1.cbrt_rel is None or H3.cbrt_rel is None:
            ck.ob('C20/agreement/xyb-forward', 'UNDECIDED', 'accuracy of the cube root helper not certified in both builds')
        else:
            forward_agreement(ck, c1, c3, H1.cbrt_rel, H3.cbrt_rel)
        # conversions that use no helper at all: the same expression in both builds means bit-identical results
        for conv, nm in (('Xyb->LinearRgb', 'xyb.data'), ('LinearRgb->Hsl', 'linearrgb.data'), ('Hsl->LinearRgb', 'hsl.data')):
            v1, _ = px_kernel(c1, conv, nm); v3, _ = px_kernel(c3, conv, nm)
            same = len(v1.fields) == len(v3.fields) and canon_(list(v1.fields)) == canon_(list(v3.fields))
            helper = any(n_.op == 'app' or n_.op.startswith('call:libm_') for vv in (v1, v3) for f_ in vv.fields for n_ in X.walk(f_))
            ck.count('helper_free_kernels', 0 if helper else 1)
            if helper:
                # (Xyb->LinearRgb uses cbrtf(-bias) as a constant: the two builds' constants may differ by two ulps and every
                #  rounding after it may fall differently: only "both within the C05 bound of the ideal value" is known)
                ck.note(f"agreement_not_decided/{conv}", 'the kernel applies a math helper (to a constant): results of the two builds are not bit-identical; both satisfy the C05 bound')
                continue
            ck.ob(f"C20/agreement/{conv}", 'PROVED' if same else 'UNDECIDED',
                  'the per-pixel kernel is the same expression in both builds and contains no powf/expf/cbrtf: bit-identical results' if same else 'the kernels of the two builds differ')
    except Unsupported as ex:
        ck.ob('C20/xyb-hsl-libm', 'UNDECIDED', f"analysis lost: {ex}")
    # budgets without approximation in the FMA build (a reduced sweep; the full one is the thorough tier of C01/C02/C08)
    from . import c01, c02, c08
    for mod in (c01, c02, c08):
        mod.analyse(ck, 'quick' if tier == 'quick' else 'thorough', ('K2',))
    ck.floor('helpers', 6); ck.floor('fma_siblings', 3); ck.floor('kernels_compared', 28); ck.floor('agreement', 26); ck.floor('xyb_libm', 1); ck.floor('helper_free_kernels', 2)
    ck.note('not_decided', ['PQ to_linear within 5e-5 in the libm build and its agreement clause (A-libm allows a full ulp)', 'helpers agree with libm to 2 ulp in the libm build: they ARE the libm calls (cfg clause), A-libm'])
    return ck.finish()
