"""C02 - RGB->YUV encoding rounds to the nearest code of the H.273 quantisation.

The encode entry point is interpreted on MIR per configuration with the RGB pixel
abstract.  For every plane the stored value must have the shape
    cast(clamp_int(sat_u16(round(v)), 0, 2^n-1))            (+ the full-range chroma
    special case |C+0.5| < eps -> 0)
where round / saturating cast / integer clamp are monotone and 1-Lipschitz; the
pre-rounding value v is an affine form of (r,g,b) whose exact coefficients are compared
with the H.273 quantisation in rational arithmetic, roundings bounded a priori:
e = sup |v - v*| over [-0.5,1.5]^3  must satisfy  e <= 1e-6 * 2^n."""
from __future__ import annotations
from fractions import Fraction as Fr
import itertools
from engine.check import Check
from engine.values import Unsupported
from engine.fbound import peel_int_clamp
from engine.resolve import Resolver
from .common import *

def strip_int_casts(e):
    while e.op in ('icast', 'cast') and X.is_int(e.ty) and e.args and X.is_int(e.args[0].ty):
        e = e.args[0]
    return e

def split_code(e):
    """Separate a stored code into  G(conv)  where conv is the unique float->int
    conversion node; a leading `select(cond, 0, main)` is reported as a special case."""
    special = None
    top = strip_int_casts(e)
    if top.op == 'select':
        c, a, b = top.args
        a0 = strip_int_casts(a)
        if a0.is_const and a0.val == 0 and any(X.is_float(n.ty) for n in X.walk(c)):
            special = c
            e = b
    convs = [n for n in X.walk(e) if n.op == 'cast' and X.is_int(n.ty) and X.is_float(n.args[0].ty)]
    convs += [n for n in X.walk(e) if n.op == 'ftoi_unchecked']
    if len(convs) != 1:
        raise Unsupported(f'stored code has {len(convs)} float->int conversions (expected one)')
    return e, convs[0], special

def wrapper_table(e, conv, rlo, rhi):
    """Exact description of the integer wrapper G as a function of the mathematical
    integer r produced by the rounding step: evaluates G at every breakpoint (type
    bounds, constants of the wrapper, wrap-around boundaries) and at the points next to
    them; between breakpoints every wrapper op is affine, so agreement at the segment
    ends is agreement on the segment.  Returns list of (r, G(r))."""
    tlo, thi = X.int_range(conv.ty)
    bps = {rlo, rhi, tlo, thi, 0}
    for n in X.walk(e):
        if n.op == 'const' and X.is_int(n.ty):
            bps.add(n.val)
        if n.op in ('wrap', 'icast', 'cast') and X.is_int(n.ty):
            lo, hi = X.int_range(n.ty)
            bps.update((lo, hi))
            mod = 1 << n.ty[1]
            k0, k1 = rlo // mod, rhi // mod + 1
            if k1 - k0 > 64:
                raise Unsupported('too many wrap-around boundaries in the code range')
            for k in range(k0, k1 + 1):
                bps.update((k * mod + lo, k * mod + hi))
    pts = set()
    for b in bps:
        for d in (-1, 0, 1):
            if rlo <= b + d <= rhi:
                pts.add(b + d)
    out = []
    for r in sorted(pts):
        c = min(max(r, tlo), thi)          # saturating float->int cast of an integral float
        g = X.substitute(e, {conv.id: X.const(conv.ty, c)})
        if not g.is_const:
            raise Unsupported('integer wrapper does not fold to a constant')
        out.append((r, g.val))
    return out

def peel_code(e, bd, T, vrange):
    """Returns (v, problem, special).  problem = None when the wrapper is exactly
    r -> clamp(r, 0, 2^n-1) on every reachable r and the conversion rounds to nearest."""
    e, conv, special = split_code(e)
    inner = conv.args[0]
    if conv.op == 'ftoi_unchecked':
        return None, ('unchecked', 'float->int conversion without saturation'), special
    if inner.op != 'call:round':
        return None, ('rounding', inner.op), special
    v = inner.args[0]
    rlo, rhi = vrange(v)
    mx = (1 << bd) - 1
    for r, g in wrapper_table(e, conv, rlo, rhi):
        want = min(max(r, 0), mx)
        if g != want:
            return v, ('wrapper', r, g, want), special
    return v, None, special

def ideal_quant(m, bd, full, plane):
    """exact affine form (c0, [cr,cg,cb]) of the real-valued H.273 quantisation"""
    F = ideal_forward(m)[plane]
    black, rng = ideal_norm(bd, full, plane > 0)
    return black, [rng * x for x in F]

def run(tier):
    ck = Check('C02', tier, 'proof', 'abstract interpretation of MIR: per-plane store summaries, affine forms with a-priori rounding bounds, monotone-wrapper argument')
    builds = ('K1',) if tier == 'quick' else ('K1', 'K2')
    analyse(ck, tier, builds)
    return ck.finish()

def analyse(ck, tier, builds, prefix=''):
    ctxs = {b: Ctx(b) for b in builds}
    box = [Fr(-1, 2), Fr(3, 2)]
    pts = list(itertools.product(box, repeat=3)) + list(itertools.product([Fr(0), Fr(1)], repeat=3)) + [(Fr(1, 2),) * 3]
    worst_rel = Fr(0)
    for b, m, full, bd, T in configs(tier, builds):
        ctx = ctxs[b]
        base = f"C02/encode/{m}/{'full' if full else 'limited'}/{bd}/{T}/{b}"
        budget = Fr(1, 10 ** 6) * (1 << bd)
        try:
            cfgv = ctx.yuv_config(m=m, bd=bd, full=full)
            it, outs, rgb, w, h = encode(ctx, T, cfgv)
            oks = [(s, v) for s, v in outs if is_ok(ctx.crate, v)]
            if len(oks) != 1:
                ck.ob(base, 'REFUTED', 'encoding with a standard matrix does not return exactly one Ok outcome' + describe_panics(it))
                continue
            st, res = oks[0]
            yuv = res.fields[0]
            ck.count('encodes_interpreted')
            # config and dimensions carried verbatim
            outcfg = field(ctx.crate, yuv, 'config')
            same = all(a is bb or (isinstance(a, EnumV) and isinstance(bb, EnumV) and a.variant == bb.variant)
                       for a, bb in zip(outcfg.fields, cfgv.fields))
            planes = yuv_planes(ctx, st, yuv)
            dims_ok = planes[0][1]['width'] is w and planes[0][1]['height'] is h
            ck.ob(base + '/config-dims', 'PROVED' if (same and dims_ok) else 'REFUTED',
                  'output config / luma dimensions are data-flow copies of the request' if (same and dims_ok) else
                  f"output config or dimensions differ from the request: config same={same}, dims {planes[0][1]['width']} x {planes[0][1]['height']}")
            R = Resolver(it, st)
            for p, (pv, pcfg, obj, buf) in enumerate(planes):
                key = f"{base}/plane{p}"
                if len(buf.stores) != 1:
                    ck.ob(key, 'UNDECIDED', f"plane {p} has {len(buf.stores)} store summaries (expected one)")
                    continue
                from .c11 import every_sample_written
                why = every_sample_written(it, planes, p, st.pc)
                if why is not None:
                    ck.ob(key + '/coverage', 'REFUTED' if 'lemma side condition' in why else 'UNDECIDED', f"not every sample of plane {p} is stored (samples keep the fill value): {why}")
                val = R.resolve(buf.stores[0].value)
                an = Analyzer(atom_range=lambda n: (Fr(-1, 2), Fr(3, 2)) if X.is_float(n.ty) else None)
                import math
                def vrange(vn):
                    av = an.ev(vn)
                    return math.floor(av.lo) - 1, math.ceil(av.hi) + 1
                v, bad, special = peel_code(val, bd, T, vrange)
                if bad is not None and bad[0] != 'wrapper':
                    if bad[0] == 'rounding':
                        ck.ob(key, 'REFUTED', f"pre-quantisation value is not rounded to nearest (found {bad[1]})")
                    else:
                        ck.ob(key, 'REFUTED', bad[1])
                    continue
                a = an.ev(v)
                if bad is not None:
                    _, r, g, want = bad
                    plo, phi = an.prange(a.p)
                    definite = plo + a.err + 1 <= r <= phi - a.err - 1
                    ck.ob(key, 'REFUTED' if definite else 'UNDECIDED',
                          f"a pre-rounding value of {r} is stored as code {g}, the clamped H.273 code is {want}"
                          + (' (value reachable inside [-0.5,1.5]^3)' if definite else ' (reachability of that value not established)'))
                    continue
                if a.p.degree() > 1:
                    raise Unsupported('pre-rounding value is not affine in the pixel')
                coef = [Fr(0)] * 3
                for aid in a.p.atoms():
                    pc_ = pixel_component(an.atom_info[aid]['node'])
                    if pc_ is None or not pc_[0].startswith('rgb.data'):
                        raise Unsupported('encode kernel reads something other than the RGB pixel')
                    coef[pc_[1]] = a.p.coef(aid)
                c0, ideal = ideal_quant(m, bd, full, p)
                d0 = a.p.constant() - c0
                dj = [coef[j] - ideal[j] for j in range(3)]
                dev = lambda x: abs(d0 + sum(dj[j] * x[j] for j in range(3)))
                e = max(dev(x) for x in pts[:8]) + a.err
                worst_rel = max(worst_rel, e / (1 << bd))
                # refutation: a definite systematic deviation at a point where the ideal code is not clamped
                lower = None
                for x in pts:
                    ideal_v = c0 + sum(ideal[j] * x[j] for j in range(3))
                    if Fr(1) <= ideal_v <= (1 << bd) - 2 and dev(x) - a.err > budget:
                        lower = (x, dev(x) - a.err)
                        break
                if e <= budget:
                    ck.ob(key, 'PROVED', f"sup|v - v*| <= {float(e):.3e} <= 1e-6*2^{bd}")
                elif lower:
                    ck.ob(key, 'REFUTED', f"pre-rounding value deviates from the H.273 quantisation by >= {float(lower[1]):.4g} codes at rgb={[float(t) for t in lower[0]]} "
                          f"(coefficients {[float(t) for t in coef]} vs ideal {[float(t) for t in ideal]}, offset {float(a.p.constant())} vs {float(c0)})")
                else:
                    ck.ob(key, 'UNDECIDED', f"bound {float(e):.3e} exceeds the budget {float(budget):.3e} without a definite witness")
                if special is not None:
                    ok, why = check_special(special, v, an, a, full, p, bd)
                    ck.ob(key + '/special', 'PROVED' if ok else 'UNDECIDED', why)
                if p == 1 and bd == 10:
                    ck.sample(dict(config=base, plane=p, coef=[float(t) for t in coef], ideal=[float(t) for t in ideal], bound_codes=float(e)))
        except Unsupported as ex:
            ck.ob(base, 'UNDECIDED', f"analysis lost: {ex}")
    ck.note('worst_bound_relative_to_2^n', float(worst_rel))
    ck.floor('encodes_interpreted', (56 if tier == 'quick' else 140) * len(builds))
    ck.assumptions += ['A-geom: dimensions below 2^28', 'pixel components finite in [-0.5, 1.5] (the property\'s quantifier)']
    return None

def check_special(cond, v, an, a, full, p, bd):
    """cond must be |C + 0.5| < eps with C the chroma value that also feeds the main path;
    then the returned code 0 deviates from the ideal by <= 0.5 + scale*(eps + e_dot)."""
    if not (full and p > 0):
        return False, 'zero special case on a plane / range where the property has none'
    if cond.op == 'lt' and cond.args[1].is_const and cond.args[0].op == 'call:abs':
        inner = cond.args[0].args[0]
        if inner.op == 'fadd' and inner.args[1].is_const and inner.args[1].val == 0.5:
            C = inner.args[0]
            eps = Fr(cond.args[1].val)
            # C must be the chroma value multiplied by the scale in v: v = fma(C, scale, offset)
            if v.op == 'fma' and v.args[0] is C:
                ac = an.ev(C)
                scale = Fr(v.args[1].val)
                slack = scale * (eps + ac.err)
                if slack <= Fr(1, 10 ** 6) * (1 << bd):
                    return True, f"special case |C+0.5| < {float(eps):.3g}: code 0 deviates from the ideal by <= 0.5 + {float(slack):.3g}"
                return False, f"special-case window too wide: slack {float(slack):.3g} codes"
    return False, 'unrecognised special-case condition'
