"""C07 - no safe API call sequence reaches undefined behaviour.

One proof obligation per unsafe operation reachable from a public entry point
(DESIGN.md section 3, C07).  The unsafe operations are *found* by interpreting every
conversion on MIR (models of get_unchecked / from_raw_parts_mut / to_int_unchecked record
the operation with its path condition) and cross-checked against the HIR unsafe blocks;
inputs are obtained through the public constructors so that only the constructor's Ok
path condition is assumed about caller data.  Index obligations are discharged by
Positivstellensatz certificates (engine/prover.py), re-verified exactly; the float
obligation by an interval + NaN-flag analysis; refutations come with a concrete witness
found in the extracted constraint system."""
from __future__ import annotations
import itertools, math, re
import numpy as np
from engine.check import Check
from engine.values import Unsupported
from engine.prover import Prover
from engine.frange import frange
from engine.veval import veval, veval_pc
from engine import facts
from .common import *
from .conv import *

ALL_CURVES = ['BT1886', 'BT470M', 'BT470BG', 'SRGB', 'XVYCC', 'Logarithmic100', 'Logarithmic316', 'PerceptualQuantizer', 'HybridLogGamma', 'Linear']
SS = [(0, 0), (1, 0), (1, 1), (0, 1), (2, 0), (2, 2), (0, 2), (2, 1), (1, 2)]

def sanitize(s):
    return re.sub(r'#\d+', '', s)

def site_key(ob):
    fn, ln = ob['site']
    return f"{fn}"

def witness(ob, goal, max_syms=14):
    """Bounded search, in the extracted constraint system, for values satisfying every
    fact of the path condition and violating the goal."""
    def isyms(c):
        return {n.args[0]: n for n in X.walk(c) if n.op == 'sym' and X.is_int(n.ty)}
    allc = [c for c in ob['pc'] if not any(n.op == 'sym' and n.args[0].startswith('exists') for n in X.walk(c))]
    syms = isyms(goal)
    conds = []
    changed = True
    rest = list(allc)
    while changed:            # facts connected to the goal through shared symbols
        changed = False
        for c in list(rest):
            s = isyms(c)
            if set(s) & set(syms):
                syms.update(s); conds.append(c); rest.remove(c); changed = True
    if len(syms) > max_syms:
        return None
    names = sorted(syms)
    # loop variables get the small values too; lengths / strides a few more
    vals = np.array([0, 1, 2, 4], dtype=np.int64)
    if len(names) > 11:
        vals = np.array([0, 1, 2], dtype=np.int64)
    env = {}
    for i, nme in enumerate(names):
        shape = [1] * len(names); shape[i] = len(vals)
        env[nme] = vals.reshape(shape)
    try:
        ok = veval_pc(conds, env)
        g = veval(goal, env)
    except Unsupported:
        return None
    bad = np.broadcast_to(ok & ~g, [len(vals)] * len(names))
    if not bad.any():
        return None
    idx = np.argwhere(bad)[0]
    return {n: int(vals[i]) for n, i in zip(names, idx)}

def short(name):
    return name.replace('yuv.data.planes', 'plane').replace('.cfg.', '.').replace('.data.data.len', '.buffer_len')

def run(tier):
    ck = Check('C07', tier, 'proof', 'unsafe-operation inventory from MIR + one proof obligation per operation: Positivstellensatz certificates for indices (exactly re-verified), interval/NaN-flag analysis for unchecked float->int, structural rules for raw slices, API-surface rule for invariants')
    builds = ['K1'] if tier == 'quick' else ['K1', 'K4']
    for b in builds:
        ctx = Ctx(b)
        check_build(ck, ctx, b, tier)
    if tier == 'thorough':
        witnesses(ck)
    ck.floor('unsafe_ops_met', 20)
    ck.floor('conversions_interpreted', 60 if tier == 'quick' else 150)
    ck.assumptions += ['A-geom: every dimension, stride, offset and buffer length is below 2^28 (wrap-around of usize arithmetic beyond that is outside the stated quantifier)',
                       'only the path condition of the public constructors is assumed about caller-supplied images (all Frame/Plane/PlaneConfig fields are public)']
    return ck.finish()

def check_build(ck, ctx, b, tier):
    cr = ctx.crate
    sites_seen = {}
    convs = list(VALIDATED)
    Ts = ['u8', 'u16']
    results = {}
    for conv in convs:
        uses_T = '{T}' in CONVERSIONS[conv][0]
        for T in (Ts if uses_T else ['u16']):
            sslist = SS if 'Yuv' in conv else [(0, 0)]
            if tier == 'quick' and 'Yuv' in conv:
                sslist = [(0, 0), (1, 0), (1, 1), (2, 2), (0, 1)]
            for (ssx, ssy) in sslist:
                tcs = ['BT1886'] if tier == 'quick' else ['BT1886', 'HybridLogGamma', 'Logarithmic100', 'PerceptualQuantizer', 'SRGB']
                if conv in ('Rgb->LinearRgb', 'LinearRgb->Rgb'):
                    tcs = ALL_CURVES          # every image_* transfer wrapper (18 unsafe blocks) is reached
                if 'Rgb' not in conv and 'Yuv' not in conv: tcs = ['BT1886']
                for t in tcs:
                    bd = 8 if T == 'u8' else 10
                    label = f"{conv}/{T}/ss{ssx}{ssy}/{t}/{b}"
                    try:
                        it, marks, res = run_validated(ctx, conv, T, 'BT709', t, 'BT2020', bd=bd, ssx=ssx, ssy=ssy)
                    except Unsupported as ex:
                        ck.ob(f"C07/analysis/{label}", 'UNDECIDED', f"analysis lost: {ex}")
                        continue
                    ck.count('conversions_interpreted')
                    discharge(ck, ctx, it, marks, label, conv, sites_seen)
    # ---- inventory cross-check: every HIR unsafe block lies in a function whose unsafe operation was met
    hir = {}
    for cname in ('yuvxyb', 'yuvxyb_math'):
        c2 = facts.load(b, cname)
        for ub in c2.unsafe_blocks:
            hir.setdefault((cname, ub['owner']), 0)
            hir[(cname, ub['owner'])] += 1
    def strip_generics(name):
        # remove every `::<...>` argument list (nested brackets; the `>` of `->` inside a fn type is not a bracket)
        out, i, n_ = [], 0, len(name)
        while i < n_:
            if name.startswith('::<', i):
                depth, j = 1, i + 3
                while j < n_ and depth:
                    if name.startswith('->', j): j += 2; continue
                    if name[j] == '<': depth += 1
                    elif name[j] == '>': depth -= 1
                    j += 1
                i = j
            else:
                out.append(name[i]); i += 1
        return ''.join(out)
    met_fns = set()
    for fn in sites_seen:
        met_fns.add(strip_generics(fn))
    missing = []
    for (cname, owner), n in hir.items():
        o = strip_generics(owner)
        o2 = o.split('::', 1)[1] if cname == 'yuvxyb_math' and o.startswith('yuvxyb_math::') else o
        if not any(m.endswith(o) or m.endswith(o2) or o.endswith(m) for m in met_fns):
            missing.append(owner)
    ck.note(f'hir_unsafe_blocks/{b}', sum(hir.values()))
    ck.note(f'functions_with_unsafe_ops_met/{b}', sorted(met_fns))
    ck.ob(f"C07/inventory/{b}", 'PROVED' if not missing else 'UNDECIDED',
          f"all {sum(hir.values())} unsafe blocks (HIR) belong to functions whose unsafe operation was reached and given an obligation" if not missing else
          f"unsafe block(s) in {missing[:4]} were never reached by the interpreted entry points: no obligation covers them")
    # ---- math crate public API: powf / expf with unconstrained arguments
    mctx = Ctx(b, 'yuvxyb_math')
    for fname, argn in (('powf', 2), ('expf', 1), ('cbrtf', 1)):
        it = mctx.interp(); st = State()
        args = [X.sym(X.F32, f'{fname}.arg{i}') for i in range(argn)]
        try:
            outs = it.call_fn(st, mctx.entry(f'yuvxyb_math::{fname}') if False else [k for k in mctx.crate.fns if k.endswith(f'::{fname}') or k == fname][0], args)
        except Unsupported as ex:
            ck.ob(f"C07/analysis/math::{fname}/{b}", 'UNDECIDED', f"analysis lost: {ex}"); continue
        ck.count('conversions_interpreted')
        discharge(ck, mctx, it, (0, 0, 0, 0), f"math::{fname}/{b}", f"math::{fname}", sites_seen)
    # ---- API surface: invariants cannot be broken after construction
    api_surface(ck, ctx, b)

def discharge(ck, ctx, it, marks, label, conv, sites_seen):
    obs = it.rec.obligations[marks[0]:]
    seen_keys = set()
    for ob in obs:
        kind = ob['kind']
        fn, ln = ob['site']
        sites_seen[fn] = sites_seen.get(fn, 0) + 1
        ck.count('unsafe_ops_met')
        if kind == 'O-slice':
            role = short(ob['buf'])
            base_key = f"C07/O-slice/{label}/{sanitize(fn)}/{role}/{'write' if ob['mut'] else 'read'}"
            sig = (base_key, ob['idx'].id, ob['len'].id, tuple(c.id for c in ob['pc']))
            if sig in seen_keys: continue          # the very same obligation met on another path
            seen_keys.add(sig)
            ordinal = sum(1 for s in seen_keys if isinstance(s, tuple) and s[0] == base_key)
            key = f"{base_key}/{ordinal}" 
            goal = X.binop('lt', ob['idx'], ob['len'])
            P = Prover(ob['pc'])
            ok = P.prove(goal)
            if not ok and P.shift_atoms:
                P.add_cuts()
                ok = P.prove(goal)
            if ok:
                ck.ob(key, 'PROVED', f"idx < len certified: {sanitize(str(ob['idx']))} < {sanitize(str(ob['len']))}")
                ck.sample(dict(key=key, idx=sanitize(str(ob['idx'])), len=sanitize(str(ob['len'])), facts=len(ob['pc'])))
            else:
                w = witness(ob, goal)
                if w:
                    ws = ', '.join(f"{short(k)}={v}" for k, v in w.items() if not k.startswith('k#'))
                    ck.ob(key, 'REFUTED', f"unchecked index {sanitize(str(ob['idx']))} can reach the slice length {sanitize(str(ob['len']))} at {fn}:{ln}: "
                          f"the constructor accepts e.g. {ws} (all its checks pass) and then idx >= len", witness=w)
                else:
                    ck.ob(key, 'UNDECIDED', f"no certificate for {sanitize(str(ob['idx']))} < {sanitize(str(ob['len']))} at {fn}:{ln} and no small witness")
        elif kind == 'O-raw':
            key = f"C07/O-raw/{label}/{sanitize(fn)}"
            if key in seen_keys: continue
            seen_keys.add(key)
            org = ob['origin']
            problems = []
            if 'vec' not in org: problems.append('pointer does not come from Vec::as_mut_ptr')
            if not (ob['base'].is_const and ob['base'].val == 0): problems.append('pointer is offset from the start of the buffer')
            nflat = org.get('n')
            if not nflat: problems.append('no element reinterpretation recorded')
            else:
                if org.get('size_from') != nflat * org.get('size_to', 0): problems.append(f"size_of::<{org.get('cast_from')}>() != {nflat} * size_of::<{org.get('cast_to')}>()")
                if org.get('align_to', 1) > org.get('align_from', 0): problems.append('target alignment exceeds source alignment')
                L = org.get('len')
                want = X.binop('mul', L, X.const(X.USIZE, nflat), wrap=False) if L is not None else None
                if want is None or not (ob['n'] is want or Prover(ob['pc']).prove(X.binop('le', ob['n'], want))):
                    problems.append(f"slice length {sanitize(str(ob['n']))} is not bounded by {nflat} * vec.len()")
            ck.ob(key, 'PROVED' if not problems else 'REFUTED',
                  f"from_raw_parts_mut(vec.as_mut_ptr().cast(), vec.len()*{nflat}) on the same Vec, layouts compatible" if not problems else '; '.join(problems) + f" at {fn}:{ln}")
        elif kind == 'raw-view-after-owner-use':
            ck.ob(f"C07/O-raw-liveness/{label}", 'REFUTED', 'a flattened raw view of a Vec is used after its owner was accessed again')
        elif kind == 'O-float':
            base_key = f"C07/O-float/{label}/{sanitize(fn)}"
            sig = (base_key, ob['arg'].id)
            if sig in seen_keys: continue          # the very same argument expression met again
            ordinal = sum(1 for s_ in seen_keys if isinstance(s_, tuple) and s_[0] == base_key)
            seen_keys.add(sig)
            key = base_key if ordinal == 0 else f"{base_key}/{ordinal}"     # one obligation per distinct argument (several call paths may reach one conversion site)
            lo, hi, nan = frange(ob['arg'])
            tlo, thi = X.int_range(ob['to'])
            if not nan and lo > tlo - 1 and hi < thi + 1:
                ck.ob(key, 'PROVED', f"argument of to_int_unchecked is never NaN and lies in [{lo:.6g}, {hi:.6g}]")
            else:
                w = float_witness(ob['arg'], tlo, thi, ob['pc'])
                if w:
                    ck.ob(key, 'REFUTED', f"to_int_unchecked at {fn}:{ln} receives {w[1]} when {w[0]}", witness=str(w))
                else:
                    ck.ob(key, 'UNDECIDED', f"argument of to_int_unchecked not shown finite / in range: [{lo}, {hi}], may be NaN: {nan}")

def float_witness(arg, tlo, thi, pc=()):
    """substitute special values for the float atoms of the extracted argument expression;
    a witness must also satisfy (decidedly) every conjunct of the path condition"""
    atoms = [n for n in X.walk(arg) if n.op in ('sym', 'load') and X.is_float(n.ty)]
    if not atoms or len(atoms) > 4:
        return None
    specials = [math.nan, math.inf, -math.inf, 0.0, 1.0, 3e38, -3e38, 0.5, 100.0]
    for combo in itertools.product(specials, repeat=len(atoms)):
        m = {a.id: X.const(a.ty, v) for a, v in zip(atoms, combo)}
        try:
            r = X.substitute(arg, m)
        except Exception:
            continue
        if r.is_const:
            v = r.val
            if v != v or v <= tlo - 1 or v >= thi + 1:
                feasible = True
                for c in pc:
                    if any(n.id in m for n in X.walk(c)):
                        cv = X.substitute(c, m)
                        if not (cv.is_const and cv.val):
                            feasible = False; break
                if not feasible:
                    continue
                desc = ', '.join(f"{sanitize(str(a))[:60]} = {c}" for a, c in zip(atoms, combo))
                return desc, v
    return None

def api_surface(ck, ctx, b):
    cr = ctx.crate
    owners = {'yuv::Yuv': 'Yuv', 'rgb::Rgb': 'Rgb', 'linear_rgb::LinearRgb': 'LinearRgb', 'xyb::Xyb': 'Xyb', 'hsl::Hsl': 'Hsl'}
    # private fields
    for t in cr.types:
        if t.get('k') == 'adt' and t.get('crate') == 'yuvxyb' and any(t['def'] == d for d in owners):
            pubf = [f['name'] for f in t['variants'][0]['fields'] if f['vis'] == 'pub']
            ck.ob(f"C07/O-inv/private-fields/{t['def']}/{b}", 'PROVED' if not pubf else 'REFUTED',
                  'all fields private: instances only arise from the validating constructor or a conversion' if not pubf else f"public field(s) {pubf} let a caller bypass validation", nontrivial=False)
    # no public function hands out &mut to anything but a slice
    bad = []
    n = 0
    for itm in cr.items:
        if itm.get('kind') in ('Fn', 'AssocFn') and itm.get('reachable'):
            n += 1
            sig = itm['sig']
            ret = sig.split('->', 1)[1] if '->' in sig else ''
            for mo in re.finditer(r"&(?:'\w+ )?mut ([^,)>]+)", ret):
                if not mo.group(1).strip().startswith('['):
                    bad.append((itm['def'], sig))
    ck.count('public_fns_scanned', n)
    ck.ob(f"C07/O-inv/no-mut-leak/{b}", 'PROVED' if not bad else 'REFUTED',
          f"none of the {n} reachable functions returns &mut to a non-slice" if not bad else f"{bad[0][0]} returns a mutable reference into an image: {bad[0][1]}")

def witnesses(ck):
    """E3: compile-fail witnesses (rustdoc compile_fail with error codes, nightly) with compiling twins"""
    import os, shutil, subprocess, tempfile, re as _re
    src = os.path.join(os.path.dirname(os.path.dirname(os.path.abspath(__file__))), 'witness')
    tmp = tempfile.mkdtemp(prefix='verif-witness-')
    try:
        shutil.copytree(src, os.path.join(tmp, 'w'), ignore=shutil.ignore_patterns('target'))
        w = os.path.join(tmp, 'w')
        ct = open(os.path.join(w, 'Cargo.toml')).read().replace('path = "/repo"', f'path = "{facts.REPO}"')
        open(os.path.join(w, 'Cargo.toml'), 'w').write(ct)
        lock = os.path.join(facts.REPO, 'Cargo.lock')
        if os.path.exists(lock):
            shutil.copy(lock, os.path.join(w, 'Cargo.lock'))
        env = dict(os.environ, CARGO_TARGET_DIR=os.path.join(tmp, 'target'), CARGO_NET_OFFLINE='true')
        p = subprocess.run(['cargo', '+nightly', 'test', '--doc', '--offline'], cwd=w, env=env, capture_output=True, text=True, timeout=1200)
        m = _re.search(r'test result: (\w+)\. (\d+) passed; (\d+) failed', p.stdout)
        ok = bool(m) and m.group(1) == 'ok' and int(m.group(2)) >= 11 and int(m.group(3)) == 0
        failed = _re.findall(r'^test (.*) \.\.\. FAILED', p.stdout, _re.M)
        ck.note('witness_doctests', m.group(0) if m else p.stdout[-300:] + p.stderr[-300:])
        ck.ob('C07/E3-witnesses', 'PROVED' if ok else 'REFUTED',
              'struct literals of Yuv/Rgb/LinearRgb/Xyb/Hsl, Yuv::data_mut and data_mut().push do not compile (E0451/E0599); their twins do' if ok else
              f"a type-level guarantee no longer holds: {failed[:3] or (p.stderr[-300:])}")
    finally:
        shutil.rmtree(tmp, ignore_errors=True)
