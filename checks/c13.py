"""C13 - conversions are total on arbitrary float data and always emit valid codes.

(a) Panic clause (taint + discharge): every conversion is interpreted on MIR with the
    pixel data abstract; each possible panic exit is recorded with its condition.  A panic
    whose condition depends on pixel data must be shown impossible (interval analysis incl.
    the unchecked-truncation bounds); panics depending on geometry only are discharged from
    the constructors' path conditions by the prover, the rest is listed as geometry
    preconditions (dimension divisibility), which the property's quantifier excludes.
(b) Code clause: the stored value of every plane store lies in [0, 2^n-1] (integer bounds
    of the resolved expression), hence the internal re-wrapping can never fail on data.
(c) Finiteness clause: interval + NaN-flag analysis of the resolved kernels with float
    inputs in [0,1] (helper bodies analysed binade-wise); claimed for the pipelines where
    the analysis closes, the others are listed as not decided."""
from __future__ import annotations
import math
from engine.check import Check
from engine.values import Unsupported
from engine.resolve import Resolver, register_range
from engine.prover import Prover
from engine.ranges import int_bounds, decide_cmp
from engine import frange as FR
from .common import *
from .conv import *
from .c14 import STD_CURVES

# pipelines whose finiteness the interval analysis cannot establish (precision of the
# binade-wise analysis of powf near the PQ EOTF's pole); not claimed, see DESIGN.md section 5
FINITE_NOT_CLAIMED = set()
HOOK = [None]

def pixel_dependent(e):
    return any(n.op == 'load' and X.is_float(n.ty) for n in X.walk(e)) or any(n.op == 'sym' and X.is_float(n.ty) for n in X.walk(e))

def run(tier):
    ck = Check('C13', tier, 'proof', 'taint + interval discharge of every panic condition recorded while interpreting MIR; integer bounds of stored codes; interval/NaN-flag analysis (binade-wise on helper bodies) for finiteness')
    builds = ['K1'] if tier == 'quick' else ['K1', 'K4']
    geo_pre = set()
    notdec = []
    for b in builds:
        ctx = Ctx(b)
        FR.CRATE[0] = ctx.crate
        cr = ctx.crate
        from engine import realerr
        HOOK[0] = realerr.certified_app_hook(realerr.Helpers(Ctx(b, 'yuvxyb_math')))
        for conv in VALIDATED:
            uses_T = '{T}' in CONVERSIONS[conv][0]
            uses_t = conv in ('Rgb->LinearRgb', 'LinearRgb->Rgb', 'Yuv->LinearRgb', 'LinearRgb->Yuv', 'Yuv->Xyb', 'Xyb->Yuv', 'Rgb->Xyb', 'Xyb->Rgb')
            tcs = (STD_CURVES if (tier != 'quick' or conv in ('Rgb->LinearRgb', 'LinearRgb->Rgb')) else ['BT1886', 'HybridLogGamma', 'PerceptualQuantizer', 'Logarithmic100']) if uses_t else ['BT1886']
            for T in (['u8', 'u16'] if uses_T else ['u16']):
                for t in tcs:
                    for (ssx, ssy) in ([(0, 0), (1, 1)] if 'Yuv' in conv else [(0, 0)]):
                        bds = [8] if T == 'u8' else ([10, 16] if conv.endswith('->Yuv') else [10])
                        for bd in bds:
                            label = f"{conv}/{T}/{bd}/ss{ssx}{ssy}/{t}/{b}"
                            try:
                                it, marks, results = run_validated(ctx, conv, T, 'BT709', t, 'BT2020', bd=bd, ssx=ssx, ssy=ssy)
                            except Unsupported as ex:
                                ck.ob(f"C13/analysis/{label}", 'UNDECIDED', f"analysis lost: {ex}"); continue
                            ck.count('conversions_interpreted')
                            panics(ck, ctx, it, marks, label, geo_pre, results, (ssx, ssy))
                            codes_and_finite(ck, ctx, it, results, label, conv, T, bd, t, notdec)
    ck.note('geometry_preconditions', sorted(geo_pre))
    ck.note('finiteness_not_decided', sorted(set(notdec)))
    ck.floor('conversions_interpreted', 60)
    ck.assumptions += ['dimensions are multiples of the chroma subsampling and below 2^28 (supported configurations); the geometry-only panic exits listed under geometry_preconditions are outside the quantifier',
                       'A-libm for the log / HLG curves']
    return ck.finish()

def panics(ck, ctx, it, marks, label, geo_pre, results, ssx_ssy=(0, 0)):
    seen = set()
    # exists-atoms (sample range test inside the encoder's Yuv::new): discharged by the code clause
    for pn in it.rec.panics[marks[1]:]:
        cond = pn.get('cond')
        where = f"{pn.get('msg')} in {pn.get('fn')}"
        pc = pn.get('pc', ())
        dep = (cond is not None and pixel_dependent(cond)) or any(pixel_dependent(c) for c in pc if not _is_exists(c))
        key = f"C13/panic/{label}/{where}"
        if key in seen: continue
        seen.add(key)
        if cond is not None:
            d = decide_cmp(cond, pc)
            if d is True:
                ck.ob(key, 'PROVED', 'panic condition decided impossible by intervals', nontrivial=True); continue
            if not dep:
                P = Prover(pc)
                ok = P.prove(cond)
                if not ok and P.shift_atoms:
                    P.add_cuts(); ok = P.prove(cond)
                if ok:
                    ck.ob(key, 'PROVED', 'panic condition discharged from the constructor facts (certificate)'); continue
        if any(_is_exists(c) for c in pc) or (cond is not None and _is_exists(cond)):
            continue          # reached only if a produced sample exceeds 2^n-1: see the code clause
        # an assertion that always holds: the path condition in front of the panic (or the negated assert condition) can
        # never be true for any sample values, NaN and infinities included (interval + may-NaN evaluation per conjunct)
        try:
            from engine import frange as FR_
            if not FR_.pc_feasible([c for c in pc if not _is_exists(c)]) or (cond is not None and not FR_.truth(cond)[1]):
                ck.ob(key, 'PROVED', 'the panic sits behind a condition no sample value satisfies (interval + NaN-flag evaluation)', nontrivial=True); continue
        except Unsupported:
            pass
        if dep:
            ck.ob(key, 'REFUTED' if pn.get('definite') else 'UNDECIDED',
                  f"a panic exit ({where}, line {pn.get('ln')}) is reachable depending on pixel data: {str(cond)[:160]}")
            continue
        # geometry-only exit: is it reachable for a supported configuration (dimensions >= 1 and
        # multiples of the subsampling)?  Search the extracted constraint system for a witness.
        full = list(pc) + ([X.unop('not', cond)] if cond is not None else [])
        w = geometry_witness(full, ssx_ssy)
        if w is not None:
            ws = ', '.join(f"{k_}={v_}" for k_, v_ in sorted(w.items()) if '#' not in k_)
            ck.ob(key, 'REFUTED', f"panic exit ({where}, line {pn.get('ln')}) is reached for a supported configuration, e.g. {ws}")
        else:
            geo_pre.add(f"{where}: {str(cond)[:120] if cond is not None else 'explicit panic'}")
    # every started conversion path must end in Ok/Err or in one of the recorded exits
    if not any(results):
        ck.ob(f"C13/outcome/{label}", 'REFUTED', 'the conversion has no non-panicking outcome' + describe_panics(it))

def _is_exists(c):
    return any(n.op == 'sym' and n.args[0].startswith('exists') for n in X.walk(c))

def codes_and_finite(ck, ctx, it, results, label, conv, T, bd, t, notdec):
    cr = ctx.crate
    for outs in results:
        for s, v in outs:
            if isinstance(v, EnumV) and not is_ok(cr, v):
                continue
            img = v.fields[0] if isinstance(v, EnumV) else v
            R = Resolver(it, s, s.pc)
            if conv.endswith('->Yuv'):
                mx = (1 << bd) - 1
                for j, (pv, cfg, obj, buf) in enumerate(yuv_planes(ctx, s, img)):
                    key = f"C13/codes/{label}/plane{j}"
                    bad = None
                    for stv in buf.stores:
                        val = R.resolve(stv.value)
                        lo, hi = int_bounds(val, s.pc)
                        if lo is None or hi is None or lo < 0 or hi > mx:
                            bad = (lo, hi, val)
                    init = buf.init
                    if isinstance(init, X.E) and init.is_const and not (0 <= init.val <= mx):
                        bad = (init.val, init.val, init)
                    ck.ob(key, 'PROVED' if bad is None else 'REFUTED',
                          f"every stored code (and the fill value) lies in [0, {mx}]" if bad is None else f"a stored code ranges over [{bad[0]}, {bad[1]}], outside [0, {mx}]: {str(bad[2])[:120]}")
            else:
                obj, buf = vec_buf(s, field(cr, img, 'data'))
                k = X.fresh(X.USIZE, 'pix', 0, None)
                register_range(k, X.const(X.USIZE, 0), buf.len)
                try:
                    val = R.resolve(it.mk_load(obj, len(buf.stores), k, 0, (), buf.elem_tid, buf))
                except Unsupported as ex:
                    ck.ob(f"C13/finite/{label}", 'UNDECIDED', f"kernel not resolved: {ex}"); continue
                key = f"C13/finite/{label}"
                def atom(n):
                    if X.is_float(n.ty): return (0.0, 1.0, False)
                    return None
                worst = None
                FR.APP_HOOK[0] = HOOK[0]          # powf/expf ranges from their certified relative error (C18) where it applies
                try:
                    for c in scalars(val):
                        r = FR.frange(c, None, atom)
                        if r[2] or abs(r[0]) == math.inf or abs(r[1]) == math.inf:
                            r = subdivided_range(c, atom)
                            ck.count('subdivided')
                        if r[2] or abs(r[0]) == math.inf or abs(r[1]) == math.inf:
                            worst = r
                finally:
                    FR.APP_HOOK[0] = None
                if worst is None:
                    ck.ob(key, 'PROVED', 'outputs finite (no NaN, no infinity) for float inputs in [0,1]^3 / every valid code')
                else:
                    w = nonfinite_witness(val, ctx.crate)
                    if w:
                        ck.ob(key, 'REFUTED', f"a finite pixel in [0,1]^3 gives a non-finite output: input components {w[0]} -> {w[1]}")
                    else:
                        ck.ob(key, 'UNDECIDED', f"finiteness not established (range {worst})")

def _bad(r):
    return r[2] or abs(r[0]) == math.inf or abs(r[1]) == math.inf

def subdivided_range(c, atom, max_depth=10):
    """range of c where every maximal sub-expression that depends on a single float input is analysed on an
    adaptive subdivision of that input's range (removes the dependency loss between e.g. numerator and
    denominator of the PQ EOTF); the rest is evaluated on top of those ranges"""
    support = {}
    order = list(X.walk(c))                      # children before parents? establish by recursion instead
    def sup(n):
        r = support.get(n.id)
        if r is None:
            if n.op in ('load', 'sym') and X.is_float(n.ty):
                r = frozenset([n.id])
            else:
                r = frozenset()
                for a in n.args:
                    if isinstance(a, X.E):
                        r = r | sup(a)
                        if len(r) > 1: break
            support[n.id] = r
        return r
    atoms = {n.id: n for n in order if n.op in ('load', 'sym') and X.is_float(n.ty)}
    cuts = {}
    def mark(n):
        if len(sup(n)) == 1 and n.op not in ('load', 'sym', 'const') and X.is_float(n.ty):
            cuts[n.id] = n
            return
        for a in n.args:
            if isinstance(a, X.E) and a.id not in cuts:
                mark(a)
    mark(c)
    seeded = {}
    for nid, n in cuts.items():
        (aid,) = tuple(sup(n))
        a = atoms[aid]
        lo, hi, _ = atom(a)
        budget = [400]                 # evaluations per cut: a genuinely non-finite kernel must not cost 2^depth
        def go(l, h, depth):
            budget[0] -= 1
            if budget[0] < 0:
                return FR.TOP
            r = FR.frange(n, None, lambda m: (l, h, False) if m is a else atom(m))
            if _bad(r) and depth < max_depth and h > l:
                m_ = (l + h) / 2
                r1, r2 = go(l, m_, depth + 1), go(m_, h, depth + 1)
                return (min(r1[0], r2[0]), max(r1[1], r2[1]), r1[2] or r2[2])
            return r
        # a kernel that is non-finite at a point stays non-finite under subdivision: probe a few points first
        probe_bad = False
        for pt in (lo, hi, (lo + hi) / 2, lo + (hi - lo) / 3):
            if _bad(FR.frange(n, None, lambda m, pt=pt: (pt, pt, False) if m is a else atom(m))):
                probe_bad = True; break
        if probe_bad:
            seeded[nid] = FR.TOP
            continue
        budget = [120]
        # start from 8 pieces
        res = [go(lo + (hi - lo) * i / 8, lo + (hi - lo) * (i + 1) / 8, 0) for i in range(8)]
        seeded[nid] = (min(r[0] for r in res), max(r[1] for r in res), any(r[2] for r in res))
    return FR.frange(c, dict(seeded), atom)

def geometry_witness(conds, ss):
    """small integer values satisfying all conditions plus the supported-domain assumptions"""
    import numpy as np
    from engine.veval import veval_pc
    syms = {}
    for c in conds:
        for n in X.walk(c):
            if n.op == 'sym' and X.is_int(n.ty):
                syms[n.args[0]] = n
            if n.op == 'load' or (n.op == 'sym' and not X.is_int(n.ty)):
                return None
    if len(syms) > 12:
        return None
    names = sorted(syms)
    vals = np.array([0, 1, 2, 4, 8], dtype=np.int64) if len(names) <= 9 else np.array([1, 2, 4], dtype=np.int64)
    env = {}
    for i, nm in enumerate(names):
        shp = [1] * len(names); shp[i] = len(vals)
        env[nm] = vals.reshape(shp)
    try:
        ok = veval_pc(conds, env)
    except Unsupported:
        return None
    ok = np.broadcast_to(ok, [len(vals)] * len(names)).copy()
    for i, nm in enumerate(names):
        a = np.broadcast_to(env[nm], ok.shape)
        if nm.endswith('.width'):
            ok &= (a >= 1) & (a % (1 << ss[0]) == 0)
        if nm.endswith('.height'):
            ok &= (a >= 1) & (a % (1 << ss[1]) == 0)
    if not ok.any():
        return None
    idx = np.argwhere(ok)[0]
    return {nm: int(vals[i]) for nm, i in zip(names, idx)}

def nonfinite_witness(val, crate):
    """constant folding of the extracted kernel at a few candidate pixels"""
    import itertools
    from engine.simplify import fold
    atoms = {}
    for c in scalars(val):
        for n in X.walk(c):
            if n.op == 'load' and X.is_float(n.ty):
                atoms[n.id] = n
    atoms = list(atoms.values())
    if not atoms or len(atoms) > 3:
        return None
    cands = [0.0, 2.0 ** -30, 2.0 ** -26, 1e-9, 0.25, 0.5, 1.0 - 2.0 ** -24, 1.0]
    for combo in itertools.product(cands, repeat=len(atoms)):
        m = {a.id: X.const(a.ty, v) for a, v in zip(atoms, combo)}
        for c in scalars(val):
            try:
                r = fold(c, m, crate)
            except Exception:
                continue
            if r.is_const and X.is_float(r.ty) and (r.val != r.val or abs(r.val) == math.inf):
                return list(combo), r.val
    return None
