"""C12 - constructors accept exactly the well-formed images and keep them verbatim.

The five constructors are interpreted on MIR with the whole geometry symbolic; the
interpreter forks on every comparison, so the list of (path condition -> Ok | Err(v))
is the constructor's exact decision function.  That extracted predicate - not the crate -
is then evaluated, vectorised, on the property's finite domain and compared with the
documented accept/reject table."""
from __future__ import annotations
import itertools, numpy as np
from engine.check import Check
from engine.values import Unsupported
from engine.veval import veval, veval_pc
from .common import *
from .conv import sym_image

def plane_vars(pc):
    """set of plane indices mentioned by a condition"""
    out = set()
    for n in X.walk(pc):
        if n.op == 'sym':
            for j in range(3):
                if f'planes[{j}]' in n.args[0]:
                    out.add(j)
    return out

def vframe_geometry(T, cw, ch, xpad, ypad):
    """Geometry of v_frame 0.3.9 Plane::new(cw, ch, xdec, ydec, xpad, ypad) (plane.rs:55-85)."""
    sh = 6 + 1 - (1 if T == 'u8' else 2)
    al = lambda v: (v + (1 << sh) - 1) >> sh << sh
    xorigin = al(xpad); yorigin = ypad
    stride = al(xorigin + cw + xpad)
    alloc_height = yorigin + ch + ypad
    return dict(stride=stride, alloc_height=alloc_height, xpad=xpad, ypad=ypad, xorigin=xorigin, yorigin=yorigin, len=stride * alloc_height)

def yuv_new_outcomes(ctx, T, bd):
    it = ctx.interp(); st = State()
    tid = find_type(ctx.crate, f'v_frame::frame::Frame<{T}>')
    frame = symbolic(it, st, tid, 'frame')
    ssx = X.sym(X.U8, 'ssx', 0, 2); ssy = X.sym(X.U8, 'ssy', 0, 2)
    cfg = ctx.yuv_config(bd=bd)
    names = [f['name'] for f in ctx.crate.types[ctx.YC]['variants'][0]['fields']]
    cfg = cfg.with_field(names.index('subsampling_x'), ssx).with_field(names.index('subsampling_y'), ssy)
    outs = it.call_fn(st, ctx.entry(f'yuv::Yuv::<{T}>::new'), [frame, cfg])
    return it, outs, frame, cfg

def domain_env(T, w, h, ssx, ssy, pl, pads=(0, 0)):
    """numpy environment: pl = {1: (xdec, ydec, cw, ch), 2: (...)}; luma plane as Plane::new(w, h, 0, 0, pads)"""
    env = {'ssx': ssx, 'ssy': ssy}
    def put(j, xdec, ydec, cw, ch):
        g = vframe_geometry(T, cw, ch, pads[0] >> (xdec if j else 0), pads[1] >> (ydec if j else 0))
        pre = f'frame.planes[{j}].cfg.'
        env[pre + 'width'] = cw; env[pre + 'height'] = ch; env[pre + 'xdec'] = xdec; env[pre + 'ydec'] = ydec
        for k in ('stride', 'alloc_height', 'xpad', 'ypad', 'xorigin', 'yorigin'):
            env[pre + k] = g[k]
        env[f'frame.planes[{j}].data.data.len'] = g['len']
    put(0, np.int64(0), np.int64(0), w, h)
    for j in (1, 2):
        put(j, *pl[j])
    return env

def run(tier):
    ck = Check('C12', tier, 'proof', 'abstract interpretation of MIR with symbolic geometry (exact decision trees), extracted predicates compared exhaustively with the documented table on the finite domain')
    ctx = Ctx('K1')
    cr = ctx.crate
    # ------------------------------------------------------------------ Yuv::new
    combos = [('u8', 8)] + [('u16', b) for b in range(8, 17)]          # every depth in both tiers (the depth is a concrete configuration value; ~0.2 s each)
    W = np.arange(1, 13, dtype=np.int64)
    for T, bd in combos:
        base = f"C12/Yuv::new/{T}/{bd}"
        try:
            it, outs, frame, cfg = yuv_new_outcomes(ctx, T, bd)
        except Unsupported as ex:
            ck.ob(base, 'UNDECIDED', f"analysis lost: {ex}"); continue
        ck.count('constructor_paths', len(outs))
        # exists atoms -> plane index, predicate validated
        ex_plane = {}
        for ev in it.rec.events:
            if ev.get('ev') == 'exists':
                pred = ev['pred']
                j = None
                ok = False
                if pred.op == 'gt' and pred.args[1].is_const and pred.args[1].val == (1 << bd) - 1:
                    s = pred.args[0]
                    while s.op in ('icast', 'cast', 'wrap'): s = s.args[0]
                    j = plane_of_frame(s)
                    ok = j is not None
                ex_plane[ev['sym'].args[0]] = (j, ok, pred)
        need_samples = (T == 'u16' and bd < 16)
        if need_samples:
            good = sorted(j for j, ok, _ in ex_plane.values() if ok)
            ck.ob(base + '/sample-predicate', 'PROVED' if good == [0, 1, 2] else 'REFUTED',
                  f"visible samples of planes {good} are compared with > {(1 << bd) - 1}" if good == [0, 1, 2] else
                  f"the sample range test does not compare every plane's visible samples with > {(1 << bd) - 1}: {[(j, str(p)) for j, ok, p in ex_plane.values()]}")
        elif ex_plane:
            ck.ob(base + '/sample-predicate', 'REFUTED', 'a sample range test exists for a storage/depth where every value is valid')
        # factorisation: no path-condition conjunct couples the two chroma planes
        def flat(c):
            if c.op == 'band': return flat(c.args[0]) + flat(c.args[1])
            if c.op == 'bnot' and c.args[0].op == 'bor':
                return flat(X.unop('not', c.args[0].args[0])) + flat(X.unop('not', c.args[0].args[1]))
            return [c]
        coupled = [c2 for s, v in outs if is_ok(cr, v) for c in s.pc for c2 in flat(c) if {1, 2} <= plane_vars(c2)]
        ck.ob(base + '/factorisation', 'PROVED' if not coupled else 'UNDECIDED',
              'no conjunct of the accepting path condition mentions both chroma planes (plane-wise sweeps are exhaustive for the product domain)' if not coupled else f"coupled conjunct {coupled[0]}")
        paths = []
        for s, v in outs:
            kind = 'Ok' if is_ok(cr, v) else err_name(cr, v)
            paths.append((kind, s.pc, v))
        def sweep(name, env, spec):
            """spec: dict of boolean arrays: dec_ok, size_ok, w_ok, h_ok, sample_bad"""
            cache = {}
            shape = np.broadcast(*[np.asarray(x) for x in env.values()]).shape
            accept_spec = spec['dec_ok'] & spec['size_ok'] & spec['w_ok'] & spec['h_ok'] & ~spec['sample_bad']
            accept_code = np.zeros(shape, dtype=bool)
            total = np.zeros(shape, dtype=bool)
            problems = []
            for kind, pc, v in paths:
                m = np.broadcast_to(veval_pc(pc, env, cache), shape)
                total |= m
                if kind == 'Ok':
                    accept_code |= m
                else:
                    legit = {'SubsamplingMismatch': ~(spec['dec_ok'] & spec['size_ok']), 'InvalidLumaWidth': ~spec['w_ok'],
                             'InvalidLumaHeight': ~spec['h_ok'], 'InvalidData': spec['sample_bad']}.get(kind)
                    if legit is None:
                        problems.append(f"undocumented error {kind}")
                    else:
                        badm = m & ~np.broadcast_to(legit, shape)
                        if badm.any():
                            idx = np.argwhere(badm)[0]
                            problems.append(f"{kind} returned although its documented condition does not hold, at {describe(env, idx, shape)}")
            diff = accept_code != np.broadcast_to(accept_spec, shape)
            n = int(np.prod(shape))
            ck.count('domain_points', n)
            key = f"{base}/{name}"
            if diff.any():
                idx = np.argwhere(diff)[0]
                a = bool(accept_code[tuple(idx)])
                ck.ob(key, 'REFUTED', f"constructor {'accepts' if a else 'rejects'} a frame the documented rule {'rejects' if a else 'accepts'}: {describe(env, idx, shape)}")
            elif problems:
                ck.ob(key, 'REFUTED', problems[0])
            elif not total.all():
                idx = np.argwhere(~total)[0]
                ck.ob(key, 'REFUTED', f"no Ok/Err outcome (panic) for {describe(env, idx, shape)}")
            else:
                ck.ob(key, 'PROVED', f"accept/reject and error variants agree with the documented table on {n} frames")
        # sweeps
        flags = [False, True] if need_samples else [False]
        def env_with_flags(env, f):
            for name, (j, ok, _) in ex_plane.items():
                env[name] = np.bool_(f[j] if j is not None else False)
            return env
        shape_axes = 6
        w = W.reshape(-1, 1, 1, 1, 1, 1, 1, 1); h = W.reshape(1, -1, 1, 1, 1, 1, 1, 1)
        sx = np.arange(3, dtype=np.int64).reshape(1, 1, -1, 1, 1, 1, 1, 1); sy = np.arange(3, dtype=np.int64).reshape(1, 1, 1, -1, 1, 1, 1, 1)
        xd = np.arange(4, dtype=np.int64).reshape(1, 1, 1, 1, -1, 1, 1, 1); yd = np.arange(4, dtype=np.int64).reshape(1, 1, 1, 1, 1, -1, 1, 1)
        cw = np.arange(14, dtype=np.int64).reshape(1, 1, 1, 1, 1, 1, -1, 1); ch = np.arange(14, dtype=np.int64).reshape(1, 1, 1, 1, 1, 1, 1, -1)
        good = (sx, sy, w >> sx, h >> sy)
        pad_list = [(0, 0)] if tier == 'quick' else [(0, 0), (8, 4)]
        for pads in pad_list:
            for free in (1, 2):
                pl = {free: (xd, yd, cw, ch), 3 - free: good}
                for f in itertools.product(flags, repeat=3):
                    if tier == 'quick' and sum(f) > 1: continue
                    env = env_with_flags(domain_env(T, w, h, sx, sy, pl, pads), f)
                    spec = dict(dec_ok=(xd == sx) & (yd == sy), size_ok=(cw == (w >> sx)) & (ch == (h >> sy)),
                                w_ok=(w % (1 << sx)) == 0, h_ok=(h % (1 << sy)) == 0, sample_bad=np.bool_(any(f) and need_samples))
                    sweep(f"plane{free}-free/pad{pads[0]}/flags{''.join(str(int(x)) for x in f)}", env, spec)
        # both decimations free, sizes implied
        xd2 = np.arange(4, dtype=np.int64).reshape(1, 1, 1, 1, 1, 1, -1, 1); yd2 = np.arange(4, dtype=np.int64).reshape(1, 1, 1, 1, 1, 1, 1, -1)
        pl = {1: (xd, yd, w >> sx, h >> sy), 2: (xd2, yd2, w >> sx, h >> sy)}
        env = env_with_flags(domain_env(T, w, h, sx, sy, pl), (False,) * 3)
        spec = dict(dec_ok=(xd == sx) & (yd == sy) & (xd2 == sx) & (yd2 == sy), size_ok=np.bool_(True),
                    w_ok=(w % (1 << sx)) == 0, h_ok=(h % (1 << sy)) == 0, sample_bad=np.bool_(False))
        sweep('both-decimations-free', env, spec)
        # verbatim: the Ok value carries the frame and the config it was given
        for kind, pc, v in paths:
            if kind == 'Ok':
                y = v.fields[0]
                same_data = field(cr, y, 'data') is frame
                oc = field(cr, y, 'config')
                same_cfg = all(a is b or (isinstance(a, EnumV) and isinstance(b, EnumV) and a.variant == b.variant) for a, b in zip(oc.fields, cfg.fields))
                ck.ob(base + '/verbatim', 'PROVED' if same_data and same_cfg else 'REFUTED',
                      'accepted frame and (fully specified) config are stored unchanged' if same_data and same_cfg else
                      f"accepted image does not hold the given data/config verbatim (data same={same_data}, config same={same_cfg})")
                # accessors
                it2 = ctx.interp(); st2 = State()
                yp = Ptr(st2.alloc(y), ())
                wv = it2.call_fn(st2, ctx.entry(f'yuv::Yuv::<{T}>::width'), [yp])[0][1]
                hv = it2.call_fn(st2, ctx.entry(f'yuv::Yuv::<{T}>::height'), [yp])[0][1]
                cv = it2.call_fn(st2, ctx.entry(f'yuv::Yuv::<{T}>::config'), [yp])[0][1]
                okacc = (wv is X.sym(X.USIZE, 'frame.planes[0].cfg.width') and hv is X.sym(X.USIZE, 'frame.planes[0].cfg.height') and
                         all(a is b or (isinstance(a, EnumV) and a.variant == b.variant) for a, b in zip(cv.fields, oc.fields)))
                ck.ob(base + '/accessors', 'PROVED' if okacc else 'REFUTED', f"width()/height()/config() return luma width/height and the stored config: {okacc}")
                break
    # --------------------------------------------------------- the four Vec constructors
    L = np.arange(41, dtype=np.int64).reshape(-1, 1, 1); Wd = np.arange(41, dtype=np.int64).reshape(1, -1, 1); Hd = np.arange(41, dtype=np.int64).reshape(1, 1, -1)
    for tyname, short in (('rgb::Rgb', 'Rgb'), ('linear_rgb::LinearRgb', 'LinearRgb'), ('xyb::Xyb', 'Xyb'), ('hsl::Hsl', 'Hsl')):
        base = f"C12/{short}::new"
        try:
            it = ctx.interp(); st = State()
            n = X.sym(X.USIZE, 'data.len', 0, GEOM_MAX)
            elem = find_type(cr, '[f32; 3]')
            o = st.alloc(Buf(elem, n, None, 'data'))
            vec = Opaque('vec', buf=o)
            w = X.sym(X.USIZE, 'width', 0, GEOM_MAX); h = X.sym(X.USIZE, 'height', 0, GEOM_MAX)
            args = [vec, w, h]
            if short == 'Rgb':
                args += [mk_enum(cr, ctx.TC, 'BT1886'), mk_enum(cr, ctx.CP, 'BT709')]
            outs = it.call_fn(st, ctx.entry(f'{tyname.split("::")[0]}::{short}::new'), args)
            env = {'data.len': L, 'width': Wd, 'height': Hd}
            acc = np.zeros((41, 41, 41), dtype=bool); tot = np.zeros((41, 41, 41), dtype=bool)
            prob = None
            for s, v in outs:
                m = np.broadcast_to(veval_pc(s.pc, env), acc.shape)
                tot |= m
                if is_ok(cr, v):
                    acc |= m
                    img = v.fields[0]
                    d = field(cr, img, 'data')
                    if not (isinstance(d, Opaque) and d.f.get('buf') == o and st.heap[o] is s.heap[o] and field(cr, img, 'width') is w and field(cr, img, 'height') is h):
                        prob = 'accepted image does not carry data / width / height verbatim'
                elif err_name(cr, v) != 'ResolutionMismatch':
                    prob = f"error {err_name(cr, v)} instead of ResolutionMismatch"
            want = (L == Wd * Hd)
            ck.count('domain_points', 41 ** 3)
            if (acc != want).any():
                i = np.argwhere(acc != want)[0]
                ck.ob(base, 'REFUTED', f"{short}::new {'accepts' if acc[tuple(i)] else 'rejects'} len={i[0]}, width={i[1]}, height={i[2]}")
            elif prob:
                ck.ob(base, 'REFUTED', prob)
            elif not tot.all():
                i = np.argwhere(~tot)[0]
                ck.ob(base, 'REFUTED', f"{short}::new has no Ok/Err outcome (panic) for len={i[0]}, width={i[1]}, height={i[2]}")
            else:
                ck.ob(base, 'PROVED', 'Ok iff len == width*height on all (len,w,h) in 0..=40, else ResolutionMismatch; data and dimensions stored verbatim')
        except Unsupported as ex:
            ck.ob(base, 'UNDECIDED', f"analysis lost: {ex}")
    ck.floor('constructor_paths', 2 * len(combos))      # at least an accepting and a rejecting path per instantiation (the number of paths itself depends on how the checks are written)
    ck.floor('domain_points', 4 * 41 ** 3 + 1000000)
    ck.assumptions += ['plane buffers in the sweep domain are laid out as v_frame 0.3.9 Plane::new lays them out (stride/origin/length formulas read from plane.rs); xdec,ydec <= 3',
                       'the exists-predicate produced by the Plane::iter / any model ranges over exactly the visible samples']
    return ck.finish()

def plane_of_frame(node):
    if node.op == 'load':
        nm = node.args[5]
        for j in range(3):
            if f'planes[{j}]' in nm:
                return j
    return None

def describe(env, idx, shape):
    out = []
    for k, v in env.items():
        a = np.broadcast_to(np.asarray(v), shape)
        short = k.replace('frame.planes', 'plane').replace('.cfg.', '.').replace('.data.data.len', '.buflen')
        if any(t in short for t in ('width', 'height', 'xdec', 'ydec', 'ssx', 'ssy', 'exists')) and not short.startswith('plane[0].x') and not short.startswith('plane[0].y'):
            out.append(f"{short}={a[tuple(idx)]}")
    return ', '.join(out)
