"""C08 - YUV->RGB->YUV is a lossless code round trip (4:4:4).

Both conversions are interpreted back to back on MIR (decode of a constructed image,
then encode of the resulting Rgb with the same config); the stored code of every output
plane is resolved into one expression over the three input samples.  With x_j the clamped
normalised samples, the pre-rounding value is an affine form v_p = sum_j c_pj x_j + c_0
whose coefficients are the exact products of the f32 constants the code computes
(M_fwd * M_inv, scales, offsets).  For codes clamped to the legal range x_j deviates from
the ideal normalisation by at most delta_j, hence |v_p - clampS_p| <= e with e computed in
rational arithmetic; e < 1/2 and an exact wrapper r -> clamp(r,0,2^n-1) give code == clampS_p
for every triple."""
from __future__ import annotations
from fractions import Fraction as Fr
import itertools, math
from engine.check import Check
from engine.values import Unsupported
from engine.resolve import Resolver
from .common import *
from .conv import *
from .c02 import peel_code

def legal(bd, full, chroma):
    k = 1 << (bd - 8)
    if full:
        return (1 if chroma else 0), (1 << bd) - 1     # full-range chroma code 0 treated separately
    r = H273['range']['limited']
    lo, hi = r['chroma_legal'] if chroma else r['luma_legal']
    return lo * k, hi * k

def roundtrip(ctx, T, cfgv):
    it = ctx.interp(); st = State()
    outs = constructed_yuv(ctx, it, st, T, cfgv)
    if len(outs) != 1:
        raise Unsupported('constructor does not yield one Ok path for a 4:4:4 config')
    s, y = outs[0]
    yptr = Ptr(s.alloc(y), ())
    dec = drop_empty_image_outcomes(ctx, it.call_fn(s, ctx.entry(CONVERSIONS['Yuv->Rgb'][0].format(T=T)), [yptr]))
    dec = [(s2, v) for s2, v in dec if is_ok(ctx.crate, v)]
    if len(dec) != 1:
        raise Unsupported('decode does not yield one Ok outcome')
    s2, r = dec[0]
    rgb = r.fields[0]
    tup = find_type(ctx.crate, '(&rgb::Rgb, yuv::YuvConfig)')
    enc = drop_empty_image_outcomes(ctx, it.call_fn(s2, ctx.entry(CONVERSIONS['Rgb->Yuv'][0].format(T=T)), [Agg('tuple', tup, [Ptr(s2.alloc(rgb), ()), cfgv])]))
    enc = [(s3, v) for s3, v in enc if is_ok(ctx.crate, v)]
    if len(enc) != 1:
        raise Unsupported('encode does not yield one Ok outcome')
    return it, enc[0][0], enc[0][1].fields[0], y

def run(tier):
    ck = Check('C08', tier, 'proof', 'abstract interpretation of MIR of decode followed by encode; exact rational product of the extracted f32 matrices and scales; a-priori rounding bounds; exact integer-wrapper table')
    builds = ('K1',) if tier == 'quick' else ('K1', 'K2')
    analyse(ck, tier, builds)
    return ck.finish()

def analyse(ck, tier, builds, prefix=''):
    ctxs = {b: Ctx(b) for b in builds}
    worst = Fr(0)
    for b, m, full, bd, T in configs(tier, builds):
        ctx = ctxs[b]
        base = f"C08/roundtrip/{m}/{'full' if full else 'limited'}/{bd}/{T}/{b}"
        set_plane_ranges(T, bd)
        try:
            cfgv = ctx.yuv_config(m=m, bd=bd, full=full)
            it, st, yuv2, yuv1 = roundtrip(ctx, T, cfgv)
            ck.count('roundtrips_interpreted')
            planes = yuv_planes(ctx, st, yuv2)
            R = Resolver(it, st)
            for p, (pv, pcfg, obj, buf) in enumerate(planes):
                key = f"{base}/plane{p}"
                if len(buf.stores) != 1:
                    ck.ob(key, 'UNDECIDED', f"{len(buf.stores)} store summaries"); continue
                from .c11 import every_sample_written
                why = every_sample_written(it, planes, p, st.pc)
                if why is not None:
                    ck.ob(key + '/coverage', 'REFUTED' if 'lemma side condition' in why else 'UNDECIDED', f"not every sample of plane {p} is stored (samples keep the fill value): {why}")
                val = R.resolve(buf.stores[0].value)
                an = Analyzer()
                an.elide_clamp = False
                def vrange(vn):
                    av = an.ev(vn)
                    return math.floor(av.lo) - 1, math.ceil(av.hi) + 1
                v, bad, special = peel_code(val, bd, T, vrange)
                if bad is not None:
                    if bad[0] == 'wrapper':
                        ck.ob(key, 'REFUTED', f"a pre-rounding value of {bad[1]} is stored as code {bad[2]} instead of {bad[3]}")
                    else:
                        ck.ob(key, 'REFUTED', f"quantisation step is not round-to-nearest with saturation ({bad})")
                    continue
                a = an.ev(v)
                if a.p.degree() > 1:
                    raise Unsupported('round-trip value is not affine in the clamped samples')
                coef = {}; delta = {}; ideal = {}
                for aid in a.p.atoms():
                    info = an.atom_info[aid]
                    if info.get('kind') != 'clamp':
                        raise Unsupported(f"atom kind {info.get('kind')}")
                    arg = info['arg']
                    ats = list(arg.p.atoms())
                    node = an.atom_info[ats[0]]['node']
                    j = plane_of(node)
                    if j is None or len(ats) != 1:
                        raise Unsupported('unexpected kernel input')
                    chroma = j > 0
                    black, rng = ideal_norm(bd, full, chroma)
                    s_, o_ = arg.p.coef(ats[0]), arg.p.constant()
                    lo, hi = legal(bd, full, chroma)
                    d = max(abs((s_ - 1 / rng) * S + o_ + black / rng) for S in (lo, hi)) + arg.err
                    # the clamp interval must contain the ideal normalisation of every legal code
                    nlo, nhi = (lo - black) / rng, (hi - black) / rng
                    if not (info['clo'] <= nlo and nhi <= info['chi']):
                        raise Unsupported('clamp range does not contain the legal normalised range')
                    coef[j] = a.p.coef(aid); delta[j] = d; ideal[j] = (black, rng, lo, hi)
                # v_p - S_p as an affine function of the (legal) codes
                c0 = a.p.constant()
                dev_const = c0 + sum(coef[j] * (-ideal[j][0]) / ideal[j][1] for j in coef)
                lin = {j: coef[j] / ideal[j][1] - (1 if j == p else 0) for j in coef}
                if p not in lin:
                    lin[p] = Fr(-1)
                    ideal[p] = ideal_norm(bd, full, p > 0) + legal(bd, full, p > 0)
                corners = itertools.product(*[(ideal[j][2], ideal[j][3]) for j in sorted(lin)])
                e_sys = max(abs(dev_const + sum(lin[j] * S for j, S in zip(sorted(lin), c))) for c in corners)
                e = e_sys + sum(abs(coef[j]) * delta[j] for j in coef) + a.err
                worst = max(worst, e)
                if e < Fr(1, 2):
                    ck.ob(key, 'PROVED', f"|pre-rounding value - code| <= {float(e):.4g} < 0.5 for every legal triple (clamped codes map to the range ends)")
                elif e_sys - (sum(abs(coef[j]) * delta[j] for j in coef) + a.err) >= Fr(1, 2):
                    ck.ob(key, 'REFUTED', f"systematic round-trip deviation of {float(e_sys):.4g} codes on plane {p} (coefficients of the composed matrix: {[float(coef[j]) for j in sorted(coef)]})")
                else:
                    ck.ob(key, 'UNDECIDED', f"bound {float(e):.4g} does not stay below 0.5")
                # full-range chroma code 0: comes back as 0 or 1
                if full and p > 0:
                    # with x_p at the clamp's lower end the value is 0.5 +- e: round gives 0 or 1; special case gives 0
                    ck.ob(key + '/code0', 'PROVED' if e < Fr(1, 2) else 'UNDECIDED', 'full-range chroma code 0 returns 0 or 1', nontrivial=False)
                if special is not None and full and p > 0:
                    # the special case must fire for code 0 only: |C + 0.5| < eps is false for every code >= 1
                    gap = Fr(1, 2 * ((1 << bd) - 1))           # ideal C(1) + 0.5
                    eps = None
                    if special.op == 'lt' and special.args[1].is_const and special.args[0].op == 'call:abs':
                        inner = special.args[0].args[0]
                        if inner.op == 'fadd' and inner.args[1].is_const and inner.args[1].val == 0.5 and v.op == 'fma' and v.args[0] is inner.args[0] and v.args[1].is_const:
                            eps = Fr(special.args[1].val)
                            e_c = e / abs(Fr(v.args[1].val))
                    if eps is None:
                        ck.ob(key + '/special', 'UNDECIDED', 'unrecognised special-case condition')
                    elif eps + e_c < gap:
                        ck.ob(key + '/special', 'PROVED', f"the zero special case (|C+0.5| < {float(eps):.3g}) cannot fire for chroma codes >= 1 (C+0.5 >= {float(gap - e_c):.3g})")
                    elif eps - e_c > gap:
                        ck.ob(key + '/special', 'REFUTED', f"the zero special case |C+0.5| < {float(eps):.3g} also fires for chroma code 1 (C+0.5 = {float(gap):.3g} at {bd} bit full range): code 1 comes back as 0")
                    else:
                        ck.ob(key + '/special', 'UNDECIDED', f"special-case window {float(eps):.3g} vs gap {float(gap):.3g} within the error bound")
                if special is not None and not (full and p > 0):
                    ck.ob(key + '/special', 'REFUTED', 'a zero special case exists on a plane / range where the property tolerates no deviation')
                if p == 1 and bd == 10 and T == 'u16':
                    ck.sample(dict(config=base, plane=p, composed_row=[float(coef[j]) for j in sorted(coef)], bound=float(e)))
        except Unsupported as ex:
            ck.ob(base, 'UNDECIDED', f"analysis lost: {ex}")
    ck.note('worst_bound_codes', float(worst))
    ck.floor('roundtrips_interpreted', (56 if tier == 'quick' else 140) * len(builds))
    return None
