"""C05 - XYB -> linear RGB inverts the forward XYB transform (given A-cbrt)."""
from engine.check import Check
from engine.values import Unsupported
from .common import *
from .xyb import check_c05

def run(tier):
    ck = Check('C05', tier, 'proof', 'abstract interpretation of MIR of forward followed by inverse (cbrtf kept as an application); polynomial identity c^3 = mix with exact rational matrix product INV*A and a-priori rounding bounds')
    for b in ('K1', 'K2'):          # default and FMA build (the opsin code has its own fused multiply-adds)
        try:
            check_c05(ck, Ctx(b), b, tier)
        except Unsupported as ex:
            ck.ob(f"C05/{b}", 'UNDECIDED', f"analysis lost: {ex}")
    ck.floor('kernels', 2)
    ck.assumptions += ['A-cbrt: yuvxyb_math::cbrtf within 1 ulp on normal arguments (decided by C18)']
    return ck.finish()
