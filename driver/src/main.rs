// mirfacts: rustc_private driver that dumps, for the crates under analysis, the
// monomorphic MIR reachable from every function of the crate (generic roots are
// instantiated over the implementor sets of their bounds) as one JSON file per
// crate. Used as RUSTC_WRAPPER: argv = [mirfacts, <rustc>, args...]; every crate
// other than the targets is passed straight to the real rustc.
#![feature(rustc_private)]
#![allow(clippy::all)]

extern crate rustc_abi;
extern crate rustc_data_structures;
extern crate rustc_driver;
extern crate rustc_hir;
extern crate rustc_interface;
extern crate rustc_middle;
extern crate rustc_span;

mod json;

use json::{arr, n, o, s, J};
use rustc_driver::{Callbacks, Compilation};
use rustc_hir::def::DefKind;
use rustc_hir::def_id::{DefId, LOCAL_CRATE};
use rustc_middle::mir::interpret::{AllocId, Allocation, GlobalAlloc, Scalar};
use rustc_middle::mir::{
    self, AggregateKind, AssertKind, BasicBlockData, Body, ConstValue, Operand, Place,
    ProjectionElem, Rvalue, StatementKind, TerminatorKind,
};
use rustc_middle::ty::print::{with_no_trimmed_paths, PrintTraitRefExt};
use rustc_middle::ty::{
    self, EarlyBinder, GenericArgs, GenericArgsRef, Instance, InstanceKind, Ty, TyCtxt, TypingEnv,
};
use rustc_span::Span;
use std::collections::{HashMap, VecDeque};

const TARGETS: &[&str] = &["yuvxyb", "yuvxyb_math"];

fn main() {
    let argv: Vec<String> = std::env::args().collect();
    if argv.len() < 2 {
        eprintln!("mirfacts: expected to be used as RUSTC_WRAPPER");
        std::process::exit(2);
    }
    let mut crate_name = None;
    for (i, a) in argv.iter().enumerate() {
        if a == "--crate-name" {
            crate_name = argv.get(i + 1).cloned();
        }
    }
    let facts_dir = std::env::var("VERIF_FACTS_DIR").ok();
    let is_target = matches!(&crate_name, Some(c) if TARGETS.contains(&c.as_str()));
    // `cargo` also probes rustc with `-vV` / `--print`: pass through.
    if !is_target || facts_dir.is_none() {
        let st = std::process::Command::new(&argv[1]).args(&argv[2..]).status();
        match st {
            Ok(s) => std::process::exit(s.code().unwrap_or(1)),
            Err(e) => {
                eprintln!("mirfacts: cannot run {}: {e}", argv[1]);
                std::process::exit(2)
            }
        }
    }
    let mut cb = Cb { out_dir: facts_dir.unwrap(), crate_name: crate_name.unwrap() };
    let args: Vec<String> = argv[1..].to_vec();
    rustc_driver::run_compiler(&args, &mut cb);
}

struct Cb {
    out_dir: String,
    crate_name: String,
}

impl Callbacks for Cb {
    fn after_analysis<'tcx>(
        &mut self,
        _c: &rustc_interface::interface::Compiler,
        tcx: TyCtxt<'tcx>,
    ) -> Compilation {
        let mut cx = Cx::new(tcx);
        let doc = cx.run();
        let mut out = String::with_capacity(1 << 24);
        doc.write(&mut out);
        let path = format!("{}/{}.json", self.out_dir, self.crate_name);
        std::fs::write(&path, out).expect("mirfacts: cannot write facts");
        Compilation::Continue
    }
}

struct Cx<'tcx> {
    tcx: TyCtxt<'tcx>,
    env: TypingEnv<'tcx>,
    types: Vec<J>,
    type_ix: HashMap<Ty<'tcx>, usize>,
    seen: HashMap<Instance<'tcx>, String>,
    queue: VecDeque<Instance<'tcx>>,
    fns: Vec<J>,
    descend: Vec<String>,
    local_crates: Vec<String>,
    externals: HashMap<String, (String, usize)>,
    max_instances: usize,
}

fn read_list(var: &str) -> Vec<String> {
    match std::env::var(var) {
        Ok(p) => std::fs::read_to_string(&p)
            .unwrap_or_default()
            .lines()
            .map(|l| l.split('#').next().unwrap().trim().to_string())
            .filter(|l| !l.is_empty())
            .collect(),
        Err(_) => vec![],
    }
}

impl<'tcx> Cx<'tcx> {
    fn new(tcx: TyCtxt<'tcx>) -> Self {
        Cx {
            tcx,
            env: TypingEnv::fully_monomorphized(),
            types: vec![],
            type_ix: HashMap::new(),
            seen: HashMap::new(),
            queue: VecDeque::new(),
            fns: vec![],
            descend: read_list("VERIF_DESCEND"),
            local_crates: vec![
                "yuvxyb".into(),
                "yuvxyb_math".into(),
                "v_frame".into(),
                "num_traits".into(),
                "av_data".into(),
            ],
            externals: HashMap::new(),
            max_instances: 20000,
        }
    }

    fn loc(&self, sp: Span) -> (String, usize) {
        let mut sp = sp;
        while sp.from_expansion() {
            sp = sp.source_callsite();
        }
        let sm = self.tcx.sess.source_map();
        let p = sm.lookup_char_pos(sp.lo());
        let name = format!("{}", p.file.name.prefer_local_unconditionally());
        (name, p.line)
    }

    fn norm_ty(&self, t: Ty<'tcx>) -> Ty<'tcx> {
        self.tcx.try_normalize_erasing_regions(self.env, ty::Unnormalized::new_wip(t)).unwrap_or(t)
    }

    // ---------------------------------------------------------------- types
    fn ty_id(&mut self, ty: Ty<'tcx>) -> usize {
        if let Some(&i) = self.type_ix.get(&ty) {
            return i;
        }
        let i = self.types.len();
        self.types.push(J::Null);
        self.type_ix.insert(ty, i);
        let d = self.build_ty(ty);
        self.types[i] = d;
        i
    }

    fn gargs(&mut self, args: GenericArgsRef<'tcx>) -> J {
        let mut v = vec![];
        for a in args.iter() {
            if let Some(t) = a.as_type() {
                v.push(n(self.ty_id(t)));
            } else if let Some(c) = a.as_const() {
                v.push(s(format!("{}", c)));
            }
        }
        J::A(v)
    }

    fn build_ty(&mut self, ty: Ty<'tcx>) -> J {
        let tcx = self.tcx;
        let mut f: Vec<(String, J)> = vec![("s".into(), s(with_no_trimmed_paths!(format!("{}", ty))))];
        let mut put = |k: &str, v: J| f.push((k.to_string(), v));
        match *ty.kind() {
            ty::Bool => put("k", s("bool")),
            ty::Char => put("k", s("char")),
            ty::Int(it) => {
                put("k", s("int"));
                put("bits", n(it.bit_width().unwrap_or(64)));
                put("signed", J::B(true));
                put("ptr", J::B(it.bit_width().is_none()));
            }
            ty::Uint(it) => {
                put("k", s("int"));
                put("bits", n(it.bit_width().unwrap_or(64)));
                put("signed", J::B(false));
                put("ptr", J::B(it.bit_width().is_none()));
            }
            ty::Float(ft) => {
                put("k", s("float"));
                put("bits", n(ft.bit_width()));
            }
            ty::Str => put("k", s("str")),
            ty::Never => put("k", s("never")),
            ty::Adt(def, args) => {
                put("k", s("adt"));
                put("def", s(with_no_trimmed_paths!(tcx.def_path_str(def.did()))));
                put("crate", s(tcx.crate_name(def.did().krate).to_string()));
                let a = self.gargs(args);
                f.push(("args".into(), a));
                let kind = if def.is_enum() {
                    "enum"
                } else if def.is_union() {
                    "union"
                } else {
                    "struct"
                };
                f.push(("adt_kind".into(), s(kind)));
                let mut discrs: HashMap<usize, u128> = HashMap::new();
                if def.is_enum() {
                    for (vi, d) in def.discriminants(tcx) {
                        discrs.insert(vi.as_usize(), d.val);
                    }
                }
                let mut vs = vec![];
                for (vi, v) in def.variants().iter_enumerated() {
                    let mut fields = vec![];
                    for fd in v.fields.iter() {
                        let fty = fd.ty(tcx, args);
                        let fty = self.norm_ty(fty);
                        let vis = match fd.vis {
                            ty::Visibility::Public => "pub",
                            ty::Visibility::Restricted(_) => "restricted",
                        };
                        let tid = self.ty_id(fty);
                        fields.push(o(vec![
                            ("name", s(fd.name.to_string())),
                            ("ty", n(tid)),
                            ("vis", s(vis)),
                        ]));
                    }
                    let mut vo = vec![("name", s(v.name.to_string())), ("fields", J::A(fields))];
                    if let Some(d) = discrs.get(&vi.as_usize()) {
                        vo.push(("discr", s(d.to_string())));
                    }
                    vs.push(o(vo));
                }
                f.push(("variants".into(), J::A(vs)));
            }
            ty::Tuple(tys) => {
                put("k", s("tuple"));
                let v: Vec<J> = tys.iter().map(|t| n(self.ty_id(t))).collect();
                f.push(("elems".into(), J::A(v)));
            }
            ty::Array(e, len) => {
                put("k", s("array"));
                let l = len.try_to_target_usize(tcx);
                let eid = self.ty_id(e);
                f.push(("elem".into(), n(eid)));
                f.push(("len".into(), match l { Some(l) => n(l), None => J::Null }));
            }
            ty::Slice(e) => {
                put("k", s("slice"));
                let eid = self.ty_id(e);
                f.push(("elem".into(), n(eid)));
            }
            ty::Ref(_, t, m) => {
                put("k", s("ref"));
                put("mut", J::B(m.is_mut()));
                let tid = self.ty_id(t);
                f.push(("to".into(), n(tid)));
            }
            ty::RawPtr(t, m) => {
                put("k", s("ptr"));
                put("mut", J::B(m.is_mut()));
                let tid = self.ty_id(t);
                f.push(("to".into(), n(tid)));
            }
            ty::FnDef(def, args) => {
                put("k", s("fndef"));
                put("def", s(with_no_trimmed_paths!(tcx.def_path_str(def))));
                let a = self.gargs(args);
                f.push(("args".into(), a));
                let c = self.callee_json(def, args);
                f.push(("callee".into(), c));
            }
            ty::Closure(def, args) => {
                put("k", s("closure"));
                put("def", s(with_no_trimmed_paths!(tcx.def_path_str(def))));
                let ups: Vec<Ty<'tcx>> = args.as_closure().upvar_tys().iter().collect();
                let v: Vec<J> = ups.into_iter().map(|t| n(self.ty_id(t))).collect();
                f.push(("upvars".into(), J::A(v)));
                // the closure body itself is a callable instance: make sure it is dumped even
                // when the closure is only handed to an external (modelled) function
                let inst = Instance::new_raw(def, args);
                let key = self.inst_key(inst);
                if self.seen.len() < self.max_instances && self.should_descend(inst) {
                    self.enqueue(inst);
                }
                f.push(("body_key".into(), s(key)));
            }
            ty::FnPtr(..) => put("k", s("fnptr")),
            ty::Dynamic(..) => put("k", s("dyn")),
            ty::Foreign(..) => put("k", s("foreign")),
            _ => put("k", s("other")),
        }
        if let Ok(l) = tcx.layout_of(self.env.as_query_input(ty)) {
            if l.is_sized() {
                f.push(("size".into(), n(l.size.bytes())));
                f.push(("align".into(), n(l.align.abi.bytes())));
            }
        }
        J::O(f)
    }

    // ------------------------------------------------------------ instances
    fn inst_key(&self, inst: Instance<'tcx>) -> String {
        with_no_trimmed_paths!(format!("{}", inst))
    }

    fn crate_of(&self, def: DefId) -> String {
        self.tcx.crate_name(def.krate).to_string()
    }

    fn should_descend(&self, inst: Instance<'tcx>) -> bool {
        let tcx = self.tcx;
        match inst.def {
            InstanceKind::Item(def) => {
                if !tcx.is_mir_available(def) {
                    return false;
                }
                if matches!(tcx.def_kind(def), DefKind::Ctor(..)) {
                    return false;
                }
                let cr = self.crate_of(def);
                if self.local_crates.contains(&cr) {
                    return true;
                }
                let p = with_no_trimmed_paths!(tcx.def_path_str(def));
                self.descend.iter().any(|d| p.starts_with(d.as_str()))
            }
            InstanceKind::ClosureOnceShim { .. }
            | InstanceKind::FnPtrShim(..)
            | InstanceKind::ReifyShim(..)
            | InstanceKind::CloneShim(..) => true,
            _ => false,
        }
    }

    fn enqueue(&mut self, inst: Instance<'tcx>) -> String {
        if let Some(k) = self.seen.get(&inst) {
            return k.clone();
        }
        let k = self.inst_key(inst);
        self.seen.insert(inst, k.clone());
        self.queue.push_back(inst);
        k
    }

    fn kind_str(inst: Instance<'tcx>) -> &'static str {
        match inst.def {
            InstanceKind::Item(_) => "item",
            InstanceKind::Intrinsic(_) => "intrinsic",
            InstanceKind::Virtual(..) => "virtual",
            InstanceKind::ClosureOnceShim { .. } => "closure_once_shim",
            InstanceKind::FnPtrShim(..) => "fn_ptr_shim",
            InstanceKind::ReifyShim(..) => "reify_shim",
            InstanceKind::CloneShim(..) => "clone_shim",
            InstanceKind::DropGlue(..) => "drop_glue",
            _ => "other_shim",
        }
    }

    /// Resolve `def<args>` to a monomorphic instance and describe it; enqueue its body
    /// when it is on the descend list.
    fn callee_json(&mut self, def: DefId, args: GenericArgsRef<'tcx>) -> J {
        let tcx = self.tcx;
        let args = tcx.try_normalize_erasing_regions(self.env, ty::Unnormalized::new_wip(args)).unwrap_or(args);
        let generic_def = with_no_trimmed_paths!(tcx.def_path_str(def));
        let mut f = vec![("gdef", s(&generic_def))];
        match Instance::try_resolve(tcx, self.env, def, args) {
            Ok(Some(inst)) => {
                let idef = inst.def_id();
                f.push(("def", s(with_no_trimmed_paths!(tcx.def_path_str(idef)))));
                f.push(("crate", s(self.crate_of(idef))));
                f.push(("kind", s(Self::kind_str(inst))));
                let a = self.gargs(inst.args);
                f.push(("targs", a));
                let key = self.inst_key(inst);
                f.push(("key", s(&key)));
                if let InstanceKind::Intrinsic(d) = inst.def {
                    f.push(("intrinsic", s(tcx.item_name(d).to_string())));
                }
                let is_fn_like = matches!(
                    tcx.def_kind(idef),
                    DefKind::Fn | DefKind::AssocFn | DefKind::Ctor(..)
                );
                if is_fn_like {
                    let sig = tcx.fn_sig(idef).skip_binder();
                    f.push(("unsafe", J::B(!sig.safety().is_safe())));
                }
                if matches!(tcx.def_kind(idef), DefKind::Ctor(..)) {
                    f.push(("ctor", J::B(true)));
                }
                let body = if self.seen.len() < self.max_instances && self.should_descend(inst) {
                    self.enqueue(inst);
                    true
                } else {
                    let dp = with_no_trimmed_paths!(tcx.def_path_str(idef));
                    self.externals.entry(key).or_insert((dp, 0)).1 += 1;
                    false
                };
                f.push(("body", J::B(body)));
            }
            _ => {
                f.push(("kind", s("unresolved")));
                let a = self.gargs(args);
                f.push(("targs", a));
                f.push(("body", J::B(false)));
            }
        }
        o(f)
    }

    // ------------------------------------------------------------ constants
    fn scalar_int_json(bits: u128, size: u64) -> J {
        o(vec![("k", s("int")), ("bits", s(bits.to_string())), ("size", n(size))])
    }

    fn read_bytes(&self, alloc: &Allocation, off: u64, len: u64) -> Option<Vec<u8>> {
        let a = off as usize;
        let b = (off + len) as usize;
        if b > alloc.len() {
            return None;
        }
        Some(alloc.inspect_with_uninit_and_ptr_outside_interpreter(a..b).to_vec())
    }

    fn ptr_target(&self, alloc: &Allocation, off: u64) -> Option<(AllocId, u64)> {
        let ptr_size = 8u64;
        let bytes = self.read_bytes(alloc, off, ptr_size)?;
        let mut v: u64 = 0;
        for (i, b) in bytes.iter().enumerate() {
            v |= (*b as u64) << (8 * i);
        }
        let prov = alloc.provenance().ptrs().get(&rustc_abi::Size::from_bytes(off))?;
        Some((prov.alloc_id(), v))
    }

    fn decode_ptr(&mut self, id: AllocId, off: u64, pointee: Ty<'tcx>, meta: Option<u64>, depth: usize) -> J {
        let tcx = self.tcx;
        match tcx.try_get_global_alloc(id) {
            Some(GlobalAlloc::Memory(a)) => {
                let alloc = a.inner();
                let inner = match (pointee.kind(), meta) {
                    (ty::Str, Some(m)) => match self.read_bytes(alloc, off, m) {
                        Some(b) => o(vec![("k", s("str")), ("v", s(String::from_utf8_lossy(&b).to_string()))]),
                        None => o(vec![("k", s("unsupported")), ("why", s("str oob"))]),
                    },
                    (ty::Slice(e), Some(m)) => {
                        let esz = tcx.layout_of(self.env.as_query_input(*e)).map(|l| l.size.bytes()).unwrap_or(0);
                        let mut v = vec![];
                        for i in 0..m {
                            v.push(self.decode_alloc(alloc, off + i * esz, *e, depth + 1));
                        }
                        o(vec![("k", s("agg")), ("kind", s("array")), ("elems", J::A(v))])
                    }
                    _ => self.decode_alloc(alloc, off, pointee, depth + 1),
                };
                o(vec![("k", s("ptr")), ("to", inner), ("alloc", s(format!("{:?}", id))), ("off", n(off))])
            }
            Some(GlobalAlloc::Static(d)) => {
                o(vec![("k", s("static")), ("def", s(with_no_trimmed_paths!(tcx.def_path_str(d))))])
            }
            Some(GlobalAlloc::Function { instance }) => {
                let c = self.callee_json(instance.def_id(), instance.args);
                o(vec![("k", s("fnptr")), ("callee", c)])
            }
            _ => o(vec![("k", s("unsupported")), ("why", s("alloc kind"))]),
        }
    }

    fn decode_alloc(&mut self, alloc: &Allocation, off: u64, ty: Ty<'tcx>, depth: usize) -> J {
        let tcx = self.tcx;
        if depth > 12 {
            return o(vec![("k", s("unsupported")), ("why", s("depth"))]);
        }
        let layout = match tcx.layout_of(self.env.as_query_input(ty)) {
            Ok(l) => l,
            Err(_) => return o(vec![("k", s("unsupported")), ("why", s("layout"))]),
        };
        let size = layout.size.bytes();
        match *ty.kind() {
            ty::Bool | ty::Char | ty::Int(_) | ty::Uint(_) | ty::Float(_) => {
                match self.read_bytes(alloc, off, size) {
                    Some(b) => {
                        let mut v: u128 = 0;
                        for (i, x) in b.iter().enumerate() {
                            v |= (*x as u128) << (8 * i);
                        }
                        Self::scalar_int_json(v, size)
                    }
                    None => o(vec![("k", s("unsupported")), ("why", s("oob"))]),
                }
            }
            ty::Array(e, len) => {
                let l = len.try_to_target_usize(tcx).unwrap_or(0);
                let esz = tcx.layout_of(self.env.as_query_input(e)).map(|l| l.size.bytes()).unwrap_or(0);
                let mut v = vec![];
                for i in 0..l {
                    v.push(self.decode_alloc(alloc, off + i * esz, e, depth + 1));
                }
                o(vec![("k", s("agg")), ("kind", s("array")), ("elems", J::A(v))])
            }
            ty::Tuple(tys) => {
                let mut v = vec![];
                for (i, t) in tys.iter().enumerate() {
                    let fo = layout.fields.offset(i).bytes();
                    v.push(self.decode_alloc(alloc, off + fo, t, depth + 1));
                }
                o(vec![("k", s("agg")), ("kind", s("tuple")), ("elems", J::A(v))])
            }
            ty::Adt(def, args) if def.is_struct() => {
                let mut v = vec![];
                for (i, fd) in def.non_enum_variant().fields.iter().enumerate() {
                    let fty = fd.ty(tcx, args);
                    let fty = self.norm_ty(fty);
                    let fo = layout.fields.offset(i).bytes();
                    v.push(self.decode_alloc(alloc, off + fo, fty, depth + 1));
                }
                o(vec![("k", s("agg")), ("kind", s("adt")), ("variant", n(0)), ("elems", J::A(v))])
            }
            ty::Adt(def, _) if def.is_enum() && def.variants().iter().all(|v| v.fields.is_empty()) && size > 0 => {
                // field-less enum: the tag is stored directly (discriminant value)
                match self.read_bytes(alloc, off, size) {
                    Some(b) => {
                        let mut v: u128 = 0;
                        for (i, x) in b.iter().enumerate() {
                            v |= (*x as u128) << (8 * i);
                        }
                        Self::scalar_int_json(v, size)
                    }
                    None => o(vec![("k", s("unsupported")), ("why", s("oob"))]),
                }
            }
            ty::Ref(_, t, _) | ty::RawPtr(t, _) => {
                let fat = matches!(t.kind(), ty::Str | ty::Slice(_));
                match self.ptr_target(alloc, off) {
                    Some((id, poff)) => {
                        let meta = if fat {
                            self.read_bytes(alloc, off + 8, 8).map(|b| {
                                let mut v = 0u64;
                                for (i, x) in b.iter().enumerate() {
                                    v |= (*x as u64) << (8 * i);
                                }
                                v
                            })
                        } else {
                            None
                        };
                        self.decode_ptr(id, poff, t, meta, depth + 1)
                    }
                    None => o(vec![("k", s("unsupported")), ("why", s("ptr without provenance"))]),
                }
            }
            _ => o(vec![("k", s("unsupported")), ("why", s(format!("type {}", ty)))]),
        }
    }

    fn const_json(&mut self, val: ConstValue, ty: Ty<'tcx>) -> J {
        let tcx = self.tcx;
        match val {
            ConstValue::Scalar(Scalar::Int(si)) => {
                let size = si.size();
                Self::scalar_int_json(si.to_bits(size), size.bytes())
            }
            ConstValue::Scalar(Scalar::Ptr(ptr, _)) => {
                let (prov, off) = ptr.prov_and_relative_offset();
                let pointee = match ty.kind() {
                    ty::Ref(_, t, _) | ty::RawPtr(t, _) => *t,
                    _ => ty,
                };
                self.decode_ptr(prov.alloc_id(), off.bytes(), pointee, None, 0)
            }
            ConstValue::ZeroSized => match *ty.kind() {
                ty::FnDef(def, args) => {
                    let c = self.callee_json(def, args);
                    o(vec![("k", s("fn")), ("callee", c)])
                }
                _ => o(vec![("k", s("zst"))]),
            },
            ConstValue::Slice { alloc_id, meta } => {
                let pointee = match ty.kind() {
                    ty::Ref(_, t, _) | ty::RawPtr(t, _) => *t,
                    _ => ty,
                };
                self.decode_ptr(alloc_id, 0, pointee, Some(meta), 0)
            }
            ConstValue::Indirect { alloc_id, offset } => match tcx.try_get_global_alloc(alloc_id) {
                Some(GlobalAlloc::Memory(a)) => self.decode_alloc(a.inner(), offset.bytes(), ty, 0),
                _ => o(vec![("k", s("unsupported")), ("why", s("indirect non-memory"))]),
            },
        }
    }

    fn operand_const(&mut self, c: &mir::ConstOperand<'tcx>) -> J {
        let ty = c.const_.ty();
        let tid = self.ty_id(ty);
        let v = match c.const_.eval(self.tcx, self.env, c.span) {
            Ok(v) => self.const_json(v, ty),
            Err(_) => o(vec![("k", s("unsupported")), ("why", s("const eval failed"))]),
        };
        o(vec![("k", s("const")), ("ty", n(tid)), ("v", v)])
    }

    // ------------------------------------------------------------------ MIR
    fn place(&mut self, body: &Body<'tcx>, p: &Place<'tcx>) -> J {
        let tcx = self.tcx;
        let mut proj = vec![];
        for (base, elem) in p.iter_projections() {
            let e = match elem {
                ProjectionElem::Deref => {
                    let bty = base.ty(&body.local_decls, tcx).ty;
                    let raw = matches!(bty.kind(), ty::RawPtr(..));
                    o(vec![("k", s("deref")), ("raw", J::B(raw))])
                }
                ProjectionElem::Field(i, t) => {
                    let tid = self.ty_id(t);
                    o(vec![("k", s("field")), ("i", n(i.as_usize())), ("ty", n(tid))])
                }
                ProjectionElem::Index(l) => o(vec![("k", s("index")), ("l", n(l.as_usize()))]),
                ProjectionElem::ConstantIndex { offset, min_length, from_end } => o(vec![
                    ("k", s("cindex")),
                    ("off", n(offset)),
                    ("min", n(min_length)),
                    ("from_end", J::B(from_end)),
                ]),
                ProjectionElem::Subslice { from, to, from_end } => o(vec![
                    ("k", s("subslice")),
                    ("from", n(from)),
                    ("to", n(to)),
                    ("from_end", J::B(from_end)),
                ]),
                ProjectionElem::Downcast(name, vi) => o(vec![
                    ("k", s("downcast")),
                    ("v", n(vi.as_usize())),
                    ("name", match name { Some(x) => s(x.to_string()), None => J::Null }),
                ]),
                _ => o(vec![("k", s("other"))]),
            };
            proj.push(e);
        }
        o(vec![("l", n(p.local.as_usize())), ("proj", J::A(proj))])
    }

    fn operand(&mut self, body: &Body<'tcx>, op: &Operand<'tcx>) -> J {
        match op {
            Operand::Copy(p) => {
                let pj = self.place(body, p);
                o(vec![("k", s("copy")), ("p", pj)])
            }
            Operand::Move(p) => {
                let pj = self.place(body, p);
                o(vec![("k", s("move")), ("p", pj)])
            }
            Operand::Constant(c) => self.operand_const(c),
            Operand::RuntimeChecks(rc) => o(vec![("k", s("runtime_checks")), ("which", s(format!("{:?}", rc)))]),
        }
    }

    fn rvalue(&mut self, body: &Body<'tcx>, rv: &Rvalue<'tcx>) -> J {
        let tcx = self.tcx;
        match rv {
            Rvalue::Use(op, _) => {
                let a = self.operand(body, op);
                o(vec![("k", s("use")), ("a", a)])
            }
            Rvalue::Repeat(op, c) => {
                let a = self.operand(body, op);
                let cnt = c.try_to_target_usize(tcx);
                o(vec![("k", s("repeat")), ("a", a), ("count", match cnt { Some(x) => n(x), None => J::Null })])
            }
            Rvalue::Ref(_, bk, p) => {
                let pj = self.place(body, p);
                let m = matches!(bk, mir::BorrowKind::Mut { .. });
                o(vec![("k", s("ref")), ("mut", J::B(m)), ("p", pj)])
            }
            Rvalue::RawPtr(k, p) => {
                let pj = self.place(body, p);
                o(vec![("k", s("rawptr")), ("kind", s(format!("{:?}", k))), ("p", pj)])
            }
            Rvalue::ThreadLocalRef(d) => {
                o(vec![("k", s("tls")), ("def", s(with_no_trimmed_paths!(tcx.def_path_str(*d))))])
            }
            Rvalue::Cast(kind, op, ty) => {
                let a = self.operand(body, op);
                let from = op.ty(&body.local_decls, tcx);
                let fid = self.ty_id(from);
                let tid = self.ty_id(*ty);
                o(vec![
                    ("k", s("cast")),
                    ("kind", s(format!("{:?}", kind))),
                    ("a", a),
                    ("from", n(fid)),
                    ("ty", n(tid)),
                ])
            }
            Rvalue::BinaryOp(op, ab) => {
                let (a, b) = &**ab;
                let aty = a.ty(&body.local_decls, tcx);
                let tid = self.ty_id(aty);
                let aj = self.operand(body, a);
                let bj = self.operand(body, b);
                o(vec![("k", s("bin")), ("op", s(format!("{:?}", op))), ("a", aj), ("b", bj), ("ty", n(tid))])
            }
            Rvalue::UnaryOp(op, a) => {
                let aty = a.ty(&body.local_decls, tcx);
                let tid = self.ty_id(aty);
                let aj = self.operand(body, a);
                o(vec![("k", s("un")), ("op", s(format!("{:?}", op))), ("a", aj), ("ty", n(tid))])
            }
            Rvalue::Discriminant(p) => {
                let pj = self.place(body, p);
                let pty = p.ty(&body.local_decls, tcx).ty;
                let tid = self.ty_id(pty);
                o(vec![("k", s("discr")), ("p", pj), ("ty", n(tid))])
            }
            Rvalue::Aggregate(kind, ops) => {
                let mut v = vec![];
                for op in ops.iter() {
                    v.push(self.operand(body, op));
                }
                let mut f = vec![("k", s("agg"))];
                match &**kind {
                    AggregateKind::Array(t) => {
                        let tid = self.ty_id(*t);
                        f.push(("kind", s("array")));
                        f.push(("elem", n(tid)));
                    }
                    AggregateKind::Tuple => f.push(("kind", s("tuple"))),
                    AggregateKind::Adt(def, vi, args, _, active) => {
                        let adt = tcx.adt_def(*def);
                        let ty = Ty::new_adt(tcx, adt, args);
                        let tid = self.ty_id(ty);
                        f.push(("kind", s("adt")));
                        f.push(("ty", n(tid)));
                        f.push(("variant", n(vi.as_usize())));
                        f.push(("vname", s(adt.variant(*vi).name.to_string())));
                        if let Some(a) = active {
                            f.push(("active_field", n(a.as_usize())));
                        }
                    }
                    AggregateKind::Closure(def, args) => {
                        let ty = Ty::new_closure(tcx, *def, args);
                        let tid = self.ty_id(ty);
                        f.push(("kind", s("closure")));
                        f.push(("ty", n(tid)));
                    }
                    AggregateKind::RawPtr(t, m) => {
                        let tid = self.ty_id(*t);
                        f.push(("kind", s("rawptr")));
                        f.push(("to", n(tid)));
                        f.push(("mut", J::B(m.is_mut())));
                    }
                    _ => f.push(("kind", s("other"))),
                }
                f.push(("ops", J::A(v)));
                o(f)
            }
            Rvalue::CopyForDeref(p) => {
                let pj = self.place(body, p);
                o(vec![("k", s("use")), ("a", o(vec![("k", s("copy")), ("p", pj)]))])
            }
            Rvalue::WrapUnsafeBinder(op, _) => {
                let a = self.operand(body, op);
                o(vec![("k", s("use")), ("a", a)])
            }
        }
    }

    fn line_in(&self, sp: Span, file: &str) -> usize {
        let (f, l) = self.loc(sp);
        if f == file {
            l
        } else {
            0
        }
    }

    fn block(&mut self, body: &Body<'tcx>, bb: &BasicBlockData<'tcx>, file: &str) -> J {
        let tcx = self.tcx;
        let mut stmts = vec![];
        for st in &bb.statements {
            let ln = self.line_in(st.source_info.span, file);
            match &st.kind {
                StatementKind::Assign(b) => {
                    let (p, rv) = &**b;
                    let pj = self.place(body, p);
                    let rj = self.rvalue(body, rv);
                    stmts.push(o(vec![("k", s("assign")), ("p", pj), ("r", rj), ("ln", n(ln))]));
                }
                StatementKind::SetDiscriminant { place, variant_index } => {
                    let pj = self.place(body, place);
                    stmts.push(o(vec![("k", s("setdiscr")), ("p", pj), ("v", n(variant_index.as_usize())), ("ln", n(ln))]));
                }
                StatementKind::Intrinsic(i) => match &**i {
                    mir::NonDivergingIntrinsic::Assume(op) => {
                        let a = self.operand(body, op);
                        stmts.push(o(vec![("k", s("assume")), ("a", a), ("ln", n(ln))]));
                    }
                    mir::NonDivergingIntrinsic::CopyNonOverlapping(c) => {
                        let a = self.operand(body, &c.src);
                        let b = self.operand(body, &c.dst);
                        let cn = self.operand(body, &c.count);
                        stmts.push(o(vec![("k", s("copy_nonoverlapping")), ("src", a), ("dst", b), ("count", cn), ("ln", n(ln))]));
                    }
                },
                _ => {}
            }
        }
        let term = bb.terminator();
        let ln = self.line_in(term.source_info.span, file);
        let t = match &term.kind {
            TerminatorKind::Goto { target } => o(vec![("k", s("goto")), ("t", n(target.as_usize()))]),
            TerminatorKind::SwitchInt { discr, targets } => {
                let d = self.operand(body, discr);
                let dty = discr.ty(&body.local_decls, tcx);
                let tid = self.ty_id(dty);
                let mut ts = vec![];
                for (v, t) in targets.iter() {
                    ts.push(arr(vec![s(v.to_string()), n(t.as_usize())]));
                }
                o(vec![
                    ("k", s("switch")),
                    ("d", d),
                    ("ty", n(tid)),
                    ("targets", J::A(ts)),
                    ("otherwise", n(targets.otherwise().as_usize())),
                ])
            }
            TerminatorKind::Return => o(vec![("k", s("return"))]),
            TerminatorKind::Unreachable => o(vec![("k", s("unreachable"))]),
            TerminatorKind::UnwindResume => o(vec![("k", s("resume"))]),
            TerminatorKind::UnwindTerminate(_) => o(vec![("k", s("abort"))]),
            TerminatorKind::Drop { place, target, .. } => {
                let pj = self.place(body, place);
                let pty = place.ty(&body.local_decls, tcx).ty;
                let tid = self.ty_id(pty);
                o(vec![("k", s("drop")), ("p", pj), ("ty", n(tid)), ("t", n(target.as_usize()))])
            }
            TerminatorKind::Call { func, args, destination, target, fn_span, .. } => {
                let mut f = vec![("k", s("call"))];
                let fty = func.ty(&body.local_decls, tcx);
                match *fty.kind() {
                    ty::FnDef(def, gargs) => {
                        let c = self.callee_json(def, gargs);
                        f.push(("callee", c));
                    }
                    _ => {
                        let fj = self.operand(body, func);
                        f.push(("fnptr", fj));
                    }
                }
                let mut av = vec![];
                for a in args.iter() {
                    av.push(self.operand(body, &a.node));
                }
                f.push(("args", J::A(av)));
                let dj = self.place(body, destination);
                f.push(("dest", dj));
                f.push(("t", match target { Some(t) => n(t.as_usize()), None => J::Null }));
                let l2 = self.line_in(*fn_span, file);
                f.push(("ln", n(if l2 != 0 { l2 } else { ln })));
                o(f)
            }
            TerminatorKind::TailCall { .. } => o(vec![("k", s("unsupported")), ("what", s("tailcall"))]),
            TerminatorKind::Assert { cond, expected, msg, target, .. } => {
                let c = self.operand(body, cond);
                let mut f = vec![("k", s("assert")), ("cond", c), ("expected", J::B(*expected)), ("t", n(target.as_usize()))];
                let (mk, ops): (String, Vec<&Operand<'tcx>>) = match &**msg {
                    AssertKind::BoundsCheck { len, index } => ("BoundsCheck".into(), vec![len, index]),
                    AssertKind::Overflow(op, a, b) => (format!("Overflow({:?})", op), vec![a, b]),
                    AssertKind::OverflowNeg(a) => ("OverflowNeg".into(), vec![a]),
                    AssertKind::DivisionByZero(a) => ("DivisionByZero".into(), vec![a]),
                    AssertKind::RemainderByZero(a) => ("RemainderByZero".into(), vec![a]),
                    AssertKind::MisalignedPointerDereference { required, found } => {
                        ("MisalignedPointerDereference".into(), vec![required, found])
                    }
                    AssertKind::NullPointerDereference => ("NullPointerDereference".into(), vec![]),
                    AssertKind::InvalidEnumConstruction(a) => ("InvalidEnumConstruction".into(), vec![a]),
                    _ => ("Other".into(), vec![]),
                };
                f.push(("msg", s(mk)));
                let mut ov = vec![];
                for op in ops {
                    ov.push(self.operand(body, op));
                }
                f.push(("ops", J::A(ov)));
                f.push(("ln", n(ln)));
                o(f)
            }
            TerminatorKind::FalseEdge { real_target, .. } => o(vec![("k", s("goto")), ("t", n(real_target.as_usize()))]),
            TerminatorKind::FalseUnwind { real_target, .. } => o(vec![("k", s("goto")), ("t", n(real_target.as_usize()))]),
            other => o(vec![("k", s("unsupported")), ("what", s(format!("{:?}", std::mem::discriminant(other))))]),
        };
        o(vec![("s", J::A(stmts)), ("t", t), ("cleanup", J::B(bb.is_cleanup))])
    }

    fn emit_instance(&mut self, inst: Instance<'tcx>) {
        let tcx = self.tcx;
        let key = self.seen.get(&inst).cloned().unwrap();
        let def = inst.def_id();
        let body = tcx.instance_mir(inst.def);
        let body: Body<'tcx> =
            inst.instantiate_mir_and_normalize_erasing_regions(tcx, self.env, EarlyBinder::bind(body.clone()));
        let (file, line) = self.loc(body.span);
        let mut locals = vec![];
        for ld in body.local_decls.iter() {
            locals.push(n(self.ty_id(ld.ty)));
        }
        let mut names = vec![];
        for vdi in &body.var_debug_info {
            if let mir::VarDebugInfoContents::Place(p) = &vdi.value {
                if p.projection.is_empty() {
                    names.push((p.local.as_usize().to_string(), s(vdi.name.to_string())));
                }
            }
        }
        let mut blocks = vec![];
        for bb in body.basic_blocks.iter() {
            blocks.push(self.block(&body, bb, &file));
        }
        let targs = self.gargs(inst.args);
        let is_fn_like = matches!(tcx.def_kind(def), DefKind::Fn | DefKind::AssocFn);
        let mut f = vec![
            ("key", s(key)),
            ("def", s(with_no_trimmed_paths!(tcx.def_path_str(def)))),
            ("crate", s(self.crate_of(def))),
            ("kind", s(Self::kind_str(inst))),
            ("targs", targs),
            ("file", s(file)),
            ("line", n(line)),
            ("argc", n(body.arg_count)),
            ("locals", J::A(locals)),
            ("names", J::O(names)),
            ("blocks", J::A(blocks)),
            ("spread_arg", match body.spread_arg { Some(l) => n(l.as_usize()), None => J::Null }),
        ];
        if is_fn_like {
            let sig = tcx.fn_sig(def).skip_binder();
            f.push(("unsafe_fn", J::B(!sig.safety().is_safe())));
        }
        if matches!(inst.def, InstanceKind::Item(_)) && matches!(tcx.def_kind(def), DefKind::Closure) {
            f.push(("closure", J::B(true)));
        }
        self.fns.push(o(f));
    }

    // ---------------------------------------------------------------- roots
    fn root_candidates(&self, def: DefId, param_index: u32) -> Vec<Ty<'tcx>> {
        let tcx = self.tcx;
        let preds = tcx.predicates_of(def).instantiate_identity(tcx);
        let mut traits = vec![];
        for c in preds.predicates.iter() {
            let c = c.skip_norm_wip();
            if let Some(tp) = c.as_trait_clause() {
                let tp = tp.skip_binder();
                if let ty::Param(p) = tp.trait_ref.self_ty().kind() {
                    if p.index == param_index {
                        traits.push(with_no_trimmed_paths!(tcx.def_path_str(tp.def_id())));
                    }
                }
            }
        }
        let t = &tcx.types;
        if traits.iter().any(|x| x.ends_with("Pixel")) {
            vec![t.u8, t.u16]
        } else if self.crate_of(def) == "yuvxyb_math" {
            vec![t.f32, t.f64]
        } else {
            vec![]
        }
    }

    fn add_roots(&mut self, roots_out: &mut Vec<J>, skipped: &mut Vec<J>) {
        let tcx = self.tcx;
        let mut defs: Vec<DefId> = vec![];
        for ld in tcx.mir_keys(()).iter() {
            let d = ld.to_def_id();
            if matches!(tcx.def_kind(d), DefKind::Fn | DefKind::AssocFn) {
                defs.push(d);
            }
        }
        defs.sort_by_key(|d| with_no_trimmed_paths!(tcx.def_path_str(*d)));
        for d in defs {
            let g = tcx.generics_of(d);
            // collect all params (parents included)
            let mut params = vec![];
            let mut cur = Some(g);
            while let Some(gg) = cur {
                for p in &gg.own_params {
                    params.push(p.clone());
                }
                cur = gg.parent.map(|p| tcx.generics_of(p));
            }
            let has_const = params.iter().any(|p| matches!(p.kind, ty::GenericParamDefKind::Const { .. }));
            let tparams: Vec<_> =
                params.iter().filter(|p| matches!(p.kind, ty::GenericParamDefKind::Type { .. })).cloned().collect();
            let path = with_no_trimmed_paths!(tcx.def_path_str(d));
            if has_const {
                skipped.push(o(vec![("def", s(path)), ("why", s("const generic parameter; reached through callers"))]));
                continue;
            }
            // cartesian product of candidates
            let mut combos: Vec<HashMap<u32, Ty<'tcx>>> = vec![HashMap::new()];
            let mut ok = true;
            for p in &tparams {
                let c = self.root_candidates(d, p.index);
                if c.is_empty() {
                    ok = false;
                    break;
                }
                let mut next = vec![];
                for m in &combos {
                    for t in &c {
                        let mut m2 = m.clone();
                        m2.insert(p.index, *t);
                        next.push(m2);
                    }
                }
                combos = next;
            }
            if !ok {
                skipped.push(o(vec![("def", s(path)), ("why", s("no implementor set for a type parameter"))]));
                continue;
            }
            for m in combos {
                let args = GenericArgs::for_item(tcx, d, |param, _| match param.kind {
                    ty::GenericParamDefKind::Lifetime => tcx.lifetimes.re_erased.into(),
                    ty::GenericParamDefKind::Type { .. } => (*m.get(&param.index).unwrap()).into(),
                    ty::GenericParamDefKind::Const { .. } => unreachable!(),
                });
                match Instance::try_resolve(tcx, self.env, d, args) {
                    Ok(Some(inst)) => {
                        let k = self.enqueue(inst);
                        roots_out.push(s(k));
                    }
                    _ => skipped.push(o(vec![("def", s(&path)), ("why", s("unresolvable root"))])),
                }
            }
        }
    }

    // ---------------------------------------------------------------- items
    fn items(&mut self) -> (J, J, J, J) {
        let tcx = self.tcx;
        let mut items = vec![];
        let mut consts = vec![];
        let mut impls = vec![];
        let ev = tcx.effective_visibilities(());
        let crate_items = tcx.hir_crate_items(());
        for ld in crate_items.definitions() {
            let d = ld.to_def_id();
            let kind = tcx.def_kind(d);
            let path = with_no_trimmed_paths!(tcx.def_path_str(d));
            let (file, line) = self.loc(tcx.def_span(d));
            match kind {
                DefKind::Fn | DefKind::AssocFn => {
                    let sig = tcx.fn_sig(d).skip_binder();
                    let vis = tcx.visibility(d);
                    let sigs = with_no_trimmed_paths!(format!("{}", sig.skip_binder()));
                    items.push(o(vec![
                        ("def", s(path)),
                        ("kind", s(format!("{:?}", kind))),
                        ("pub", J::B(vis.is_public())),
                        ("reachable", J::B(ev.is_reachable(ld))),
                        ("unsafe", J::B(!sig.safety().is_safe())),
                        ("const", J::B(tcx.is_const_fn(d))),
                        ("sig", s(sigs)),
                        ("file", s(file)),
                        ("line", n(line)),
                    ]));
                }
                DefKind::Const { .. } | DefKind::AssocConst { .. } => {
                    let g = tcx.generics_of(d);
                    if g.count() == 0 && g.parent.map(|p| tcx.generics_of(p).count() == 0).unwrap_or(true) {
                        let ty = tcx.type_of(d).instantiate_identity().skip_norm_wip();
                        let tid = self.ty_id(ty);
                        let v = match tcx.const_eval_poly(d) {
                            Ok(v) => self.const_json(v, ty),
                            Err(_) => o(vec![("k", s("unsupported")), ("why", s("eval"))]),
                        };
                        consts.push(o(vec![("def", s(path)), ("ty", n(tid)), ("v", v), ("file", s(file)), ("line", n(line))]));
                    }
                }
                DefKind::Impl { of_trait } => {
                    let self_ty = tcx.type_of(d).instantiate_identity().skip_norm_wip();
                    let mut f = vec![
                        ("def", s(path)),
                        ("self_ty", s(with_no_trimmed_paths!(format!("{}", self_ty)))),
                        ("file", s(file)),
                        ("line", n(line)),
                    ];
                    if of_trait {
                        let tr = tcx.impl_trait_ref(d).instantiate_identity().skip_norm_wip();
                        f.push(("trait", s(with_no_trimmed_paths!(format!("{}", tr.print_only_trait_path())))));
                    }
                    let mut fs = vec![];
                    for it in tcx.associated_items(d).in_definition_order() {
                        if it.is_fn() {
                            fs.push(s(with_no_trimmed_paths!(tcx.def_path_str(it.def_id))));
                        }
                    }
                    f.push(("fns", J::A(fs)));
                    impls.push(o(f));
                }
                DefKind::Struct | DefKind::Enum => {
                    let vis = tcx.visibility(d);
                    items.push(o(vec![
                        ("def", s(path)),
                        ("kind", s(format!("{:?}", kind))),
                        ("pub", J::B(vis.is_public())),
                        ("reachable", J::B(ev.is_reachable(ld))),
                        ("file", s(file)),
                        ("line", n(line)),
                    ]));
                }
                _ => {}
            }
        }
        // HIR unsafe blocks
        let mut unsafe_blocks = vec![];
        for owner in tcx.hir_body_owners() {
            let body = tcx.hir_body_owned_by(owner);
            let mut v = UnsafeVisitor { spans: vec![] };
            rustc_hir::intravisit::Visitor::visit_body(&mut v, body);
            let path = with_no_trimmed_paths!(tcx.def_path_str(owner.to_def_id()));
            for sp in v.spans {
                let (file, line) = self.loc(sp);
                unsafe_blocks.push(o(vec![
                    ("owner", s(&path)),
                    ("file", s(file)),
                    ("line", n(line)),
                    ("from_expansion", J::B(sp.from_expansion())),
                ]));
            }
        }
        (J::A(items), J::A(consts), J::A(impls), J::A(unsafe_blocks))
    }

    fn run(&mut self) -> J {
        let tcx = self.tcx;
        let mut roots = vec![];
        let mut skipped = vec![];
        self.add_roots(&mut roots, &mut skipped);
        while let Some(inst) = self.queue.pop_front() {
            self.emit_instance(inst);
        }
        let (items, consts, impls, unsafe_blocks) = self.items();
        let mut ext: Vec<(String, String, usize)> = self.externals.iter().map(|(k, v)| (k.clone(), v.0.clone(), v.1)).collect();
        ext.sort();
        let ext_j: Vec<J> = ext.into_iter().map(|(k, d, v)| arr(vec![s(k), s(d), n(v)])).collect();
        let fns = std::mem::take(&mut self.fns);
        let types = std::mem::take(&mut self.types);
        let cfgs: Vec<J> = {
            let mut v: Vec<String> = tcx
                .sess
                .config
                .iter()
                .map(|(k, val)| match val {
                    Some(x) => format!("{}={}", k, x),
                    None => k.to_string(),
                })
                .filter(|x| x.starts_with("feature") || x.starts_with("target_feature") || x.starts_with("debug_assertions") || x.starts_with("overflow_checks"))
                .collect();
            v.sort();
            v.into_iter().map(s).collect()
        };
        o(vec![
            ("crate", s(tcx.crate_name(LOCAL_CRATE).to_string())),
            ("overflow_checks", J::B(tcx.sess.overflow_checks())),
            ("cfg", J::A(cfgs)),
            ("roots", J::A(roots)),
            ("skipped_roots", J::A(skipped)),
            ("types", J::A(types)),
            ("fns", J::A(fns)),
            ("items", items),
            ("consts", consts),
            ("impls", impls),
            ("unsafe_blocks", unsafe_blocks),
            ("externals", J::A(ext_j)),
        ])
    }
}

struct UnsafeVisitor {
    spans: Vec<Span>,
}

impl<'v> rustc_hir::intravisit::Visitor<'v> for UnsafeVisitor {
    fn visit_block(&mut self, b: &'v rustc_hir::Block<'v>) {
        if let rustc_hir::BlockCheckMode::UnsafeBlock(rustc_hir::UnsafeSource::UserProvided) = b.rules {
            self.spans.push(b.span);
        }
        rustc_hir::intravisit::walk_block(self, b);
    }
}
