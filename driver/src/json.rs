// Minimal JSON writer (no external crates available to a rustc_private driver here).
use std::fmt::Display;

pub enum J {
    Null,
    B(bool),
    N(String),
    S(String),
    A(Vec<J>),
    O(Vec<(String, J)>),
}

pub fn s(x: impl ToString) -> J {
    J::S(x.to_string())
}
pub fn n(x: impl Display) -> J {
    J::N(format!("{}", x))
}
pub fn arr(v: Vec<J>) -> J {
    J::A(v)
}
pub fn o(v: Vec<(&str, J)>) -> J {
    J::O(v.into_iter().map(|(k, v)| (k.to_string(), v)).collect())
}

fn esc(x: &str, out: &mut String) {
    out.push('"');
    for c in x.chars() {
        match c {
            '"' => out.push_str("\\\""),
            '\\' => out.push_str("\\\\"),
            '\n' => out.push_str("\\n"),
            '\r' => out.push_str("\\r"),
            '\t' => out.push_str("\\t"),
            c if (c as u32) < 0x20 => out.push_str(&format!("\\u{:04x}", c as u32)),
            c => out.push(c),
        }
    }
    out.push('"');
}

impl J {
    pub fn write(&self, out: &mut String) {
        match self {
            J::Null => out.push_str("null"),
            J::B(b) => out.push_str(if *b { "true" } else { "false" }),
            J::N(x) => out.push_str(x),
            J::S(x) => esc(x, out),
            J::A(v) => {
                out.push('[');
                for (i, x) in v.iter().enumerate() {
                    if i > 0 {
                        out.push(',');
                    }
                    x.write(out);
                }
                out.push(']');
            }
            J::O(v) => {
                out.push('{');
                for (i, (k, x)) in v.iter().enumerate() {
                    if i > 0 {
                        out.push(',');
                    }
                    esc(k, out);
                    out.push(':');
                    x.write(out);
                }
                out.push('}');
            }
        }
    }
}
